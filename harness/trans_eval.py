"""Translator plugin "eval": the evaluator's control logic (ka/eval.py: EvalEnvironment, eval_parse_tree, eval_node,
eval_based_on_mode, eval_funcall, eval_comprehension, bool_like), the array functions of ka/functions.py (array_prod ..
ka_range, the integer range lambda) and the shape of ka/interpret.py execute() -> coq/Gen/GenEvalSrc.v, regenerated on
every run from the Python AST of the tree under check.  coq/GenFacts/EvalSrcFacts.v proves the hand-written models
(Model/Arrays.v, Model/Session.v, Model/Exec.v) equal to these definitions.

Fail-closed: a construct outside the subset below raises Untranslatable and the function gets NO definition (a comment
`(* UNTRANSLATABLE name: why *)` instead), so the fact about it cannot be proved.  Nothing is repaired or guessed.
The trusted construct mapping is the text of MAPPING (copied into the generated file)."""
import ast, os, sys
sys.path.insert(0, os.path.dirname(os.path.abspath(__file__)))
import common as C
from pytrans import Untranslatable

MAPPING = r"""
   TRUSTED CONSTRUCT MAPPING (everything else is checked by GenFacts/EvalSrcFacts.v)
   kinds       every parameter has a declared kind (table DECL in harness/trans_eval.py, positional): Z host int, B bool,
               S string, V Ka value, N Ka number, L k list, A k Array object (represented by the list of its contents;
               `arr.contents`, `list(x)` and `Array(x)` are the identity on that list), Node parse node, U unit signature.
               The registrations of the source (register_function(F, NAME, SIG)) must agree with the declaration
               (Array = A V, Any = V, Number = N, Integral = Z) or the registration table is untranslatable.
   monads      functions of functions.py and the env-free functions of eval.py return `res T` (Model/Prelude.v);
               functions that receive `env` return `M E T = E -> res T * E`: the environment object is the threaded state
               and it survives an exception (what was written before the raise stays written).  `return e` is Ok e / retM e,
               `raise X(msg)` is Raise X / raiseM X (class by name, message dropped; the message may only mention names).
   sequencing  every operation that may raise is bound (`do t <- ..;` in res, `dos t <- ..;` in M) in source order:
               arguments left to right, statements top to bottom; `A if c else B` evaluates c, then only the chosen branch;
               `and`/`or` short-circuit; an `if` without else continues with the rest of the block in both branches.
   env         the parameter `env` is the implicit state: passing `env` to a callee is running the callee in the same
               state; `env.get_variable(x)` / `env.set_variable(x, v)` are calls of the translated methods of
               EvalEnvironment; inside them `name not in self._variables` is `has_var getv name` (negated),
               `self._variables[name]` is `read_var getv name` (Raise Unmodelled for a missing key), and
               `self._variables[name] = value` is `write_var setv name value`; getv/setv are section parameters
               (the model's environment lookup and update).  `if env is None: env = EvalEnvironment()` is dropped:
               the initial state is the caller's (EvalEnvironment.__init__ is regenerated as data, g_env_init).
   dispatch    functions.py: `dispatch(NAME, (a, b))` on two values is `dvalue2 NAME a b`, on two numbers
               `dnum2 NAME a b` (fixed functions of the generated preamble: the model's v_binop / v_cmp resp. n_add / n_le /
               n_lt .. selected by the name string; simplify_type of the result is the identity on model values);
               `dispatch(NAME, (arr,))` on an Array is the call of the translated function the source registers for
               NAME with signature (Array,).  eval.py: `dispatch(name, args, kw_args=kws)` is the section parameter
               `dispatch name args kws`; make_quantity / convert_quantity are section parameters (Model/Qty.v's).
   truth       `if e` / `not e` on a value is `truthy e`, on a number `num_true e`, on a list `negb (is_nil e)`,
               on a bool the bool.  `x == k` for a value x and int literal k is the section parameter `eq_int x k`
               (Python equality of a Ka value with an int); `==`/`!=` on strings is String.eqb, on host ints Z.eqb.
   literals    an int literal (or host int such as len(..)) where a value is required is `vint k`, where a number is
               required `NInt k`; None where a value is required is the section parameter `vnone`.
   nodes       node.eval_mode / .label / .children / .eval_children are projections of `pnode`; node.value is read through
               the typed projection its use demands (pvalue : V when returned, pname : string for variable / function
               names, psig : U for unit signatures); node.meta["num_assignments"] / child.meta["name"] are the
               projections meta_num_assignments / meta_name.  EvalModes.X is the string constant of class EvalModes.
   arrays      (eval.py) `Array(l)` is the list l, coerced by the section parameter `mk_arr` when it becomes a value;
               `isinstance(v, Array)` is `is_some (as_arr v)`; len(v) / v[i] on a value are taken on `contents v`
               (= the list of as_arr v, [] for a non-array).
   indexing    l[i] is `py_index l i` (negative i counts from the end, IndexError outside), l[:n] / l[n:] are
               py_slice_to / py_slice_from, len is py_len, range(a, b) is py_range a b, zip is combine,
               `v.append(e)` rebinds v to v ++ [e], `x += e` rebinds x, `//` and `%` are Z.div and Z.modulo.
   loops       `for x in l: BODY` is forR/forM BODY l st, `while c: BODY` is whileR/whileM (wf snapshot) BODY st, where st
               is the tuple of the variables bound before the loop and assigned in it, BODY returns (broke?, st),
               `break` is (true, st).  The fuel of a while loop is an extra leading parameter wf_<function>, a function
               of the snapshot = tuple of all local variables bound at loop entry in binding order (parameters first);
               EvalSrcFacts.v instantiates it with the model's fuel.  `[e for x in l]` is map / mapR / mapM (left to
               right), `any(c for x in l)` is existsb / anyR / anyM (stops at the first true), `sum(1 for x in l if c)` is
               py_len (filter ..), `dict((a, b) for x, y in zip(..))` is the association list map .. (combine ..),
               `list(sorted(l, key=cmp_to_key(f)))` is `sortedR g_f l` (stable insertion sort, comparisons f(x, y) < 0).
   recursion   eval_node is recursive through eval_based_on_mode and eval_comprehension: it is a Fixpoint on an explicit
               `fuel : nat` (Raise OutOfFuel at 0); every function in its cycle takes the recursive callee as a leading
               parameter `eval_node`.  A caller outside the cycle passes its own parameter `fuel`.
   try/except  `try: BODY except C1: raise X1(..) except C2: raise X2(..)` in tail position is
               `catchM BODY (fun x => if exn_eqb x C1 then raiseM X1 else if exn_eqb x C2 then raiseM X2 else raiseM x)`.
   execute()   is regenerated as data only (g_execute_shape): per top-level statement its class, per try statement the
               calls of its body in source order with the text of their arguments, the names bound to call results, and
               per handler its classes, the constants it returns and whether it mentions `env`.
"""

PREAMBLE = r"""From Coq Require Import String List ZArith QArith Bool.
From Ka Require Import Model.Prelude Model.Num Model.Qty Model.Arrays.
Import ListNotations.
Local Open Scope Z_scope.

(* ------------------------------------------------------------------ fixed terms of the construct mapping *)
Definition py_len {A} (l : list A) : Z := Z.of_nat (List.length l).
Definition py_index {A} (l : list A) (i : Z) : res A :=
  let n := py_len l in
  let j := if i <? 0 then i + n else i in
  if (j <? 0) || (n <=? j) then Raise IndexError
  else match nth_error l (Z.to_nat j) with Some a => Ok a | None => Raise IndexError end.
Definition py_range (a b : Z) : list Z := map (fun k => a + Z.of_nat k) (seq 0 (Z.to_nat (b - a))).
Definition py_clip {A} (l : list A) (n : Z) : nat := Z.to_nat (if n <? 0 then Z.max 0 (n + py_len l) else n).
Definition py_slice_to {A} (l : list A) (n : Z) : list A := firstn (py_clip l n) l.
Definition py_slice_from {A} (l : list A) (n : Z) : list A := skipn (py_clip l n) l.
Definition is_nil {A} (l : list A) : bool := match l with [] => true | _ => false end.
Definition is_some {A} (o : option A) : bool := match o with Some _ => true | None => false end.

Fixpoint forR {St X} (body : X -> St -> res (bool * St)) (l : list X) (s : St) : res St :=
  match l with
  | [] => Ok s
  | x :: r => do bs <- body x s; if fst bs then Ok (snd bs) else forR body r (snd bs)
  end.
Fixpoint whileR {St} (fuel : nat) (body : St -> res (bool * St)) (s : St) : res St :=
  match fuel with
  | O => Raise OutOfFuel
  | S f => do bs <- body s; if fst bs then Ok (snd bs) else whileR f body (snd bs)
  end.
Fixpoint mapR {X Y} (f : X -> res Y) (l : list X) : res (list Y) :=
  match l with
  | [] => Ok []
  | x :: r => do y <- f x; do ys <- mapR f r; Ok (y :: ys)
  end.
Fixpoint anyR {X} (f : X -> res bool) (l : list X) : res bool :=
  match l with
  | [] => Ok false
  | x :: r => do b <- f x; if b then Ok true else anyR f r
  end.
Fixpoint insR {X} (cmp : X -> X -> res Z) (x : X) (l : list X) : res (list X) :=
  match l with
  | [] => Ok [x]
  | y :: r => do c <- cmp x y; if c <? 0 then Ok (x :: y :: r) else do r' <- insR cmp x r; Ok (y :: r')
  end.
Definition sortedR {X} (cmp : X -> X -> res Z) (l : list X) : res (list X) :=
  foldM (fun acc x => insR cmp x acc) l [].

(* state + exception: the state survives a raise *)
Definition M (E A : Type) : Type := E -> res A * E.
Definition retM {E A} (a : A) : M E A := fun e => (Ok a, e).
Definition raiseM {E A} (x : exn) : M E A := fun e => (Raise x, e).
Definition liftM {E A} (r : res A) : M E A := fun e => (r, e).
Definition bindM {E A B} (m : M E A) (f : A -> M E B) : M E B :=
  fun e => match m e with (Ok a, e1) => f a e1 | (Raise x, e1) => (Raise x, e1) end.
Notation "'dos' x <- r ; k" := (bindM r (fun x => k))
  (at level 200, x pattern, r at level 100, k at level 200).
Definition catchM {E A} (m : M E A) (h : exn -> M E A) : M E A :=
  fun e => match m e with (Raise x, e1) => h x e1 | (Ok a, e1) => (Ok a, e1) end.
Definition has_var {E V} (getv : string -> E -> option V) (name : string) : M E bool :=
  fun e => (Ok (is_some (getv name e)), e).
Definition read_var {E V} (getv : string -> E -> option V) (name : string) : M E V :=
  fun e => (match getv name e with Some v => Ok v | None => Raise Unmodelled end, e).
Definition write_var {E V} (setv : string -> V -> E -> E) (name : string) (v : V) : M E Datatypes.unit :=
  fun e => (Ok tt, setv name v e).
Fixpoint forM {E St X} (body : X -> St -> M E (bool * St)) (l : list X) (s : St) : M E St :=
  match l with
  | [] => retM s
  | x :: r => dos bs <- body x s; if fst bs then retM (snd bs) else forM body r (snd bs)
  end.
Fixpoint whileM {E St} (fuel : nat) (body : St -> M E (bool * St)) (s : St) : M E St :=
  match fuel with
  | O => raiseM OutOfFuel
  | S f => dos bs <- body s; if fst bs then retM (snd bs) else whileM f body (snd bs)
  end.
Fixpoint mapM {E X Y} (f : X -> M E Y) (l : list X) : M E (list Y) :=
  match l with
  | [] => retM []
  | x :: r => dos y <- f x; dos ys <- mapM f r; retM (y :: ys)
  end.
Fixpoint anyM {E X} (f : X -> M E bool) (l : list X) : M E bool :=
  match l with
  | [] => retM false
  | x :: r => dos b <- f x; if b then retM true else anyM f r
  end.
"""

PRE_FN = r"""
(* ================================================================== ka/functions.py: arrays *)
Section FnSrc.
Variable ndims : nat.

Definition dvalue2 (name : string) (a b : value) : res value :=
  if String.eqb name "+"%string then v_binop ndims QAdd a b else
  if String.eqb name "-"%string then v_binop ndims QSub a b else
  if String.eqb name "*"%string then v_binop ndims QMul a b else
  if String.eqb name "/"%string then v_binop ndims QDiv a b else
  if String.eqb name "<"%string then v_cmp ndims QLt a b else
  if String.eqb name "<="%string then v_cmp ndims QLe a b else
  if String.eqb name "=="%string then v_cmp ndims QEq a b else
  if String.eqb name "!="%string then v_cmp ndims QNe a b else
  if String.eqb name ">"%string then v_cmp ndims QGt a b else
  if String.eqb name ">="%string then v_cmp ndims QGe a b else Raise Unmodelled.
Definition dnum2 (name : string) (a b : num) : res num :=
  if String.eqb name "+"%string then n_add a b else
  if String.eqb name "-"%string then n_sub a b else
  if String.eqb name "*"%string then n_mul a b else
  if String.eqb name "/"%string then n_div a b else
  if String.eqb name "<"%string then n_lt a b else
  if String.eqb name "<="%string then n_le a b else
  if String.eqb name "=="%string then n_eq a b else
  if String.eqb name "!="%string then n_ne a b else
  if String.eqb name ">"%string then n_gt a b else
  if String.eqb name ">="%string then n_ge a b else Raise Unmodelled.
"""

PRE_EV = r"""
(* ================================================================== ka/eval.py: the evaluator *)
Section EvSrc.
Variables (E V U : Type).
Variable vnone : V.
Variable getv : string -> E -> option V.
Variable setv : string -> V -> E -> E.
Variable dispatch : string -> list V -> list (string * V) -> res V.
Variable make_quantity : V -> U -> res V.
Variable convert_quantity : V -> U -> res V.
Variable mk_arr : list V -> V.
Variable as_arr : V -> option (list V).
Variable eq_int : V -> Z -> bool.

Definition contents (v : V) : list V := match as_arr v with Some l => l | None => [] end.

Inductive pnode :=
  PNode (eval_mode : string) (pvalue : V) (pname : string) (psig : U) (label : string)
        (children : list pnode) (eval_children : bool) (meta_num_assignments : Z) (meta_name : string).
Definition eval_mode (n : pnode) := let '(PNode m _ _ _ _ _ _ _ _) := n in m.
Definition pvalue (n : pnode) := let '(PNode _ v _ _ _ _ _ _ _) := n in v.
Definition pname (n : pnode) := let '(PNode _ _ s _ _ _ _ _ _) := n in s.
Definition psig (n : pnode) := let '(PNode _ _ _ u _ _ _ _ _) := n in u.
Definition label (n : pnode) := let '(PNode _ _ _ _ l _ _ _ _) := n in l.
Definition children (n : pnode) := let '(PNode _ _ _ _ _ c _ _ _) := n in c.
Definition eval_children (n : pnode) := let '(PNode _ _ _ _ _ _ b _ _) := n in b.
Definition meta_num_assignments (n : pnode) := let '(PNode _ _ _ _ _ _ _ k _) := n in k.
Definition meta_name (n : pnode) := let '(PNode _ _ _ _ _ _ _ _ s) := n in s.
"""

# ---------------------------------------------------------------------------------------------- kinds
Z, B, S, V, N, NODE, U, ENV, NONE, SELF, NV = "Z", "B", "S", "V", "N", "Node", "U", "Env", "None", "Self", "NV"


def L(k):
    return ("L", k)


def A(k):
    return ("A", k)


def T(*ks):
    return ("T",) + tuple(ks)


def listlike(k):
    return isinstance(k, tuple) and k[0] in ("L", "A")


def kind_eq(a, b):
    if a == "?" or b == "?":
        return True
    if isinstance(a, tuple) and isinstance(b, tuple):
        return a[0] == b[0] and len(a) == len(b) and all(kind_eq(x, y) for x, y in zip(a[1:], b[1:]))
    return a == b


def decl(mod, sec, monad, params, ret):
    return dict(mod=mod, sec=sec, monad=monad, params=params, ret=ret)


# declared kinds (positional) of the translated functions; key = qualified name in its module
DECL = {
    "array_prod": decl("functions", "fn", "R", [A(V)], V),
    "array_min": decl("functions", "fn", "R", [A(V)], V),
    "array_max": decl("functions", "fn", "R", [A(V)], V),
    "array_sum": decl("functions", "fn", "R", [A(V)], V),
    "array_size": decl("functions", "fn", "R", [A(V)], V),
    "array_mean": decl("functions", "fn", "R", [A(V)], V),
    "in_array": decl("functions", "fn", "R", [V, A(V)], V),
    "ka_cmp": decl("functions", "fn", "R", [V, V], Z),
    "array_median": decl("functions", "fn", "R", [A(V)], V),
    "ka_range": decl("functions", "fn", "R", [N, N, N], A(N)),
    "bool_like": decl("eval", "ev", "R", [V], B),
    "EvalEnvironment.set_variable": decl("eval", "ev", "M", [SELF, S, V], V),
    "EvalEnvironment.get_variable": decl("eval", "ev", "M", [SELF, S], V),
    "eval_funcall": decl("eval", "ev", "R", [NODE, L(V)], V),
    "eval_comprehension": decl("eval", "ev", "M", [NODE, ENV], V),
    "eval_based_on_mode": decl("eval", "ev", "M", [NODE, ENV, L(V)], V),
    "eval_node": decl("eval", "ev", "M", [NODE, ENV], V),
    "eval_parse_tree": decl("eval", "ev", "M", [NODE, ENV], V),
}
ORDER = list(DECL)
REC_ROOT = "eval_node"
SIG_KIND = {"Array": A(V), "Any": V, "Number": N, "Integral": Z}
META = {"num_assignments": ("meta_num_assignments", Z), "name": ("meta_name", S)}
NODE_ATTR = {"eval_mode": ("eval_mode", S), "label": ("label", S), "children": ("children", L(NODE)),
             "eval_children": ("eval_children", B)}
EXN = ["ZeroDivisionError", "OverflowError", "TypeError", "ValueError", "IndexError", "KaRuntimeError", "EvalError",
       "ParsingError", "UnknownFunctionError", "NoMatchingFunctionSignatureError", "UnknownKeywordError",
       "BadTypeKeywordError", "IncompatibleQuantitiesError", "FunctionArgError", "InvalidParameterException"]
RESERVED = set("""fun if then else let in do dos match with end true false fix as return at using where forall exists Type Prop
Set nat Z bool string list option unit tt fst snd negb andb orb map filter combine existsb app length nth_error firstn skipn
Ok Raise res exn exn_eqb retM raiseM liftM bindM catchM forR forM whileR whileM mapR mapM anyR anyM insR sortedR foldM M
has_var read_var write_var py_len py_index py_range py_clip py_slice_to py_slice_from is_nil is_some dvalue2 dnum2 ndims
truthy num_true vint vbool NInt NFrac NFlt VS VA VN VQ value num qval E V U vnone getv setv dispatch make_quantity
convert_quantity mk_arr as_arr eq_int contents pnode PNode eval_mode pvalue pname psig label children eval_children
meta_num_assignments meta_name fuel eval_node S O Some None String EmptyString""".split())


def coq_str(s):
    if any(ord(c) < 32 or ord(c) > 126 for c in s):
        raise Untranslatable("string constant with a non-printable character")
    return '"' + s.replace('"', '""') + '"%string'


def zlit(n):
    return "%d" % n if n >= 0 else "(%d)" % n


def tup(names):
    if not names:
        return "tt"
    if len(names) == 1:
        return names[0]
    return "(" + ", ".join(names) + ")"


def funpat(names, unit_typed=True):
    if not names:
        return "(_ : Datatypes.unit)" if unit_typed else "_"
    if len(names) == 1:
        return names[0]
    return "'(" + ", ".join(names) + ")"


def dopat(names):
    if not names:
        return "_"
    if len(names) == 1:
        return names[0]
    return "(" + ", ".join(names) + ")"


class FnTr:
    """one function body -> one Gallina term in its monad, in continuation-passing style so that the binds come out in
    Python's evaluation order"""

    def __init__(self, unit, key, d):
        self.unit, self.key = unit, key
        self.sec, self.monad, self.retk = d["sec"], d["monad"], d["ret"]
        self.n = 0
        self.extras = []            # extra leading parameters: "fuel", "eval_node", wf_*
        self.loops = []             # stack of carried-variable lists
        self.nwhile = 0
        if self.monad == "R":
            self.DO, self.RET, self.RAISE, self.X = "do", "Ok", "Raise", "R"
        else:
            self.DO, self.RET, self.RAISE, self.X = "dos", "retM", "raiseM", "M"

    # ------------------------------------------------------------------------------------ helpers
    def check_name(self, name):
        if (name in RESERVED and not (name == "value" and self.sec == "ev")) or (name[:1] == "t" and name[1:].isdigit()) or name.startswith("g_") or name.startswith("wf_") \
                or not name.isidentifier() or not name.isascii():
            raise Untranslatable("variable name %s clashes with the generated vocabulary" % name)

    def fresh(self):
        self.n += 1
        return "t%d" % self.n

    def add_extra(self, x):
        if x not in self.extras:
            self.extras.append(x)

    def bind_own(self, comp, kind, k):
        v = self.fresh()
        return "%s %s <- %s;\n%s" % (self.DO, v, comp, k(v, kind))

    def bind_res(self, comp, kind, k):
        return self.bind_own(comp if self.monad == "R" else "liftM (%s)" % comp, kind, k)

    def coerce(self, a, have, want):
        if have == NV:
            if want == V:
                return "(pvalue %s)" % a
            if want == S:
                return "(pname %s)" % a
            if want == U:
                return "(psig %s)" % a
            raise Untranslatable("node.value used as kind %r" % (want,))
        if kind_eq(have, want):
            return a
        if listlike(have) and listlike(want) and kind_eq(have[1], want[1]):
            return a
        if have == Z and want == V and self.sec == "fn":
            return "(vint %s)" % a
        if have == Z and want == N:
            return "(NInt %s)" % a
        if have == NONE and want == V and self.sec == "ev":
            return "vnone"
        if isinstance(have, tuple) and have[0] == "A" and want == V and self.sec == "ev" and kind_eq(have[1], V):
            return "(mk_arr %s)" % a
        raise Untranslatable("kind %r where %r is required" % (have, want))

    def pure(self, e, env):
        box = []
        n0 = self.n

        def cap(a, t):
            box.append((a, t))
            return "\0"
        txt = self.expr(e, env, cap)
        if txt == "\0":
            return box[0]
        self.n = n0
        return None

    def pure_cond(self, e, env):
        box = []
        n0 = self.n

        def cap(c):
            box.append(c)
            return "\0"
        txt = self.cond(e, env, cap)
        if txt == "\0":
            return box[0]
        self.n = n0
        return None

    def sub(self, e, env, want=None):
        """expression -> computation in the own monad ending in ret atom"""
        box = []

        def fin(a, t):
            if want is not None:
                a, t = self.coerce(a, t, want), want
            box.append(t)
            return "%s %s" % (self.RET, a)
        return self.expr(e, env, fin), box[0]

    def exprs(self, es, env, k):
        def go(i, acc):
            if i == len(es):
                return k(acc)
            return self.expr(es[i], env, lambda a, t: go(i + 1, acc + [(a, t)]))
        return go(0, [])

    def is_self_vars(self, e, env):
        return isinstance(e, ast.Attribute) and e.attr == "_variables" and isinstance(e.value, ast.Name) \
            and env.get(e.value.id) == SELF

    def target(self, t, ek, env):
        """loop / comprehension target -> (binder text, env additions)"""
        if isinstance(t, ast.Name):
            self.check_name(t.id)
            return t.id, {t.id: ek}
        if isinstance(t, ast.Tuple) and all(isinstance(x, ast.Name) for x in t.elts) and isinstance(ek, tuple) \
                and ek[0] == "T" and len(ek) - 1 == len(t.elts):
            for x in t.elts:
                self.check_name(x.id)
            return "'(" + ", ".join(x.id for x in t.elts) + ")", {x.id: kk for x, kk in zip(t.elts, ek[1:])}
        raise Untranslatable("loop target " + ast.dump(t)[:60])

    def iterable(self, e, env, k):
        """k(list atom, element kind)"""
        if isinstance(e, ast.Call) and isinstance(e.func, ast.Name) and e.func.id == "zip" and "zip" not in env \
                and len(e.args) == 2 and not e.keywords:
            def fin(ats):
                for a, t in ats:
                    if not listlike(t):
                        raise Untranslatable("zip of a non-list")
                return k("(combine %s %s)" % (ats[0][0], ats[1][0]), T(ats[0][1][1], ats[1][1][1]))
            return self.exprs(e.args, env, fin)

        def fin1(a, t):
            if not listlike(t):
                raise Untranslatable("iteration over kind %r" % (t,))
            return k(a, t[1])
        return self.expr(e, env, fin1)

    def one_generator(self, gens):
        if len(gens) != 1 or gens[0].is_async:
            raise Untranslatable("generator shape")
        return gens[0]

    # ------------------------------------------------------------------------------------ expressions
    def expr(self, e, env, k):
        """k(atom, kind) -> text; atom is a pure Gallina term"""
        if isinstance(e, ast.Constant):
            v = e.value
            if isinstance(v, bool):
                return k("true" if v else "false", B)
            if isinstance(v, int):
                return k(zlit(v), Z)
            if isinstance(v, str):
                return k(coq_str(v), S)
            if v is None and self.sec == "ev":
                return k("vnone", NONE)
            raise Untranslatable("constant %r" % (v,))
        if isinstance(e, ast.Name):
            if e.id not in env:
                raise Untranslatable("unbound name %s" % e.id)
            if env[e.id] in (ENV, SELF):
                raise Untranslatable("the environment object %s used as a value" % e.id)
            return k(e.id, env[e.id])
        if isinstance(e, ast.Attribute):
            if isinstance(e.value, ast.Name) and e.value.id == "EvalModes" and "EvalModes" not in env:
                modes = self.unit.eval_modes()
                if e.attr not in modes:
                    raise Untranslatable("EvalModes.%s" % e.attr)
                return k(coq_str(modes[e.attr]), S)

            def fin(a, t):
                if t == NODE and e.attr in NODE_ATTR:
                    return k("(%s %s)" % (NODE_ATTR[e.attr][0], a), NODE_ATTR[e.attr][1])
                if t == NODE and e.attr == "value":
                    return k(a, NV)
                if isinstance(t, tuple) and t[0] == "A" and e.attr == "contents":
                    return k(a, L(t[1]))
                raise Untranslatable("attribute %s of kind %r" % (e.attr, t))
            return self.expr(e.value, env, fin)
        if isinstance(e, ast.Subscript):
            return self.subscript(e, env, k)
        if isinstance(e, ast.List):
            if not e.elts:
                return k("[]", L("?"))

            def fin(ats):
                k0 = ats[0][1]
                return k("[" + "; ".join(self.coerce(a, t, k0) for a, t in ats) + "]", L(k0))
            return self.exprs(e.elts, env, fin)
        if isinstance(e, ast.UnaryOp) and isinstance(e.op, ast.USub):
            def fin(a, t):
                if t != Z:
                    raise Untranslatable("unary minus on kind %r" % (t,))
                return k("(- %s)" % a, Z)
            return self.expr(e.operand, env, fin)
        if isinstance(e, ast.BinOp):
            ops = {ast.Add: "+", ast.Sub: "-", ast.Mult: "*", ast.FloorDiv: "/", ast.Mod: "mod"}
            if type(e.op) not in ops:
                raise Untranslatable("operator %s" % type(e.op).__name__)

            def fin(ats):
                (a, ta), (b, tb) = ats
                if ta == Z and tb == Z:
                    return k("(%s %s %s)" % (a, ops[type(e.op)], b), Z)
                if isinstance(e.op, ast.Add) and listlike(ta) and listlike(tb) and kind_eq(ta[1], tb[1]):
                    return k("(%s ++ %s)" % (a, b), ta if ta[1] != "?" else tb)
                raise Untranslatable("operator %s on kinds %r, %r" % (ops[type(e.op)], ta, tb))
            return self.exprs([e.left, e.right], env, fin)
        if isinstance(e, (ast.Compare, ast.BoolOp)) or (isinstance(e, ast.UnaryOp) and isinstance(e.op, ast.Not)):
            return self.cond(e, env, lambda c: k(c, B))
        if isinstance(e, ast.IfExp):
            return self.ifexp(e, env, k)
        if isinstance(e, ast.ListComp):
            return self.listcomp(e, env, k)
        if isinstance(e, ast.Call):
            return self.call(e, env, k)
        raise Untranslatable(ast.dump(e)[:80])

    def unify(self, k1, k2):
        if kind_eq(k1, k2):
            return k1 if k1 != "?" else k2
        if {k1, k2} == {NONE, V}:
            return V
        if NV in (k1, k2):
            other = k2 if k1 == NV else k1
            return V if other in (NONE, NV) else other
        raise Untranslatable("conditional expression of kinds %r and %r" % (k1, k2))

    def ifexp(self, e, env, k):
        pc = self.pure_cond(e.test, env)
        pa = self.pure(e.body, env) if pc is not None else None
        pb = self.pure(e.orelse, env) if pa is not None else None
        if pb is not None:
            kk = self.unify(pa[1], pb[1])
            return k("(if %s then %s else %s)" % (pc, self.coerce(pa[0], pa[1], kk), self.coerce(pb[0], pb[1], kk)), kk)

        def after(c):
            pa2 = self.pure(e.body, env)
            pb2 = self.pure(e.orelse, env) if pa2 is not None else None
            if pb2 is not None:
                kk = self.unify(pa2[1], pb2[1])
                return k("(if %s then %s else %s)" % (c, self.coerce(pa2[0], pa2[1], kk), self.coerce(pb2[0], pb2[1], kk)), kk)
            n0 = self.n
            _, k1 = self.sub(e.body, env)
            _, k2 = self.sub(e.orelse, env)
            self.n = n0
            kk = self.unify(k1, k2)
            th, _ = self.sub(e.body, env, kk)
            el, _ = self.sub(e.orelse, env, kk)
            return self.bind_own("(if %s then (%s) else (%s))" % (c, th, el), kk, k)
        return self.cond(e.test, env, after)

    def subscript(self, e, env, k):
        sl = e.slice
        if isinstance(sl, ast.Index):          # python < 3.9
            sl = sl.value
        # node.meta["key"]
        if isinstance(e.value, ast.Attribute) and e.value.attr == "meta" and isinstance(sl, ast.Constant) \
                and isinstance(sl.value, str):
            if sl.value not in META:
                raise Untranslatable("meta key %r" % sl.value)

            def fin(a, t):
                if t != NODE:
                    raise Untranslatable(".meta of kind %r" % (t,))
                return k("(%s %s)" % (META[sl.value][0], a), META[sl.value][1])
            return self.expr(e.value.value, env, fin)
        # self._variables[name]
        if self.is_self_vars(e.value, env):
            if self.monad != "M":
                raise Untranslatable("environment read outside the state monad")
            return self.expr(sl, env, lambda a, t: self.bind_own("read_var getv %s" % self.coerce(a, t, S), V, k))
        if isinstance(sl, ast.Slice):
            if sl.step is not None or (sl.lower is None) == (sl.upper is None):
                raise Untranslatable("slice shape")

            def fin(ats):
                (a, ta), (b, tb) = ats
                if not listlike(ta) or tb != Z:
                    raise Untranslatable("slice of kind %r by %r" % (ta, tb))
                return k("(%s %s %s)" % ("py_slice_to" if sl.lower is None else "py_slice_from", a, b), L(ta[1]))
            return self.exprs([e.value, sl.upper if sl.lower is None else sl.lower], env, fin)

        def fin2(ats):
            (a, ta), (b, tb) = ats
            if tb != Z:
                raise Untranslatable("index of kind %r" % (tb,))
            if listlike(ta):
                return self.bind_res("py_index %s %s" % (a, b), ta[1], k)
            if ta == V and self.sec == "ev":
                return self.bind_res("py_index (contents %s) %s" % (a, b), V, k)
            raise Untranslatable("indexing kind %r" % (ta,))
        return self.exprs([e.value, sl], env, fin2)

    def listcomp(self, e, env, k):
        g = self.one_generator(e.generators)

        def with_iter(lst, ek):
            binder, add = self.target(g.target, ek, env)
            env2 = dict(env)
            env2.update(add)
            conds = [self.pure_cond(c, env2) for c in g.ifs]
            if any(c is None for c in conds):
                raise Untranslatable("comprehension filter that may raise")
            src = lst
            for c in conds:
                src = "(filter (fun %s => %s) %s)" % (binder, c, src)
            p = self.pure(e.elt, env2)
            if p is not None:
                return k("(map (fun %s => %s) %s)" % (binder, p[0] if p[1] != NV else self.coerce(p[0], NV, V), src),
                         L(p[1] if p[1] != NV else V))
            body, kk = self.sub(e.elt, env2)
            if kk == NV:
                body, kk = self.sub(e.elt, env2, V)
            return self.bind_own("map%s (fun %s => %s) %s" % (self.X, binder, body, src), L(kk), k)
        return self.iterable(g.iter, env, with_iter)

    # ------------------------------------------------------------------------------------ conditions
    def truth(self, a, t):
        if t == B:
            return a
        if t == V and self.sec == "fn":
            return "(truthy %s)" % a
        if t == N:
            return "(num_true %s)" % a
        if listlike(t):
            return "(negb (is_nil %s))" % a
        if t == Z:
            return "(negb (%s =? 0))" % a
        raise Untranslatable("truth value of kind %r" % (t,))

    def cond(self, e, env, k):
        """k(bool atom) -> text"""
        if isinstance(e, ast.BoolOp):
            isand = isinstance(e.op, ast.And)
            ps = [self.pure_cond(v, env) for v in e.values]
            if all(p is not None for p in ps):
                return k("(" + (" && " if isand else " || ").join(ps) + ")")

            def chain(vals):
                if len(vals) == 1:
                    return lambda kk: self.cond(vals[0], env, kk)

                def run(kk):
                    def after(c):
                        rest = chain(vals[1:])(lambda c2: "%s %s" % (self.RET, c2))
                        if isand:
                            return self.bind_own("(if %s then (%s) else %s false)" % (c, rest, self.RET), B, lambda v, _: kk(v))
                        return self.bind_own("(if %s then %s true else (%s))" % (c, self.RET, rest), B, lambda v, _: kk(v))
                    return self.cond(vals[0], env, after)
                return run
            return chain(e.values)(k)
        if isinstance(e, ast.UnaryOp) and isinstance(e.op, ast.Not):
            return self.cond(e.operand, env, lambda c: k("(negb %s)" % c))
        if isinstance(e, ast.Compare):
            if len(e.ops) != 1:
                raise Untranslatable("comparison chain")
            op, l, r = e.ops[0], e.left, e.comparators[0]
            if isinstance(op, (ast.In, ast.NotIn)):
                if not self.is_self_vars(r, env) or self.monad != "M":
                    raise Untranslatable("membership test")

                def fin(a, t):
                    return self.bind_own("has_var getv %s" % self.coerce(a, t, S), B,
                                         lambda v, _: k(v if isinstance(op, ast.In) else "(negb %s)" % v))
                return self.expr(l, env, fin)
            if isinstance(op, (ast.Is, ast.IsNot)):
                raise Untranslatable("identity test")

            def fin2(ats):
                (a, ta), (b, tb) = ats
                neg = lambda c: "(negb %s)" % c
                if ta in (S, NV) and tb in (S, NV) and (ta, tb) != (NV, NV) and isinstance(op, (ast.Eq, ast.NotEq)):
                    c = "(String.eqb %s %s)" % (self.coerce(a, ta, S), self.coerce(b, tb, S))
                    return k(c if isinstance(op, ast.Eq) else neg(c))
                if ta == Z and tb == Z:
                    if isinstance(op, ast.Eq): return k("(%s =? %s)" % (a, b))
                    if isinstance(op, ast.NotEq): return k(neg("(%s =? %s)" % (a, b)))
                    if isinstance(op, ast.Lt): return k("(%s <? %s)" % (a, b))
                    if isinstance(op, ast.LtE): return k("(%s <=? %s)" % (a, b))
                    if isinstance(op, ast.Gt): return k("(%s <? %s)" % (b, a))
                    if isinstance(op, ast.GtE): return k("(%s <=? %s)" % (b, a))
                if ta == V and tb == Z and self.sec == "ev" and isinstance(op, (ast.Eq, ast.NotEq)) \
                        and isinstance(r, ast.Constant):
                    c = "(eq_int %s %s)" % (a, b)
                    return k(c if isinstance(op, ast.Eq) else neg(c))
                raise Untranslatable("comparison %s of kinds %r, %r" % (type(op).__name__, ta, tb))
            return self.exprs([l, r], env, fin2)
        return self.expr(e, env, lambda a, t: k(self.truth(a, t)))

    # ------------------------------------------------------------------------------------ calls
    def call(self, e, env, k):
        f = e.func
        if isinstance(f, ast.Attribute) and isinstance(f.value, ast.Name) and env.get(f.value.id) == ENV:
            key = "EvalEnvironment." + f.attr
            if key not in DECL or e.keywords:
                raise Untranslatable("method %s of the environment" % f.attr)
            return self.call_decl(key, [None] + list(e.args), env, k)
        if not isinstance(f, ast.Name):
            raise Untranslatable("call of " + ast.dump(f)[:60])
        name = f.id
        if name in env:
            raise Untranslatable("call of the local variable %s" % name)
        if name == "dispatch":
            return self.dispatch(e, env, k)
        if name in DECL and self.unit.is_global_function(DECL[name]["mod"], name, self.unit.module_of(self.key)):
            if e.keywords:
                raise Untranslatable("keyword arguments in a call of %s" % name)
            return self.call_decl(name, list(e.args), env, k)
        if e.keywords and name not in ("sorted",):
            raise Untranslatable("keyword arguments in a call of %s" % name)
        if name == "len" and len(e.args) == 1:
            def fin(a, t):
                if listlike(t):
                    return k("(py_len %s)" % a, Z)
                if t == V and self.sec == "ev":
                    return k("(py_len (contents %s))" % a, Z)
                raise Untranslatable("len of kind %r" % (t,))
            return self.expr(e.args[0], env, fin)
        if name == "isinstance" and len(e.args) == 2 and isinstance(e.args[1], ast.Name) and e.args[1].id == "Array" \
                and self.sec == "ev":
            def fin(a, t):
                if t != V:
                    raise Untranslatable("isinstance of kind %r" % (t,))
                return k("(is_some (as_arr %s))" % a, B)
            return self.expr(e.args[0], env, fin)
        if name in ("Array", "list") and len(e.args) == 1:
            if name == "list" and isinstance(e.args[0], ast.Call) and isinstance(e.args[0].func, ast.Name) \
                    and e.args[0].func.id == "sorted":
                return self.sorted_call(e.args[0], env, k)

            def fin(a, t):
                if not listlike(t):
                    raise Untranslatable("%s(..) of kind %r" % (name, t))
                return k(a, A(t[1]) if name == "Array" else L(t[1]))
            return self.expr(e.args[0], env, fin)
        if name == "sorted":
            return self.sorted_call(e, env, k)
        if name == "range" and len(e.args) == 2:
            def fin(ats):
                if [t for _, t in ats] != [Z, Z]:
                    raise Untranslatable("range of non-integers")
                return k("(py_range %s %s)" % (ats[0][0], ats[1][0]), L(Z))
            return self.exprs(e.args, env, fin)
        if name == "zip":
            return self.iterable(e, env, lambda a, ek: k(a, L(ek)))
        if name == "any" and len(e.args) == 1 and isinstance(e.args[0], ast.GeneratorExp):
            ge = e.args[0]
            g = self.one_generator(ge.generators)
            if g.ifs:
                raise Untranslatable("any(.. if ..)")

            def with_iter(lst, ek):
                binder, add = self.target(g.target, ek, env)
                env2 = dict(env)
                env2.update(add)
                p = self.pure_cond(ge.elt, env2)
                if p is not None:
                    return k("(existsb (fun %s => %s) %s)" % (binder, p, lst), B)
                body = self.cond(ge.elt, env2, lambda c: "%s %s" % (self.RET, c))
                return self.bind_own("any%s (fun %s => %s) %s" % (self.X, binder, body, lst), B, k)
            return self.iterable(g.iter, env, with_iter)
        if name == "sum" and len(e.args) == 1 and isinstance(e.args[0], ast.GeneratorExp) \
                and isinstance(e.args[0].elt, ast.Constant) and e.args[0].elt.value == 1 \
                and not isinstance(e.args[0].elt.value, bool):
            ge = e.args[0]
            g = self.one_generator(ge.generators)

            def with_iter(lst, ek):
                binder, add = self.target(g.target, ek, env)
                env2 = dict(env)
                env2.update(add)
                src = lst
                for c in g.ifs:
                    p = self.pure_cond(c, env2)
                    if p is None:
                        raise Untranslatable("counting filter that may raise")
                    src = "(filter (fun %s => %s) %s)" % (binder, p, src)
                return k("(py_len %s)" % src, Z)
            return self.iterable(g.iter, env, with_iter)
        if name == "dict" and len(e.args) == 1 and isinstance(e.args[0], ast.GeneratorExp) \
                and isinstance(e.args[0].elt, ast.Tuple) and len(e.args[0].elt.elts) == 2:
            ge = e.args[0]
            g = self.one_generator(ge.generators)
            if g.ifs:
                raise Untranslatable("dict(.. if ..)")

            def with_iter(lst, ek):
                binder, add = self.target(g.target, ek, env)
                env2 = dict(env)
                env2.update(add)
                pk, pv = self.pure(ge.elt.elts[0], env2), self.pure(ge.elt.elts[1], env2)
                if pk is None or pv is None:
                    raise Untranslatable("dict entries that may raise")
                return k("(map (fun %s => (%s, %s)) %s)" % (binder, self.coerce(pk[0], pk[1], S), self.coerce(pv[0], pv[1], V), lst),
                         L(T(S, V)))
            return self.iterable(g.iter, env, with_iter)
        if name in ("make_quantity", "convert_quantity") and self.sec == "ev" and len(e.args) == 2 \
                and self.unit.is_global_function("eval", name, self.unit.module_of(self.key)):
            def fin(ats):
                return self.bind_res("%s %s %s" % (name, self.coerce(ats[0][0], ats[0][1], V), self.coerce(ats[1][0], ats[1][1], U)), V, k)
            return self.exprs(e.args, env, fin)
        raise Untranslatable("call of %s" % name)

    def sorted_call(self, e, env, k):
        if len(e.args) != 1 or len(e.keywords) != 1 or e.keywords[0].arg != "key":
            raise Untranslatable("sorted(..) shape")
        kv = e.keywords[0].value
        if not (isinstance(kv, ast.Call) and isinstance(kv.func, ast.Name) and kv.func.id == "cmp_to_key" and len(kv.args) == 1
                and not kv.keywords and isinstance(kv.args[0], ast.Name) and kv.args[0].id in DECL and kv.args[0].id not in env):
            raise Untranslatable("sort key")
        info = self.unit.translate(kv.args[0].id)
        if info["monad"] != "R" or info["extras"] or len(info["ptypes"]) != 2 or info["ret"] != Z:
            raise Untranslatable("comparison function %s" % kv.args[0].id)

        def fin(a, t):
            if not listlike(t) or not kind_eq(t[1], info["ptypes"][0]) or not kind_eq(t[1], info["ptypes"][1]):
                raise Untranslatable("sorted(..) of kind %r" % (t,))
            return self.bind_res("sortedR %s %s" % (info["call"], a), L(t[1]), k)
        return self.expr(e.args[0], env, fin)

    def dispatch(self, e, env, k):
        if self.sec == "ev":
            kws = {kw.arg: kw.value for kw in e.keywords}
            if len(e.args) != 2 or set(kws) - {"kw_args"}:
                raise Untranslatable("dispatch(..) shape")
            es = list(e.args) + ([kws["kw_args"]] if "kw_args" in kws else [])

            def fin(ats):
                nm = self.coerce(ats[0][0], ats[0][1], S)
                args = self.coerce(ats[1][0], ats[1][1], L(V))
                kw = self.coerce(ats[2][0], ats[2][1], L(T(S, V))) if len(ats) == 3 else "[]"
                return self.bind_res("dispatch %s %s %s" % (nm, args, kw), V, k)
            return self.exprs(es, env, fin)
        if len(e.args) != 2 or e.keywords or not isinstance(e.args[0], ast.Constant) or not isinstance(e.args[0].value, str) \
                or not isinstance(e.args[1], ast.Tuple):
            raise Untranslatable("dispatch(..) shape")
        name = e.args[0].value

        def fin(ats):
            kinds = [t for _, t in ats]
            if len(ats) == 1 and kind_eq(kinds[0], A(V)):
                key = self.unit.registered(name, [A(V)])
                info = self.unit.translate(key)
                if info["monad"] != "R" or info["extras"]:
                    raise Untranslatable("dispatch to %s" % key)
                return self.bind_res("%s %s" % (info["call"], ats[0][0]), info["ret"], k)
            if len(ats) == 2 and all(t in (N, V, Z) for t in kinds):
                if N in kinds and V not in kinds:
                    return self.bind_res("dnum2 %s %s %s" % (coq_str(name), self.coerce(ats[0][0], kinds[0], N),
                                                             self.coerce(ats[1][0], kinds[1], N)), N, k)
                if V in kinds and N not in kinds:
                    return self.bind_res("dvalue2 %s %s %s" % (coq_str(name), self.coerce(ats[0][0], kinds[0], V),
                                                                     self.coerce(ats[1][0], kinds[1], V)), V, k)
            raise Untranslatable("dispatch(%r, ..) on kinds %r" % (name, kinds))
        return self.exprs(e.args[1].elts, env, fin)

    def call_decl(self, key, args, env, k):
        d = DECL[key]
        if len(args) != len(d["params"]):
            raise Untranslatable("arity of %s" % key)
        vals = [(a, pk) for a, pk in zip(args, d["params"]) if pk not in (ENV, SELF)]
        for a, pk in zip(args, d["params"]):
            if pk == ENV and not (isinstance(a, ast.Name) and env.get(a.id) == ENV):
                raise Untranslatable("%s is not given the caller's environment" % key)
        if d["monad"] == "M" and self.monad != "M":
            raise Untranslatable("call of the stateful %s from an env-free function" % key)

        def fin(ats):
            atoms = [self.coerce(a, t, pk) for (a, t), (_, pk) in zip(ats, vals)]
            if key == REC_ROOT and self.key in self.unit.cycle:
                if self.key != REC_ROOT:
                    self.add_extra("eval_node")
                head = "eval_node"
            else:
                info = self.unit.translate(key)
                for x in info["extras"]:
                    if x == "eval_node" and self.key == REC_ROOT:
                        continue
                    self.add_extra(x)
                head = info["call"]
            comp = " ".join([head] + atoms)
            if d["monad"] == "R":
                return self.bind_res(comp, d["ret"], k)
            return self.bind_own(comp, d["ret"], k)
        return self.exprs([a for a, _ in vals], env, fin)

    # ------------------------------------------------------------------------------------ statements
    def terminates(self, stmts):
        if not stmts:
            return False
        last = stmts[-1]
        if isinstance(last, (ast.Return, ast.Raise, ast.Break)):
            return True
        if isinstance(last, ast.If):
            return self.terminates(last.body) and bool(last.orelse) and self.terminates(last.orelse)
        if isinstance(last, ast.Try):
            return self.terminates(last.body)
        return False

    def pure_message(self, e):
        if isinstance(e, ast.Constant) and isinstance(e.value, str):
            return True
        if isinstance(e, ast.JoinedStr):
            for v in e.values:
                if isinstance(v, ast.Constant):
                    continue
                if isinstance(v, ast.FormattedValue) and v.format_spec is None and isinstance(v.value, ast.Name):
                    continue
                return False
            return True
        return False

    def raise_text(self, s):
        x = s.exc
        if s.cause is not None or not isinstance(x, ast.Call) or not isinstance(x.func, ast.Name) \
                or x.func.id not in EXN or x.keywords or not all(self.pure_message(a) for a in x.args):
            raise Untranslatable("raise " + (ast.dump(x)[:60] if x is not None else ""))
        return "%s %s" % (self.RAISE, x.func.id)

    def assigned(self, stmts):
        """names assigned (=, +=, .append) anywhere in the statements, in order of first occurrence"""
        out = []

        def add(n):
            if n not in out:
                out.append(n)
        for s in stmts:
            for n in ast.walk(s):
                if isinstance(n, ast.Name) and isinstance(n.ctx, ast.Store):
                    add(n.id)
                if isinstance(n, ast.Call) and isinstance(n.func, ast.Attribute) and n.func.attr == "append" \
                        and isinstance(n.func.value, ast.Name):
                    add(n.func.value.id)
        # ast.walk is breadth-first: order by position in the source instead
        pos = {}
        for s in stmts:
            for n in ast.walk(s):
                nm = None
                if isinstance(n, ast.Name) and isinstance(n.ctx, ast.Store):
                    nm = n.id
                elif isinstance(n, ast.Call) and isinstance(n.func, ast.Attribute) and n.func.attr == "append" \
                        and isinstance(n.func.value, ast.Name):
                    nm = n.func.value.id
                if nm is not None:
                    p = (n.lineno, n.col_offset)
                    if nm not in pos or p < pos[nm]:
                        pos[nm] = p
        return sorted(out, key=lambda n: pos[n])

    def carried(self, body, env, targets=()):
        return [n for n in self.assigned(body) if n in env and n not in targets and env[n] not in (ENV, SELF)]

    def snapshot(self, env):
        return tup([n for n, kk in env.items() if kk not in (ENV, SELF)])

    def block(self, stmts, env, kont):
        if not stmts:
            return kont(env)
        s, rest = stmts[0], stmts[1:]
        if isinstance(s, ast.Expr) and isinstance(s.value, ast.Constant) and isinstance(s.value.value, str):
            return self.block(rest, env, kont)
        if isinstance(s, ast.Return):
            if self.loops:
                raise Untranslatable("return inside a loop")
            if s.value is None:
                raise Untranslatable("return without value")
            return self.expr(s.value, env, lambda a, t: "%s %s" % (self.RET, self.coerce(a, t, self.retk)))
        if isinstance(s, ast.Raise):
            return self.raise_text(s)
        if isinstance(s, ast.Break):
            if not self.loops:
                raise Untranslatable("break outside a loop")
            if self.loops[-1][1] is not None:
                self.loops[-1][1].append(dict(env))
            return "%s (true, %s)" % (self.RET, tup(self.loops[-1][0]))
        if isinstance(s, ast.If):
            # `if env is None: env = EvalEnvironment()`: the initial state is the caller's
            t = s.test
            if isinstance(t, ast.Compare) and len(t.ops) == 1 and isinstance(t.ops[0], ast.Is) and isinstance(t.left, ast.Name) \
                    and env.get(t.left.id) == ENV and isinstance(t.comparators[0], ast.Constant) and t.comparators[0].value is None:
                b = s.body
                if not s.orelse and len(b) == 1 and isinstance(b[0], ast.Assign) and len(b[0].targets) == 1 \
                        and isinstance(b[0].targets[0], ast.Name) and b[0].targets[0].id == t.left.id \
                        and isinstance(b[0].value, ast.Call) and isinstance(b[0].value.func, ast.Name) \
                        and b[0].value.func.id == "EvalEnvironment" and not b[0].value.args and not b[0].value.keywords \
                        and self.unit.env_default_is_none(self.key, t.left.id):
                    return self.block(rest, env, kont)
                raise Untranslatable("test of the environment object")

            def after(c):
                th = self.block(s.body + ([] if self.terminates(s.body) else rest), dict(env), kont)
                el_stmts = list(s.orelse)
                el = self.block(el_stmts + ([] if el_stmts and self.terminates(el_stmts) else rest), dict(env), kont)
                return "if %s then (%s)\nelse (%s)" % (c, th, el)
            return self.cond(s.test, env, after)
        if isinstance(s, ast.Assign) and len(s.targets) == 1 and isinstance(s.targets[0], ast.Name):
            name = s.targets[0].id
            self.check_name(name)
            if env.get(name) in (ENV, SELF):
                raise Untranslatable("assignment to the environment object %s" % name)

            def fin(a, t):
                if t == NV:
                    a, t = self.coerce(a, NV, S), S       # `mode = node.eval_mode` is S already; a bare node.value is a name
                if t == NONE:
                    raise Untranslatable("None bound to a variable")
                if name in env:
                    env2 = dict((n, (t if n == name else kk)) for n, kk in env.items())
                else:
                    env2 = dict(env)
                    env2[name] = t
                return "let %s := %s in\n%s" % (name, a, self.block(rest, env2, kont))
            return self.expr(s.value, env, fin)
        if isinstance(s, ast.Assign) and len(s.targets) == 1 and isinstance(s.targets[0], ast.Subscript) \
                and self.is_self_vars(s.targets[0].value, env) and self.monad == "M":
            sl = s.targets[0].slice
            if isinstance(sl, ast.Index):
                sl = sl.value
            # Python evaluates the right-hand side first, then the subscript
            def fin(ats):
                (v, tv), (n, tn) = ats
                return "%s _ <- write_var setv %s %s;\n%s" % (self.DO, self.coerce(n, tn, S), self.coerce(v, tv, V),
                                                             self.block(rest, env, kont))
            return self.exprs([s.value, sl], env, fin)
        if isinstance(s, ast.AugAssign) and isinstance(s.target, ast.Name) and isinstance(s.op, (ast.Add, ast.Sub)):
            name = s.target.id
            if env.get(name) != Z:
                raise Untranslatable("augmented assignment to kind %r" % (env.get(name),))

            def fin(a, t):
                if t != Z:
                    raise Untranslatable("augmented assignment of kind %r" % (t,))
                return "let %s := (%s %s %s) in\n%s" % (name, name, "+" if isinstance(s.op, ast.Add) else "-", a,
                                                        self.block(rest, env, kont))
            return self.expr(s.value, env, fin)
        if isinstance(s, ast.Expr) and isinstance(s.value, ast.Call):
            c = s.value
            if isinstance(c.func, ast.Attribute) and c.func.attr == "append" and isinstance(c.func.value, ast.Name) \
                    and listlike(env.get(c.func.value.id)) and len(c.args) == 1 and not c.keywords:
                name = c.func.value.id
                tag, ek = env[name]

                def fin(a, t):
                    if t in (NV, NONE):
                        raise Untranslatable("appended element of kind %r" % (t,))
                    ek2 = t if ek == "?" else ek
                    env2 = dict((n, ((tag, ek2) if n == name else kk)) for n, kk in env.items())
                    return "let %s := (%s ++ [%s]) in\n%s" % (name, name, self.coerce(a, t, ek2), self.block(rest, env2, kont))
                return self.expr(c.args[0], env, fin)
            return self.expr(c, env, lambda a, t: self.block(rest, env, kont))
        if isinstance(s, ast.For):
            return self.for_loop(s, rest, env, kont)
        if isinstance(s, ast.While):
            return self.while_loop(s, rest, env, kont)
        if isinstance(s, ast.Try):
            return self.try_stmt(s, rest, env, kont)
        raise Untranslatable("statement " + type(s).__name__)

    def for_loop(self, s, rest, env, kont):
        if s.orelse:
            raise Untranslatable("for .. else")

        def with_iter(lst, ek):
            binder, add = self.target(s.target, ek, env)
            car = self.carried(s.body, env, add)

            def run(env1):
                env2 = dict(env1)
                env2.update(add)
                return lambda fall: self.block(s.body, env2, fall)
            pre, env1 = self.settle(car, env, run)
            self.loops.append((car, None))
            body = run(env1)(lambda env3: "%s (false, %s)" % (self.RET, tup(car)))
            self.loops.pop()
            return "%s%s %s <- for%s (fun %s %s =>\n%s) %s %s;\n%s" % (pre, self.DO, dopat(car), self.X, binder, funpat(car), body, lst,
                                                                    tup(car), self.block(rest, env1, kont))
        return self.iterable(s.iter, env, with_iter)

    def while_loop(self, s, rest, env, kont):
        if s.orelse:
            raise Untranslatable("while .. else")
        self.nwhile += 1
        wf = "wf_" + self.key.replace(".", "_") + ("" if self.nwhile == 1 else str(self.nwhile))
        self.add_extra(wf)
        car = self.carried(s.body, env)

        def run(env1):
            def go(fall):
                if isinstance(s.test, ast.Constant) and s.test.value is True:
                    return self.block(s.body, dict(env1), fall)
                return self.cond(s.test, env1, lambda c: "if negb %s then %s (true, %s)\nelse (%s)" % (
                    c, self.RET, tup(car), self.block(s.body, dict(env1), fall)))
            return go
        pre, env1 = self.settle(car, env, run)
        self.loops.append((car, None))
        body = run(env1)(lambda env3: "%s (false, %s)" % (self.RET, tup(car)))
        self.loops.pop()
        return "%s%s %s <- while%s (%s %s) (fun %s =>\n%s) %s;\n%s" % (pre, self.DO, dopat(car), self.X, wf, self.snapshot(env1), funpat(car),
                                                                     body, tup(car), self.block(rest, env1, kont))

    def settle(self, car, env, run):
        """a carried variable that is a host int before the loop and a Ka value / number after an iteration is coerced before
        the loop (Python: `result = 1` ... `result = dispatch(..)`); any other change of kind is untranslatable"""
        n0, nw0, ex0 = self.n, self.nwhile, list(self.extras)
        ends = []
        self.loops.append((car, ends))
        run(env)(lambda env3: ends.append(dict(env3)) or "")
        self.loops.pop()
        self.n, self.nwhile, self.extras = n0, nw0, ex0
        pre, env1 = "", dict(env)
        for v in car:
            ks = [e3[v] for e3 in ends if v in e3]
            new = None
            for kk in ks:
                if kind_eq(kk, env[v]) or (listlike(kk) and listlike(env[v]) and kind_eq(kk[1], env[v][1])):
                    continue
                if new is not None and new != kk:
                    raise Untranslatable("variable %s has several kinds in a loop" % v)
                new = kk
            if new is not None:
                pre += "let %s := %s in\n" % (v, self.coerce(v, env[v], new))
                env1[v] = new
        if pre:
            ends2 = []
            self.loops.append((car, ends2))
            run(env1)(lambda env3: ends2.append(dict(env3)) or "")
            self.loops.pop()
            self.n, self.nwhile, self.extras = n0, nw0, ex0
            for v in car:
                for e3 in ends2:
                    if v in e3 and not (kind_eq(e3[v], env1[v]) or (listlike(e3[v]) and listlike(env1[v]))):
                        raise Untranslatable("variable %s changes kind in a loop" % v)
        return pre, env1

    def try_stmt(self, s, rest, env, kont):
        if self.monad != "M" or s.orelse or s.finalbody or rest or self.loops or not self.terminates(s.body):
            raise Untranslatable("try statement outside the supported shape")
        body = self.block(s.body, dict(env), kont)
        h = "%s x" % self.RAISE
        for hd in reversed(s.handlers):
            if hd.name is not None or not isinstance(hd.type, ast.Name) or hd.type.id not in EXN or len(hd.body) != 1 \
                    or not isinstance(hd.body[0], ast.Raise):
                raise Untranslatable("except clause")
            h = "if exn_eqb x %s then %s else %s" % (hd.type.id, self.raise_text(hd.body[0]), h)
        return "catchM (%s) (fun x => %s)" % (body, h)


# ---------------------------------------------------------------------------------------------- the unit
def coq_ty(k, sec):
    if k == Z: return "Z"
    if k == B: return "bool"
    if k == S: return "string"
    if k == V: return "value" if sec == "fn" else "V"
    if k == N: return "num"
    if k == NODE: return "pnode"
    if k == U: return "U"
    if listlike(k): return "(list %s)" % coq_ty(k[1], sec)
    raise Untranslatable("type of kind %r" % (k,))


def esc(x):
    return str(x).replace("*)", "* )").replace("(*", "( *")


class Unit:
    def __init__(self, srcdir):
        self.text, self.tree = {}, {}
        for m in ("functions", "eval", "interpret"):
            self.text[m] = open(os.path.join(srcdir, "ka", m + ".py"), encoding="utf-8").read()
            self.tree[m] = ast.parse(self.text[m])
        self.done, self.active = {}, set()
        self.emitted = {"fn": [], "ev": []}
        self._modes = None
        self._regs = None
        self.cycle = self.compute_cycle()

    # ------------------------------------------------------------------------------------ lookup
    def module_of(self, key):
        return DECL[key]["mod"]

    def toplevel_defs(self, module, name):
        return [n for n in self.tree[module].body if isinstance(n, (ast.FunctionDef, ast.ClassDef)) and n.name == name]

    def is_global_function(self, module, name, from_module):
        """does the global name `name`, used in from_module, denote the one function `name` of `module`?"""
        if len(self.toplevel_defs(module, name)) != 1:
            return False
        for n in self.tree[from_module].body:      # no rebinding by assignment at module level
            if isinstance(n, (ast.Assign, ast.AugAssign, ast.AnnAssign)):
                for t in ast.walk(n):
                    if isinstance(t, ast.Name) and isinstance(t.ctx, ast.Store) and t.id == name:
                        return False
        if module == from_module:
            return True
        for n in self.tree[from_module].body:
            if isinstance(n, ast.ImportFrom) and n.module == module and n.level == 1 \
                    and any(a.name == name and a.asname is None for a in n.names):
                return True
        return False

    def node_of(self, key):
        module = DECL[key]["mod"]
        parts = key.split(".")
        ds = self.toplevel_defs(module, parts[0])
        if len(ds) != 1:
            raise Untranslatable("%d definitions of %s in %s.py" % (len(ds), parts[0], module))
        node = ds[0]
        for p in parts[1:]:
            ds = [n for n in node.body if isinstance(n, ast.FunctionDef) and n.name == p]
            if len(ds) != 1:
                raise Untranslatable("%d definitions of %s" % (len(ds), key))
            node = ds[0]
        if not isinstance(node, ast.FunctionDef):
            raise Untranslatable("%s is not a function" % key)
        return node

    def eval_modes(self):
        if self._modes is None:
            ds = self.toplevel_defs("eval", "EvalModes")
            if len(ds) != 1 or not isinstance(ds[0], ast.ClassDef) or ds[0].bases or ds[0].decorator_list:
                raise Untranslatable("class EvalModes")
            m = {}
            for s in ds[0].body:
                if isinstance(s, ast.Assign) and len(s.targets) == 1 and isinstance(s.targets[0], ast.Name) \
                        and isinstance(s.value, ast.Constant) and isinstance(s.value.value, str) and s.targets[0].id not in m:
                    m[s.targets[0].id] = s.value.value
                else:
                    raise Untranslatable("statement in class EvalModes")
            self._modes = m
        return self._modes

    def env_default_is_none(self, key, pname):
        a = self.node_of(key).args
        names = [x.arg for x in a.args]
        if pname not in names:
            return False
        i = names.index(pname) - (len(names) - len(a.defaults))
        return i >= 0 and isinstance(a.defaults[i], ast.Constant) and a.defaults[i].value is None

    def callees(self, key):
        try:
            node = self.node_of(key)
        except Untranslatable:
            return set()
        out = set()
        for n in ast.walk(node):
            if isinstance(n, ast.Call):
                if isinstance(n.func, ast.Name) and n.func.id in DECL:
                    out.add(n.func.id)
                if isinstance(n.func, ast.Attribute) and "EvalEnvironment." + n.func.attr in DECL:
                    out.add("EvalEnvironment." + n.func.attr)
        return out

    def compute_cycle(self):
        g = {k: self.callees(k) for k in DECL}

        def reach(a):
            seen, todo = set(), [a]
            while todo:
                x = todo.pop()
                for y in g.get(x, ()):
                    if y not in seen:
                        seen.add(y)
                        todo.append(y)
            return seen
        from_root = reach(REC_ROOT)
        return {k for k in from_root if REC_ROOT in reach(k)} | {REC_ROOT}

    # ------------------------------------------------------------------------------------ registrations
    def registrations(self):
        """register_function(F, NAME, SIG, ..) statements at module level of functions.py whose F is a declared function
        (or, for NAME "range" with an all-Integral signature, a lambda)"""
        if self._regs is not None:
            return self._regs
        rows = []
        for s in self.tree["functions"].body:
            if not (isinstance(s, ast.Expr) and isinstance(s.value, ast.Call) and isinstance(s.value.func, ast.Name)
                    and s.value.func.id == "register_function"):
                continue
            c = s.value
            if len(c.args) < 3 or not isinstance(c.args[1], ast.Constant) or not isinstance(c.args[1].value, str):
                continue
            f, name, sig = c.args[0], c.args[1].value, c.args[2]
            mine = isinstance(f, ast.Name) and f.id in DECL and DECL[f.id]["sec"] == "fn"
            lam = isinstance(f, ast.Lambda) and name == "range"
            if not (mine or lam):
                continue
            if any(kw.arg not in ("docstring",) for kw in c.keywords) or len(c.args) > 4:
                raise Untranslatable("registration of %s with a vararg or keyword signature" % name)
            if not (isinstance(sig, ast.Tuple) and all(isinstance(x, ast.Name) and x.id in SIG_KIND for x in sig.elts)):
                raise Untranslatable("signature in the registration of %s" % name)
            rows.append(dict(name=name, sig=[x.id for x in sig.elts], f=f, line=s.lineno))
        self._regs = rows
        return rows

    def registered(self, name, kinds):
        hits = [r for r in self.registrations() if r["name"] == name and [SIG_KIND[x] for x in r["sig"]] == kinds
                and isinstance(r["f"], ast.Name)]
        if len(hits) != 1:
            raise Untranslatable("%d registrations of %r with signature %r" % (len(hits), name, kinds))
        return hits[0]["f"].id

    # ------------------------------------------------------------------------------------ one function
    def translate(self, key):
        if key in self.done:
            if isinstance(self.done[key], Untranslatable):
                raise Untranslatable("callee %s is untranslatable" % key)
            return self.done[key]
        if key in self.active:
            raise Untranslatable("recursion through %s" % key)
        self.active.add(key)
        sec = DECL[key]["sec"]
        try:
            info = self._translate(key)
            self.done[key] = info
            self.emitted[sec].append((key, info["text"]))
            return info
        except Untranslatable as x:
            self.done[key] = x
            self.emitted[sec].append((key, "(* UNTRANSLATABLE %s: %s *)" % (key, esc(x))))
            raise
        finally:
            self.active.discard(key)

    def check_args(self, node, allow_default_none=()):
        a = node.args
        if a.vararg or a.kwarg or a.kwonlyargs or a.kw_defaults or getattr(a, "posonlyargs", []):
            raise Untranslatable("parameter list of %s" % getattr(node, "name", "<lambda>"))
        if a.defaults:
            names = [x.arg for x in a.args][len(a.args) - len(a.defaults):]
            for n, dflt in zip(names, a.defaults):
                if n not in allow_default_none or not (isinstance(dflt, ast.Constant) and dflt.value is None):
                    raise Untranslatable("default value of parameter %s" % n)
        if getattr(node, "decorator_list", None):
            raise Untranslatable("decorated function %s" % node.name)

    def _translate(self, key, node=None, d=None, gname=None):
        d = d or DECL[key]
        node = node or self.node_of(key)
        pnames = [a.arg for a in node.args.args]
        if len(pnames) != len(d["params"]):
            raise Untranslatable("%s has %d parameters, declared %d" % (key, len(pnames), len(d["params"])))
        self.check_args(node, allow_default_none=[p for p, kk in zip(pnames, d["params"]) if kk == ENV])
        body_nodes = node.body if isinstance(node, ast.FunctionDef) else [node.body]
        for b in body_nodes:
            for n in ast.walk(b):
                if isinstance(n, (ast.Global, ast.Nonlocal, ast.FunctionDef, ast.Lambda, ast.AsyncFunctionDef, ast.ClassDef,
                                  ast.Yield, ast.YieldFrom, ast.Await, ast.NamedExpr, ast.Starred, ast.With, ast.Delete)):
                    raise Untranslatable("%s inside %s" % (type(n).__name__, key))
        tr = FnTr(self, key, d)
        env = {}
        for p, kk in zip(pnames, d["params"]):
            tr.check_name(p)
            env[p] = kk

        def fall(env3):
            raise Untranslatable("fall-through (implicit return None)")
        if isinstance(node, ast.Lambda):
            body = tr.block([ast.Return(value=node.body)], env, fall)
        else:
            body = tr.block(node.body, env, fall)
        gname = gname or "g_" + key.split(".")[-1]
        sec, monad = d["sec"], d["monad"]
        rty = ("res %s" if monad == "R" else "M E %s") % coq_ty(d["ret"], sec)
        binders = " ".join("(%s : %s)" % (p, coq_ty(kk, sec)) for p, kk in zip(pnames, d["params"]) if kk not in (ENV, SELF))
        wfs = [x for x in tr.extras if x.startswith("wf_")]
        where = "%s.py:%d  %s" % (d["mod"], node.lineno, key)
        if key == REC_ROOT:
            extras = ["fuel"] + wfs
            text = ("(* %s *)\nFixpoint %s (fuel : nat) %s %s {struct fuel} : %s :=\n  match fuel with\n  | O => raiseM OutOfFuel\n"
                    "  | S fuel' =>\nlet eval_node := %s in\n%s\n  end.") % (
                where, gname, " ".join(wfs), binders, rty, " ".join([gname, "fuel'"] + wfs), body)
        else:
            extras = [x for x in ("fuel", "eval_node") if x in tr.extras] + wfs
            hdr = []
            for x in extras:
                hdr.append("(fuel : nat)" if x == "fuel" else "(eval_node : pnode -> M E V)" if x == "eval_node" else x)
            text = "(* %s *)\nDefinition %s %s %s : %s :=\n%s." % (where, gname, " ".join(hdr), binders, rty, body)
        return dict(key=key, gname=gname, call=" ".join([gname] + extras), extras=extras, monad=monad,
                    ptypes=[kk for kk in d["params"] if kk not in (ENV, SELF)], ret=d["ret"], text=text)


# ---------------------------------------------------------------------------------------------- data parts
def strlist(xs):
    return "[" + "; ".join(coq_str(x) for x in xs) + "]"


def gen_registry(u):
    """the registrations of the translated array functions, and the dispatch they induce on one Array argument"""
    rows = u.registrations()
    out = []
    lines = []
    for r in rows:
        kinds = [SIG_KIND[x] for x in r["sig"]]
        if isinstance(r["f"], ast.Name):
            key = r["f"].id
            if [kk for kk in DECL[key]["params"]] != kinds:
                raise Untranslatable("%s is registered with signature %r but declared %r" % (key, r["sig"], DECL[key]["params"]))
            lines.append("(%s, %s, %s)" % (coq_str(r["name"]), strlist(r["sig"]), coq_str(key)))
        else:
            lines.append("(%s, %s, %s)" % (coq_str(r["name"]), strlist(r["sig"]), coq_str("<lambda>")))
    out.append("(* register_function(F, NAME, SIG) for the translated F, in source order: (NAME, SIG, F) *)")
    out.append("Definition g_array_registry : list (string * list string * string) := [\n  " + ";\n  ".join(lines) + "\n].")
    aggs = [r for r in rows if isinstance(r["f"], ast.Name) and [SIG_KIND[x] for x in r["sig"]] == [A(V)]]
    names = [r["name"] for r in aggs]
    if len(set(names)) != len(names):
        raise Untranslatable("two (Array,) registrations under one name")
    body = ""
    for r in aggs:
        info = u.translate(r["f"].id)
        if info["extras"] or info["monad"] != "R" or info["ret"] != V:
            raise Untranslatable("registered function %s" % r["f"].id)
        body += "  if String.eqb name %s then %s arr else\n" % (coq_str(r["name"]), info["gname"])
    out.append("(* dispatch(name, (arr,)) on one Array argument, by those registrations *)")
    out.append("Definition g_run_agg (name : string) (arr : list value) : res value :=\n%s  Raise UnknownFunctionError." % body)
    return "\n".join(out)


def gen_range_lambda(u):
    hits = [r for r in u.registrations() if isinstance(r["f"], ast.Lambda)]
    if len(hits) != 1 or hits[0]["sig"] != ["Integral", "Integral"]:
        raise Untranslatable("%d lambda registrations of range" % len(hits))
    lam = hits[0]["f"]
    d = decl("functions", "fn", "R", [Z, Z], A(Z))
    info = u._translate("range<lambda>", node=lam, d=d, gname="g_range_lambda")
    return info["text"].replace("functions.py:%d  range<lambda>" % lam.lineno,
                                "functions.py:%d  the lambda registered for range (Integral, Integral)" % lam.lineno)


def gen_env_init(u):
    ds = u.toplevel_defs("eval", "EvalEnvironment")
    if len(ds) != 1 or not isinstance(ds[0], ast.ClassDef) or ds[0].bases or ds[0].decorator_list:
        raise Untranslatable("class EvalEnvironment")
    methods = [n.name for n in ds[0].body if isinstance(n, ast.FunctionDef)]
    others = [n for n in ds[0].body if not isinstance(n, ast.FunctionDef)
              and not (isinstance(n, ast.Expr) and isinstance(n.value, ast.Constant))]
    if others:
        raise Untranslatable("class EvalEnvironment has statements other than methods")
    init = [n for n in ds[0].body if isinstance(n, ast.FunctionDef) and n.name == "__init__"]
    if len(init) != 1:
        raise Untranslatable("EvalEnvironment.__init__")
    stmts = [ast.unparse(s) for s in init[0].body]
    return ("(* class EvalEnvironment: its methods, and the statements of __init__ (as text) *)\n"
            "Definition g_env_methods : list string := %s.\nDefinition g_env_init : list string := %s."
            % (strlist(methods), strlist(stmts)))


def mentions(node, name):
    return any(isinstance(n, ast.Name) and n.id == name for n in ast.walk(node))


def calls_in_order(stmts):
    cs = []
    for s in stmts:
        for n in ast.walk(s):
            if isinstance(n, ast.Call) and isinstance(n.func, ast.Name):
                cs.append(n)
    cs.sort(key=lambda n: (n.lineno, n.col_offset))
    return cs


def gen_execute(u):
    ds = u.toplevel_defs("interpret", "execute")
    if len(ds) != 1 or not isinstance(ds[0], ast.FunctionDef):
        raise Untranslatable("interpret.execute")
    fn = ds[0]
    params = [a.arg for a in fn.args.args]
    items = []
    for s in fn.body:
        if isinstance(s, ast.If) and isinstance(s.test, ast.Compare) and len(s.test.ops) == 1 and isinstance(s.test.ops[0], ast.Is) \
                and isinstance(s.test.left, ast.Name) and isinstance(s.test.comparators[0], ast.Constant) \
                and s.test.comparators[0].value is None and not s.orelse and len(s.body) == 1 and isinstance(s.body[0], ast.Assign) \
                and len(s.body[0].targets) == 1 and isinstance(s.body[0].targets[0], ast.Name) \
                and s.body[0].targets[0].id == s.test.left.id and isinstance(s.body[0].value, ast.Call) \
                and isinstance(s.body[0].value.func, ast.Name) and not s.body[0].value.args and not s.body[0].value.keywords:
            items.append("XDefault %s %s" % (coq_str(s.test.left.id), coq_str(s.body[0].value.func.id)))
            continue
        if isinstance(s, ast.Try):
            if s.orelse or s.finalbody:
                raise Untranslatable("try .. else/finally in execute")
            calls = ["(%s, %s)" % (coq_str(c.func.id), strlist([ast.unparse(a) for a in c.args]))
                     for c in calls_in_order(s.body)]
            binds = []
            for b in s.body:
                for n in ast.walk(b):
                    if isinstance(n, ast.Assign) and len(n.targets) == 1 and isinstance(n.targets[0], ast.Name) \
                            and isinstance(n.value, ast.Call) and isinstance(n.value.func, ast.Name):
                        binds.append((n.lineno, "(%s, %s)" % (coq_str(n.targets[0].id), coq_str(n.value.func.id))))
            binds = [b for _, b in sorted(binds)]
            hs = []
            for h in s.handlers:
                if h.type is None:
                    classes = ["<bare>"]
                elif isinstance(h.type, ast.Name):
                    classes = [h.type.id]
                elif isinstance(h.type, ast.Tuple) and all(isinstance(x, ast.Name) for x in h.type.elts):
                    classes = [x.id for x in h.type.elts]
                else:
                    raise Untranslatable("except clause in execute")
                rets = [ast.unparse(n.value) if n.value is not None else "None" for b in h.body for n in ast.walk(b)
                        if isinstance(n, ast.Return)]
                hs.append("(%s, %s, %s)" % (strlist(classes), strlist(rets), "true" if any(mentions(b, "env") for b in h.body) else "false"))
            items.append("XTry [%s]\n       [%s]\n       [%s]" % ("; ".join(calls), "; ".join(binds), ";\n        ".join(hs)))
            continue
        assigns = sorted({n.id for n in ast.walk(s) if isinstance(n, ast.Name) and isinstance(n.ctx, ast.Store)})
        items.append("XOther %s %s %s" % (coq_str(type(s).__name__), strlist(assigns), "true" if mentions(s, "env") else "false"))
    return ("(* interpret.py:%d execute(): parameters, and its top-level statements in order *)\n"
            "Inductive xstmt :=\n"
            "| XDefault (var ctor : string)                       (* if var is None: var = ctor() *)\n"
            "| XTry (calls : list (string * list string))         (* calls f(args) of the try body in source order, arguments as text *)\n"
            "       (binds : list (string * string))              (* name = f(..) assignments of the body *)\n"
            "       (handlers : list (list string * list string * bool))   (* classes, returned constants, mentions env? *)\n"
            "| XOther (cls : string) (assigns : list string) (mentions_env : bool).\n"
            "Definition g_execute_params : list string := %s.\n"
            "Definition g_execute_shape : list xstmt := [\n  %s\n]." % (fn.lineno, strlist(params), ";\n  ".join(items)))


def guarded(L, what, f):
    try:
        L.append(f())
    except Untranslatable as x:
        L.append("(* UNTRANSLATABLE %s: %s *)" % (what, esc(x)))
    L.append("")


def gen(dump):
    u = Unit(C.SRC)
    for key in ORDER:
        try:
            u.translate(key)
        except Untranslatable:
            pass
    L_ = ["(* GENERATED by harness/trans_eval.py from src/ka/eval.py, src/ka/functions.py (array functions) and",
          "   src/ka/interpret.py (shape of execute) by AST translation — do not edit", MAPPING.rstrip("\n"), "*)", PREAMBLE, PRE_FN]
    reg = []
    guarded(reg, "range lambda", lambda: gen_range_lambda(u))
    guarded(reg, "registrations", lambda: gen_registry(u))
    for key, text in u.emitted["fn"]:
        L_.append(text)
        L_.append("")
    L_ += reg
    L_.append("End FnSrc.")
    L_.append(PRE_EV)
    for key, text in u.emitted["ev"]:
        L_.append(text)
        L_.append("")
    L_.append("End EvSrc.")
    L_.append("")
    L_.append("(* ================================================================== data *)")
    guarded(L_, "EvalModes", lambda: "(* class EvalModes *)\nDefinition g_eval_modes : list (string * string) := [%s]." % "; ".join(
        "(%s, %s)" % (coq_str(a), coq_str(b)) for a, b in u.eval_modes().items()))
    guarded(L_, "EvalEnvironment", lambda: gen_env_init(u))
    guarded(L_, "execute", lambda: gen_execute(u))
    return "\n".join(L_) + "\n"


GENERATES = {"GenEvalSrc.v": gen}

if __name__ == "__main__":
    sys.stdout.write(gen({}))
