#!/venv/bin/python
"""Write seeded/<seed>/verification.json from the newest build/seedtest*_<seed>.json and print the DESIGN table rows.
usage: seedrecord.py <seed-name-glob>   (e.g. 'C*-r2-*')"""
import glob, json, os, re, sys

ROOT = os.path.dirname(os.path.dirname(os.path.abspath(__file__)))
HOW = ("harness/seedtest.py: scratch git worktree of /repo under /tmp, `git apply patch.diff`, baseline tests, demo.py with and "
       "without the patch, then `KA_REPO=<worktree> ./check <id> --tier quick`; worktree removed afterwards")


def newest(seed):
    best = None
    final = os.path.join(ROOT, "build", "final_%s.json" % seed)
    for f in ([final] if os.path.exists(final) and os.path.getsize(final) > 0 else glob.glob(os.path.join(ROOT, "build", "seedtest*_%s.json" % seed))):
        try:
            r = json.load(open(f))
        except Exception:
            continue
        if best is None or os.path.getmtime(f) > best[0]:
            best = (os.path.getmtime(f), r, f)
    return best


def first_runs(seed):
    """all recorded runs oldest first: (detected, nfi) per run, to record a miss before a check was strengthened"""
    out = []
    fs = glob.glob(os.path.join(ROOT, "build", "seedtest*_%s.json" % seed)) + glob.glob(os.path.join(ROOT, "build", "final_%s.json" % seed))
    for f in sorted(fs, key=os.path.getmtime):
        try:
            r = json.load(open(f))
            for k, v in r.get("checks", {}).items():
                out.append((os.path.basename(f), v["detected"], v["no_failing_input_only"]))
        except Exception:
            pass
    return out


def main(pat):
    rows = []
    for d in sorted(glob.glob(os.path.join(ROOT, "seeded", pat))):
        seed = os.path.basename(d)
        b = newest(seed)
        if not b:
            print("no result for", seed, file=sys.stderr)
            continue
        r = b[1]
        checks = {}
        for k, v in r.get("checks", {}).items():
            checks[k] = dict(exit=v["exit"], detected=v["detected"], found_failing_input=v["detected"] and not v["no_failing_input_only"],
                             first_lines=v["lines"][:2])
        hist = first_runs(seed)
        rec = dict(confirmed_by_coordinator=bool(r.get("confirmed")), tests_with_patch=r.get("tests"),
                   demo_exit_pristine=r.get("demo_pristine_exit"), demo_exit_patched=r.get("demo_patched_exit"), how=HOW, checks=checks,
                   earlier_runs=[dict(run=h[0], detected=h[1], no_failing_input_only=h[2]) for h in hist[:-1]])
        json.dump(rec, open(os.path.join(d, "verification.json"), "w"), indent=1)
        meta = json.load(open(os.path.join(d, "meta.json")))
        desc = re.sub(r"\s+", " ", (meta.get("description") or "")).replace("|", "/")[:150]
        benign = meta.get("kind") == "benign" or "-b" in seed or re.search(r"-c\d$", seed) is not None
        for k, v in checks.items():
            if benign:
                tie = ""
                if v["detected"] and len(v["first_lines"]) > 1:
                    m = re.search(r"\[(.*?)\]", v["first_lines"][1])
                    tie = " (%s)" % m.group(1).replace("'", "") if m else ""
                verdict = "quiet (exit 0)" if not v["detected"] else ("no-failing-input-found%s" % tie if not v["found_failing_input"] else "FALSE ALARM with an input")
                rows.append("| %s | %s | %s | `./check %s`: %s |" % (seed, desc, "yes" if rec["confirmed_by_coordinator"] else "NO", k, verdict))
                continue
            caught = "VIOLATION with failing input" if v["found_failing_input"] else ("VIOLATION no-failing-input-found" if v["detected"] else "MISSED")
            note = ""
            if any(not h[1] for h in hist[:-1]):
                note = " (missed before the check was strengthened)"
            elif any(h[2] for h in hist[:-1]) and v["found_failing_input"]:
                note = " (first only no-failing-input-found)"
            rows.append("| %s | %s | %s | `./check %s`: %s%s |" % (seed, desc, "yes" if rec["confirmed_by_coordinator"] else "NO", k, caught, note))
    print("\n".join(rows))


if __name__ == "__main__":
    main(sys.argv[1] if len(sys.argv) > 1 else "C*")
