"""Translator plugin "units": the dimension / magnitude algebra of quantities

    ka/units.py      class Vector, class QuantityVector, QuantitySpace.get_zero, apply_prefix, lookup_unit
    ka/types.py      is_number, simplify_type
    ka/eval.py       compose_units, make_quantity, convert_quantity
    ka/functions.py  register_quantities_op (its closures f / left_is_number / right_is_number, its three
                     register_function statements, and the module-level statements that call it),
                     register_numeric_function.quantity_function

-> coq/Gen/GenUnitsSrc.v        (properties C03, C04; proved equal to Model/Qty.v in GenFacts/UnitsSrcFacts.v)
-> coq/Gen/GenUnitsLookupSrc.v  (property C13; proved equal to Model/Units.v in GenFacts/UnitsLookupSrcFacts.v)

both regenerated on every run from the Python AST of the tree under check (C.SRC).

Fail-closed: a construct outside the subset handled here raises Untranslatable; the function then gets NO definition
(a comment `(* UNTRANSLATABLE name: why *)` instead) and neither does any function that calls it, so the facts about
them cannot be proved.  Nothing is repaired or guessed: operand order, which comparison, which constant, which branch
first, which exception class and where it is raised are what the AST says.  The translation is type-directed (a
Python `*` means something else on ints, on numbers, on Vectors and on QuantityVectors); the types of parameters are
declared in SPECS below, everything else is inferred.  The trusted construct mapping is the text of MAPPING /
MAPPING_LOOKUP (copied into the generated files)."""
import ast, os, sys
sys.path.insert(0, os.path.dirname(os.path.abspath(__file__)))
import common as C
from pytrans import Untranslatable


class Retype(Exception):
    """a variable initialised with an int literal later receives a number: it is a number from the start (NInt k)"""
    def __init__(self, var):
        Exception.__init__(self, var)
        self.var = var


class MonadicNeeded(Exception):
    """raised while a statement group is tried as a pure `let`; the group is then redone in the res monad"""


MAPPING = r"""
   TRUSTED CONSTRUCT MAPPING (everything else is checked by GenFacts/UnitsSrcFacts.v)

   values
     Python int                      Z
     a Ka number (int/Fraction/float) Model/Num.v `num`; an int literal or int variable used where a number is
                                     expected is `NInt k`
     Vector(xs), its field .xs, tuple(...)    the list itself (`dimvec` = list Z): Vector(e) is e, v.xs is v
     QuantityVector(v, names)        v (a dimvec); the names (used only for printing) are erased; q.v is q
     QuantitySpace                   its base_units (list string); s.base_units is s
     Unit (as compose_units reads it) Model/Qty.v `unit`: .quantity_vector / .multiple / .offset are ud / um / uo
     Quantity(m, q)                  `g_Quantity m q` of the record g_quantity (fields g_mag, g_qv) declared below
     a Ka value (number or quantity) Model/Qty.v `qval`: a number n is `VN n`, a Quantity q is `g_q2v q` = VQ (g_mag q) (g_qv q).
                                     Other kinds of value (Combinatoric, Array, Instant, ...) are outside this universe:
                                     `isinstance(x, Combinatoric)` on a number is `false` and the statement it guards is dropped.
     UnitSignature                   a pair of lists of (name, exponent): .units is fst, .inverted_units is snd; the
                                     type N of names is a parameter
     None / `x is None`              option: None / match
   results
     a function that can raise returns `res T` (Model/Prelude.v): `return e` is `Ok e`, `raise X(...)` is `Raise X`
     (exception class by name; the message is dropped and not evaluated).  A function without raise / raising callee
     is a plain Gallina function.
   sequencing
     every operation that may raise is bound with `do t <- op; ...` in source order: statements top to bottom, operands
     left to right, arguments left to right.  `x = e` is `let`; `a, b, c = e` is a pattern `let`/`do`; `x op= e` is
     `x = x op e` (Vector, QuantityVector, Fraction and int are immutable and define no in-place operators).
     `if c: A  [else: B]` followed by R:  when A ends in return/raise on every path it is `if c then A else (B; R)`
     (dually for B); otherwise the variables assigned in A or B are rebound by
     `let (vars) := if c then (A; vars) else (B; vars) in R`, or `do (vars) <- ...; R` when A or B can raise.
     `for x in L: BODY` (no break/continue/return/else) is `do (vars) <- g_for_each L (vars) (fun x (vars) => BODY; Ok (vars)); ...`
     where vars are the variables assigned in BODY that exist before the loop and g_for_each (below) is the left fold
     in the res monad; variables first assigned inside BODY are local to one iteration (a use after the loop is refused).
     `and` / `or` / `not` on booleans are `&&` / `||` / `negb` (operands are pure, so short-circuiting is unobservable).
   narrowing
     `if isinstance(x, numbers.Number)` / `if is_number(x)` (is_number is inlined after checking that its body still is
     `return isinstance(x, numbers.Number)`) on a qval x is `match x with VN x => .. | _ => .. end`;
     `if isinstance(x, Quantity)` is `match x with VQ m d => let x := g_Quantity m d in .. | _ => .. end`;
     `if x is None` on an option is `match x with None => .. | Some x => .. end`; `not` swaps the branches.
     isinstance(x, C) where x is declared of class C is `true`.
   operators (by operand type)
     int:     + - * unary-  == != < <= > >=        Z.add .. Z.opp, =? <? <=?  (!= is negb (=?); a > b is b <? a)
     tuple of int ==                              g_tuple_eq (decidable equality of lists, below)
     Vector:  a + b, a * k, k * a, -a, a == b      g_Vector_add a b, g_Vector_mul a k, g_Vector_rmul a k (int.__mul__
                                                  returns NotImplemented, Python then calls a.__rmul__(k)), g_Vector_neg a,
                                                  g_Vector_eq a b: the translations of the class's own methods
     QuantityVector: a * b, a ** k, a / b, a == b  g_QuantityVector_mul / _pow / _truediv / _eq;  a != b is negb (a == b)
                                                  (the class defines no __ne__; checked)
     Ka numbers (Python's own operators, NOT dispatch):  a * b, a + b, a ** k   n_mul a b, n_add a b, n_pow a (NInt k) of
                                                  Model/Num.v (which fold simplify_number into every operation and idealise
                                                  floats); a == b / a != b is g_num_eq a b = Qeqb (toQ a) (toQ b) / its negb
     simplify_number(x)                           x  (values of type num are kept simplified by Model/Num.v)
     when a class defines a method twice the LAST definition is translated (Python rebinds the name)
   comprehensions
     tuple(E for x in L) / [E for x in L]         map (fun x => E) L;  `for x, y in zip(A, B)` is List.combine A B with a pair pattern
     len(L)                                       Z.of_nat (List.length L)
   calls
     dispatch(NAME, (a, b)) on two numbers        g_num_dispatch NAME a b (below): the Model/Num.v operation registered under
                                                  NAME for (Number, Number) — n_add for "+", n_sub "-", n_mul "*", n_div "/",
                                                  n_mod "%", n_pow "^", n_lt "<", n_le "<=", n_eq "==", n_ne "!=", n_gt ">", n_ge ">=";
                                                  NAME is a string literal or the closure variable `name`
     lookup_unit(name) inside try/except InvalidPrefixError   a parameter `lookup_unit : N -> g_lkres`:
                                                  `try: u = lookup_unit(n)  except InvalidPrefixError: H` followed by R is
                                                  `match lookup_unit n with LkInvalidPrefix => H | LkOk u => R end`
     QSPACE                                       a parameter (the base_units of the quantity space)
     a call of another translated function / method / closure   that definition applied to the arguments
     a closure's free variables (name, quantity_vector_combiner, wrap_in_quantity; f) are Section variables, i.e. leading parameters
   registrations
     inside register_quantities_op: `register_function(F, name, (T1, T2))` gives the arm `| K1 x, K2 y => Some (F x y)` of
     g_quantities_op_dispatch (Quantity is VQ, Number is VN; arms are disjoint, checked); no arm: None.  That Ka's dispatch
     selects the header by the runtime kinds is property C10's subject.
     at module level: every statement that mentions register_quantities_op must be a call of it with constant arguments
     (possibly inside `for op in [".."]`): one row (name, combiner, wrap_in_quantity) of g_quantities_ops per call, in
     source order, defaults taken from the def.
"""

MAPPING_LOOKUP = r"""
   TRUSTED CONSTRUCT MAPPING (everything else is checked by GenFacts/UnitsLookupSrcFacts.v)

   the four module tables are the fields of a Model/Units.v `registry` R (regenerated: Gen/GenUnits.v):
     PREFIXES        r_prefixes R : list gprefix; p.name_prefix / p.symbol_prefix / p.multiplier are p_name / p_symbol /
                     (p_kind, p_mult): a number of the table is a pair (kind tag, exact rational value)
     NAME_TO_UNIT    r_names R, SYMBOL_TO_UNIT  r_symbols R : association lists  spelling -> index into r_units R
     a registered Unit object      its index i in r_units R (a reference); u.offset / u.multiple read field
                     u_offset / (u_mkind, u_mult) of `nth_error (r_units R) i` (an index outside the table — impossible for a
                     dumped registry — gives GMalformed)
   values
     the result of lookup_unit     g_lookup (below): GNone for None, GInvalidPrefix for `raise InvalidPrefixError()`, and for a Unit
                     GUnit i m e: the registered unit i it was built from, its multiple (exact value m), and whether only
                     int/Fraction arithmetic produced it (e).  `return D[k]` of a registered unit is g_plain R i.
     Unit(u.symbol, u.singular_name, u.plural_name, u.quantities, u.quantity_vector, M, u.offset)
                     GUnit i M: every argument but the multiple must be the same field of the same registered unit u (checked)
     a * b on table numbers        g_tn_mul: values multiplied, exact iff both are int/Fraction
     x != 0 on a table number      negb (q_is_zero x)
   strings (Coq byte strings = the UTF-8 of the Python text)
     s.startswith(p)               String.prefix p s;  s[len(p):]  drop (String.length p) s;  len counts bytes here and code
                     points in Python: for valid UTF-8 both cut at the same place when p is a prefix of s, and when it is not
                     the slice is only used under `s.startswith(p) and ..`
   dictionaries
     `k in D` followed (in the guarded branch) by `D[k]`     match dict_get k D with Some v => .. | None => .. end, in the form
                     `if (c1 and k in D): return E[D[k]]`  =>  match (if c1 then dict_get k D else None) with Some v => E[v] | None => rest end
   control
     `for p in L: if c1: return e1 ... ` followed by `return d`   g_first L (fun p => Some e1 if c1, else .. else None) d :
                     the first iteration whose body returns decides; assignments in the body are `let`
     raise InvalidPrefixError()    GInvalidPrefix (the only exception of these two functions)
"""

KEYWORDS = {"fun", "if", "then", "else", "let", "in", "match", "with", "end", "do", "forall", "exists", "fix", "cofix", "as",
            "return", "at", "using", "where", "Type", "Prop", "Set", "SProp", "for", "struct", "IF"}
# names the generated text may mention: a Python variable with one of these names is refused
RESERVED = KEYWORDS | {
    "Ok", "Raise", "bind", "res", "true", "false", "negb", "andb", "orb", "Some", "None", "fst", "snd", "map", "list", "option",
    "string", "bool", "nat", "Z", "Q", "num", "NInt", "NFrac", "NFlt", "toQ", "Qeqb", "n_add", "n_sub", "n_mul", "n_div", "n_mod",
    "n_pow", "n_lt", "n_le", "n_eq", "n_ne", "n_gt", "n_ge", "n_neg", "dimvec", "ud", "um", "uo", "qval", "VN", "VQ", "N", "R",
    "List", "String", "registry", "r_prefixes", "r_units", "r_names", "r_symbols", "dict_get", "drop", "nth_error", "q_is_zero",
    "kind_exact", "p_name", "p_symbol", "p_kind", "p_mult", "u_mult", "u_mkind", "u_offset", "u_okind", "GNone", "GInvalidPrefix",
    "GMalformed", "GUnit", "LkOk", "LkInvalidPrefix", "unit_t"}
EXN = {"ZeroDivisionError", "OverflowError", "TypeError", "ValueError", "IndexError", "KaRuntimeError", "EvalError",
       "UnknownFunctionError", "NoMatchingFunctionSignatureError", "UnknownKeywordError", "BadTypeKeywordError",
       "IncompatibleQuantitiesError", "FunctionArgError"}


def coq_str(s):
    return '"' + s.replace('"', '""') + '"%string'


def zlit(n):
    return "%d%%Z" % n if n >= 0 else "(%d)%%Z" % n


def clean(msg):
    return str(msg).replace("*)", "* )").replace("(*", "( *")


# ------------------------------------------------------------------------------------------------ types
def T_list(t): return ("list", t)
def T_tuple(*ts): return ("tuple",) + tuple(ts)
def T_opt(t): return ("option", t)
def T_fun(args, ret, monadic): return ("fun", tuple(args), ret, monadic)


SPEC_T = T_tuple("N", "int")
SIG_T = "sig"
ZTUPLE = "ztuple"


def coq_ty(t):
    if isinstance(t, tuple):
        if t[0] == "list":
            return "(list %s)" % coq_ty(t[1])
        if t[0] == "option":
            return "(option %s)" % coq_ty(t[1])
        if t[0] == "tuple":
            return "(" + " * ".join(coq_ty(x) for x in t[1:]) + ")%type"
        if t[0] == "fun":
            return "(" + " -> ".join([coq_ty(a) for a in t[1]] + [("res " if t[3] else "") + coq_ty(t[2])]) + ")"
    return {"int": "Z", "num": "num", "bool": "bool", "str": "string", "vec": "dimvec", "qv": "dimvec", ZTUPLE: "(list Z)",
            "unit": "unit_t", "quantity": "g_quantity", "qval": "qval", "qspace": "(list string)", "N": "N",
            "sig": "(list (N * Z) * list (N * Z))%type", "lkfun": "(N -> g_lkres)"}[t]


# attribute reads: type -> attr -> (type of the result, Gallina projection as a format, None = erased)
ATTRS = {
    "vec": {"xs": (ZTUPLE, "%s")},
    "qv": {"v": ("vec", "%s"), "names": ("names", None)},
    "qspace": {"base_units": (T_list("str"), "%s")},
    "unit": {"quantity_vector": ("qv", "(ud %s)"), "multiple": ("num", "(um %s)"), "offset": ("num", "(uo %s)")},
    "quantity": {"mag": ("num", "(g_mag %s)"), "qv": ("qv", "(g_qv %s)")},
    "sig": {"units": (T_list(SPEC_T), "(fst %s)"), "inverted_units": (T_list(SPEC_T), "(snd %s)")},
}
CLASS_TYPE = {"Vector": "vec", "QuantityVector": "qv", "QuantitySpace": "qspace", "Quantity": "quantity"}
DUNDER = {ast.Add: "__add__", ast.Sub: "__sub__", ast.Mult: "__mul__", ast.Div: "__truediv__", ast.Pow: "__pow__"}
RDUNDER = {ast.Mult: "__rmul__", ast.Add: "__radd__"}


# ------------------------------------------------------------------------------------------------ AST helpers
def strip_doc(body):
    return [s for s in body if not (isinstance(s, ast.Expr) and isinstance(s.value, ast.Constant) and isinstance(s.value.value, str))]


def scope_defs(body, name, kinds=(ast.FunctionDef,)):
    """definitions called `name` directly in this body; inside compound statements they are refused (which one is bound
    would depend on control flow)"""
    direct = [n for n in body if isinstance(n, kinds) and n.name == name]

    def inner(stmts, top):
        for s in stmts:
            if isinstance(s, kinds) and s.name == name:
                if not top:
                    yield s
                continue
            if isinstance(s, (ast.FunctionDef, ast.ClassDef, ast.AsyncFunctionDef)):
                continue
            for fld in ("body", "orelse", "finalbody"):
                yield from inner(getattr(s, fld, []) or [], False)
            for h in getattr(s, "handlers", []) or []:
                yield from inner(h.body, False)
            for c in getattr(s, "cases", []) or []:
                yield from inner(c.body, False)
    nested = list(inner(body, True))
    return direct, nested


def find_def(tree, qual, allow_guard=()):
    """the definition a dotted name denotes: the LAST def of that name in its scope (Python rebinds).  A component listed in
    allow_guard may sit inside one `if` of its parent's body (register_numeric_function.quantity_function)."""
    body = tree.body
    node = None
    outer = []
    for p in qual.split("."):
        direct, nested = scope_defs(body, p, (ast.FunctionDef, ast.ClassDef))
        if nested and not (p in allow_guard and not direct and len(nested) == 1):
            raise Untranslatable("%s is defined inside a compound statement" % p)
        cands = direct or nested
        if not cands:
            raise Untranslatable("no definition %s" % qual)
        if node is not None and isinstance(node, ast.FunctionDef):
            outer.append(node)
        node = cands[-1]
        # the name must not be rebound otherwise in that scope
        for s in body:
            if isinstance(s, (ast.Assign, ast.AugAssign, ast.AnnAssign)):
                for t in ast.walk(s):
                    if isinstance(t, ast.Name) and isinstance(t.ctx, ast.Store) and t.id == p:
                        raise Untranslatable("%s is rebound by an assignment" % p)
        body = node.body
    return node, outer


def check_plain_args(node, n=None):
    a = node.args
    if a.vararg or a.kwarg or a.kwonlyargs or a.kw_defaults or getattr(a, "posonlyargs", []):
        raise Untranslatable("parameter list of %s" % node.name)
    if node.decorator_list:
        raise Untranslatable("decorated function %s" % node.name)
    return [x.arg for x in a.args]


def terminates(stmts):
    if not stmts:
        return False
    last = stmts[-1]
    if isinstance(last, (ast.Return, ast.Raise)):
        return True
    if isinstance(last, ast.If):
        return terminates(last.body) and bool(last.orelse) and terminates(last.orelse)
    return False


def assigned_names(stmts):
    """names bound by assignment statements (in order of first appearance), not descending into nested defs"""
    out = []

    def tgt(t):
        if isinstance(t, ast.Name):
            if t.id not in out:
                out.append(t.id)
        elif isinstance(t, (ast.Tuple, ast.List)):
            for x in t.elts:
                tgt(x)
        else:
            raise Untranslatable("assignment target " + type(t).__name__)

    def go(ss):
        for s in ss:
            if isinstance(s, ast.Assign):
                for t in s.targets:
                    tgt(t)
            elif isinstance(s, ast.AugAssign):
                tgt(s.target)
            elif isinstance(s, ast.For):
                tgt(s.target)
                go(s.body)
                go(s.orelse)
            elif isinstance(s, ast.If):
                go(s.body)
                go(s.orelse)
            elif isinstance(s, ast.Try):
                go(s.body)
                for h in s.handlers:
                    go(h.body)
                go(s.orelse)
                go(s.finalbody)
            elif isinstance(s, (ast.While, ast.With)):
                raise Untranslatable(type(s).__name__)
    go(stmts)
    return out


def has_node(stmts, kinds):
    for s in stmts:
        for n in ast.walk(s):
            if isinstance(n, kinds):
                return True
    return False


def loaded_names(stmts):
    return {n.id for s in stmts for n in ast.walk(s) if isinstance(n, ast.Name) and isinstance(n.ctx, ast.Load)}


# ------------------------------------------------------------------------------------------------ the function translator
class Fn:
    """one function body -> one Gallina term.  mode 'pure': a plain term; mode 'monadic': a term of type res T."""

    def __init__(self, unit, ret, monadic, locals_decl=None):
        self.unit = unit
        self.ret = ret
        self.monadic = monadic
        self.mode = "monadic" if monadic else "pure"
        self.locals_decl = locals_decl or {}
        self.n = 0
        self.binds = []

    # ------------------------------------------------------------ names
    def var(self, name):
        if name in RESERVED or name.startswith("g_") or (name[:1] == "t" and name[1:].isdigit()) \
                or not name.isidentifier() or not name.isascii() or "__" in name:
            raise Untranslatable("variable name %s clashes with the generated vocabulary" % name)
        return name

    def fresh(self):
        self.n += 1
        return "t%d" % self.n

    def bind(self, term, ty):
        if self.mode == "pure":
            raise MonadicNeeded()
        v = self.fresh()
        self.binds.append((v, term))
        return v, ty

    def wrap(self, binds, body):
        for pat, m in reversed(binds):
            body = "do %s <- %s;\n%s" % (pat.lstrip("'"), m, body)     # the notation takes a pattern without the quote
        return body

    # ------------------------------------------------------------ coercions
    def coerce(self, text, ty, want, what="value"):
        if want is None or ty == want:
            return text
        if ty == "int" and want == "num":
            return "(NInt %s)" % text
        if ty == "num" and want == "qval":
            return "(VN %s)" % text
        if ty == "int" and want == "qval":
            return "(VN (NInt %s))" % text
        if ty == "quantity" and want == "qval":
            return "(g_q2v %s)" % text
        if ty == T_list("int") and want == ZTUPLE:
            return text
        raise Untranslatable("%s of type %s where %s is required" % (what, ty, want))

    # ------------------------------------------------------------ expressions
    def pure(self, e, env, want=None):
        n = len(self.binds)
        t, ty = self.expr(e, env, want)
        if len(self.binds) != n:
            raise Untranslatable("an operation that may raise inside a context evaluated conditionally or repeatedly")
        return t, ty

    def expr(self, e, env, want=None):
        t, ty = self._expr(e, env, want)
        if want is not None:
            t = self.coerce(t, ty, want)
            ty = want
        return t, ty

    def lookup(self, name, env):
        if name in env:
            return env[name]
        raise Untranslatable("unbound name %s" % name)

    def _expr(self, e, env, want):
        if isinstance(e, ast.Constant):
            v = e.value
            if isinstance(v, bool):
                return ("true" if v else "false"), "bool"
            if isinstance(v, int):
                return zlit(v), "int"
            if isinstance(v, str):
                return coq_str(v), "str"
            if v is None and isinstance(want, tuple) and want[0] == "option":
                return "None", want
            raise Untranslatable("constant %r" % (v,))
        if isinstance(e, ast.Name):
            ty, text = self.lookup(e.id, env)
            if ty == "names" or ty == "lkfun":
                raise Untranslatable("%s used as a value" % e.id)
            return text, ty
        if isinstance(e, ast.Attribute):
            obj, oty = self.expr(e.value, env)
            if not isinstance(oty, str) or e.attr not in ATTRS.get(oty, {}):
                raise Untranslatable("attribute .%s of a value of type %s" % (e.attr, oty))
            rty, fmt = ATTRS[oty][e.attr]
            for cname, cty in CLASS_TYPE.items():
                if cty == oty:
                    self.unit.check_ctor(cname)
            if fmt is None:
                return None, rty
            return fmt % obj, rty
        if isinstance(e, ast.Tuple):
            parts = [self.expr(x, env) for x in e.elts]
            if any(t is None for t, _ in parts):
                raise Untranslatable("erased value in a tuple")
            return "(" + ", ".join(t for t, _ in parts) + ")", T_tuple(*[ty for _, ty in parts])
        if isinstance(e, ast.BinOp):
            return self.binop(e, env)
        if isinstance(e, ast.UnaryOp):
            if isinstance(e.op, ast.Not):
                c, _ = self.expr(e.operand, env, "bool")
                return "(negb %s)" % c, "bool"
            if isinstance(e.op, ast.USub):
                a, ty = self.expr(e.operand, env)
                if ty == "int":
                    return "(- %s)%%Z" % a, "int"
                return self.method_call(ty, "__neg__", a, [], env, "unary -")
            raise Untranslatable("unary operator %s" % type(e.op).__name__)
        if isinstance(e, ast.BoolOp):
            n = len(self.binds)
            parts = []
            for i, v in enumerate(e.values):
                c, _ = self.expr(v, env, "bool")
                if i > 0 and len(self.binds) != n:
                    raise Untranslatable("an operation that may raise in a short-circuited operand")
                n = len(self.binds)
                parts.append(c)
            return "(" + (" && " if isinstance(e.op, ast.And) else " || ").join(parts) + ")", "bool"
        if isinstance(e, ast.Compare):
            return self.compare(e, env)
        if isinstance(e, ast.IfExp):
            c, _ = self.expr(e.test, env, "bool")
            a, ta = self.pure(e.body, env, want)
            b, tb = self.pure(e.orelse, env, want)
            if ta != tb:
                raise Untranslatable("conditional expression of two types (%s, %s)" % (ta, tb))
            return "(if %s then %s else %s)" % (c, a, b), ta
        if isinstance(e, ast.Call):
            return self.call(e, env, want)
        if isinstance(e, (ast.ListComp, ast.GeneratorExp)):
            return self.comprehension(e, env)
        if isinstance(e, ast.Lambda):
            if not (isinstance(want, tuple) and want[0] == "fun"):
                raise Untranslatable("lambda without a declared type")
            return self.lambda_(e, env, want), want
        raise Untranslatable(ast.dump(e)[:80])

    def lambda_(self, e, env, want):
        a = e.args
        if a.vararg or a.kwarg or a.kwonlyargs or a.defaults or a.kw_defaults or getattr(a, "posonlyargs", []) \
                or len(a.args) != len(want[1]) or want[3]:
            raise Untranslatable("lambda parameters")
        env2 = dict(env)
        names = []
        for p, t in zip(a.args, want[1]):
            env2[p.arg] = (t, self.var(p.arg))
            names.append(p.arg)
        body, _ = self.pure(e.body, env2, want[2])
        return "(fun %s => %s)" % (" ".join(names), body)

    def binop(self, e, env):
        a, ta = self.expr(e.left, env)
        b, tb = self.expr(e.right, env)
        op = type(e.op)
        if ta == "int" and tb == "int":
            sym = {ast.Add: "+", ast.Sub: "-", ast.Mult: "*"}.get(op)
            if sym is None:
                raise Untranslatable("operator %s on ints" % op.__name__)
            return "(%s %s %s)%%Z" % (a, sym, b), "int"
        if isinstance(ta, tuple) and ta[0] == "list" and ta == tb and op is ast.Add:
            return "(%s ++ %s)%%list" % (a, b), ta
        if ta == "num" or tb == "num":
            if op is ast.Pow and ta == "num" and tb == "int":
                return self.bind("n_pow %s (NInt %s)" % (a, b), "num")
            a = self.coerce(a, ta, "num", "left operand")
            b = self.coerce(b, tb, "num", "right operand")
            f = {ast.Add: "n_add", ast.Mult: "n_mul"}.get(op)
            if f is None:
                raise Untranslatable("Python operator %s on numbers" % op.__name__)
            return self.bind("%s %s %s" % (f, a, b), "num")
        if ta in ("vec", "qv") and op in DUNDER:
            return self.method_call(ta, DUNDER[op], a, [(b, tb)], env, "operator %s" % op.__name__)
        if ta == "int" and tb in ("vec", "qv") and op in RDUNDER:
            # int.__mul__(vector) is NotImplemented: Python calls the reflected method of the right operand
            return self.method_call(tb, RDUNDER[op], b, [(a, ta)], env, "reflected operator %s" % op.__name__)
        raise Untranslatable("operator %s on %s and %s" % (op.__name__, ta, tb))

    def eq(self, a, ta, b, tb):
        if ta == "int" and tb == "int":
            return "(%s =? %s)%%Z" % (a, b)
        if ta == ZTUPLE and tb == ZTUPLE:
            return "(g_tuple_eq %s %s)" % (a, b)
        if ta == "str" and tb == "str":
            return "(String.eqb %s %s)" % (a, b)
        if ta == "num" or tb == "num":
            return "(g_num_eq %s %s)" % (self.coerce(a, ta, "num", "left operand"), self.coerce(b, tb, "num", "right operand"))
        if ta in ("vec", "qv") and ta == tb:
            t, _ = self.method_call(ta, "__eq__", a, [(b, tb)], None, "==")
            return t
        raise Untranslatable("== on %s and %s" % (ta, tb))

    def compare(self, e, env):
        if len(e.ops) != 1:
            raise Untranslatable("chained comparison")
        op = e.ops[0]
        if isinstance(op, (ast.Is, ast.IsNot)):
            if not (isinstance(e.comparators[0], ast.Constant) and e.comparators[0].value is None):
                raise Untranslatable("`is` with something else than None")
            a, ta = self.expr(e.left, env)
            if not (isinstance(ta, tuple) and ta[0] == "option"):
                raise Untranslatable("`is None` on a value of type %s" % (ta,))
            t = "match %s with None => true | Some _ => false end" % a
            return ("(%s)" % t if isinstance(op, ast.Is) else "(negb (%s))" % t), "bool"
        a, ta = self.expr(e.left, env)
        b, tb = self.expr(e.comparators[0], env)
        if isinstance(op, ast.Eq):
            return self.eq(a, ta, b, tb), "bool"
        if isinstance(op, ast.NotEq):
            if ta in ("vec", "qv"):
                if (ta, "__ne__") in self.unit.defined_dunders:
                    raise Untranslatable("class of %s defines __ne__" % ta)
            return "(negb %s)" % self.eq(a, ta, b, tb), "bool"
        if ta == "int" and tb == "int":
            if isinstance(op, ast.Lt): return "(%s <? %s)%%Z" % (a, b), "bool"
            if isinstance(op, ast.LtE): return "(%s <=? %s)%%Z" % (a, b), "bool"
            if isinstance(op, ast.Gt): return "(%s <? %s)%%Z" % (b, a), "bool"
            if isinstance(op, ast.GtE): return "(%s <=? %s)%%Z" % (b, a), "bool"
        raise Untranslatable("comparison %s on %s and %s" % (type(op).__name__, ta, tb))

    def apply_info(self, info, obj_args, what):
        """info = (coq name, [arg types], ret, monadic); obj_args = [(text, type)]"""
        gname, atys, ret, monadic = info
        if len(atys) != len(obj_args):
            raise Untranslatable("%s: %d arguments, %d parameters" % (what, len(obj_args), len(atys)))
        args = [self.coerce(t, ty, w, "argument of %s" % what) for (t, ty), w in zip(obj_args, atys)]
        term = " ".join([gname] + args)
        if monadic:
            return self.bind(term, ret)
        return "(%s)" % term, ret

    def method_call(self, oty, meth, obj, args, env, what):
        info = self.unit.methods.get((oty, meth))
        if info is None:
            raise Untranslatable("%s: no translated method %s of %s" % (what, meth, oty))
        return self.apply_info(info, [(obj, oty)] + args, what)

    def static_isinstance(self, e, env):
        """isinstance(x, C) / is_number(x) -> ('static', bool) | ('narrow', name, 'VN'|'VQ') | None"""
        if not isinstance(e, ast.Call) or e.keywords or not isinstance(e.func, ast.Name):
            return None
        if e.func.id == "is_number" and len(e.args) == 1 and "is_number" not in env:
            self.unit.check_is_number()
            x, cls = e.args[0], "Number"
        elif e.func.id == "isinstance" and len(e.args) == 2 and "isinstance" not in env:
            x = e.args[0]
            c = e.args[1]
            if isinstance(c, ast.Name):
                cls = c.id
            elif isinstance(c, ast.Attribute) and isinstance(c.value, ast.Name) and c.value.id == "numbers" and c.attr == "Number":
                cls = "Number"
            else:
                raise Untranslatable("isinstance class " + ast.dump(c)[:60])
        else:
            return None
        if not isinstance(x, ast.Name):
            raise Untranslatable("isinstance of an expression")
        ty, _ = self.lookup(x.id, env)
        if ty == "qval":
            if cls == "Number":
                return ("narrow", x.id, "VN")
            if cls == "Quantity":
                return ("narrow", x.id, "VQ")
            raise Untranslatable("isinstance(%s, %s) on a Ka value" % (x.id, cls))
        if cls in CLASS_TYPE and ty == CLASS_TYPE[cls]:
            return ("static", True)
        if ty == "num" and cls == "Number":
            return ("static", True)
        if ty == "num" and cls == "Combinatoric":
            return ("static", False)
        raise Untranslatable("isinstance(%s : %s, %s)" % (x.id, ty, cls))

    def call(self, e, env, want):
        si = self.static_isinstance(e, env)
        if si is not None:
            if si[0] == "static":
                return ("true" if si[1] else "false"), "bool"
            _, x, k = si
            _, xt = self.lookup(x, env)
            pat = "VN _" if k == "VN" else "VQ _ _"
            return "(match %s with %s => true | _ => false end)" % (xt, pat), "bool"
        if e.keywords:
            raise Untranslatable("keyword arguments in a call")
        f = e.func
        if isinstance(f, ast.Attribute):
            obj, oty = self.expr(f.value, env)
            args = [self.expr(a, env) for a in e.args]
            return self.method_call(oty, f.attr, obj, args, env, "method call .%s" % f.attr)
        if not isinstance(f, ast.Name):
            raise Untranslatable("call of " + ast.dump(f)[:60])
        name = f.id
        if name in env:
            ty, text = env[name]
            if not (isinstance(ty, tuple) and ty[0] == "fun"):
                raise Untranslatable("call of %s, a variable of type %s" % (name, ty))
            args = [self.expr(a, env) for a in e.args]
            return self.apply_info((text, list(ty[1]), ty[2], ty[3]), args, "call of %s" % name)
        if name in CLASS_TYPE:
            self.unit.check_ctor(name)
        if name == "Vector":
            if len(e.args) != 1:
                raise Untranslatable("Vector arity")
            a, _ = self.expr(e.args[0], env, ZTUPLE)
            return a, "vec"
        if name == "QuantityVector":
            if len(e.args) != 2:
                raise Untranslatable("QuantityVector arity")
            a, _ = self.expr(e.args[0], env, "vec")
            _, nt = self.pure_names(e.args[1], env)
            return a, "qv"
        if name == "Quantity":
            if len(e.args) != 2:
                raise Untranslatable("Quantity arity")
            m, _ = self.expr(e.args[0], env, "num")
            q, _ = self.expr(e.args[1], env, "qv")
            return "(g_Quantity %s %s)" % (m, q), "quantity"
        if name == "tuple":
            if len(e.args) != 1 or not isinstance(e.args[0], ast.GeneratorExp):
                raise Untranslatable("tuple(..) of something else than a generator")
            t, ty = self.comprehension(e.args[0], env)
            if ty != T_list("int"):
                raise Untranslatable("tuple of %s" % (ty,))
            return t, ZTUPLE
        if name == "len":
            if len(e.args) != 1:
                raise Untranslatable("len arity")
            a, ty = self.expr(e.args[0], env)
            if not (isinstance(ty, tuple) and ty[0] == "list") and ty != ZTUPLE:
                raise Untranslatable("len of %s" % (ty,))
            return "(Z.of_nat (List.length %s))" % a, "int"
        if name == "simplify_number":
            if len(e.args) != 1:
                raise Untranslatable("simplify_number arity")
            return self.expr(e.args[0], env, "num")
        if name == "dispatch":
            if len(e.args) != 2 or not isinstance(e.args[1], ast.Tuple) or len(e.args[1].elts) != 2:
                raise Untranslatable("dispatch with something else than a pair of operands")
            nm, _ = self.expr(e.args[0], env, "str")
            a, _ = self.expr(e.args[1].elts[0], env, "num")
            b, _ = self.expr(e.args[1].elts[1], env, "num")
            return self.bind("g_num_dispatch %s %s %s" % (nm, a, b), "num")
        info = self.unit.funcs.get(name)
        if info is None:
            raise Untranslatable("call of %s, which is not translated" % name)
        args = [self.expr(a, env) for a in e.args]
        return self.apply_info(info, args, "call of %s" % name)

    def pure_names(self, e, env):
        """the `names` argument of QuantityVector: erased, but it must be an attribute read without effects"""
        t, ty = self.pure(e, env)
        if ty != "names" and ty != T_list("str"):
            raise Untranslatable("names argument of type %s" % (ty,))
        return t, ty

    def comprehension(self, e, env):
        if len(e.generators) != 1:
            raise Untranslatable("comprehension with several generators")
        g = e.generators[0]
        if g.ifs or g.is_async:
            raise Untranslatable("comprehension with a condition")
        it = g.iter
        if isinstance(it, ast.Call) and isinstance(it.func, ast.Name) and it.func.id == "zip" and "zip" not in env \
                and len(it.args) == 2 and not it.keywords:
            a, ta = self.expr(it.args[0], env)
            b, tb = self.expr(it.args[1], env)
            ea, eb = self.elem_type(ta), self.elem_type(tb)
            src, ety = "(List.combine %s %s)" % (a, b), T_tuple(ea, eb)
        else:
            src, ty = self.expr(it, env)
            ety = self.elem_type(ty)
        pat, env2 = self.target(g.target, ety, env)
        body, bty = self.pure(e.elt, env2)
        if body is None:
            raise Untranslatable("erased value as a comprehension element")
        return "(map (fun %s => %s) %s)" % (pat, body, src), T_list(bty)

    def elem_type(self, ty):
        if ty == ZTUPLE:
            return "int"
        if isinstance(ty, tuple) and ty[0] == "list":
            return ty[1]
        raise Untranslatable("iteration over a value of type %s" % (ty,))

    def target(self, t, ty, env):
        """binding pattern for a loop / comprehension / assignment target of type ty"""
        env2 = dict(env)
        if isinstance(t, ast.Name):
            if t.id == "_":
                return "_", env2
            env2[t.id] = (ty, self.var(t.id))
            return t.id, env2
        if isinstance(t, ast.Tuple):
            if not (isinstance(ty, tuple) and ty[0] == "tuple" and len(ty) - 1 == len(t.elts)):
                raise Untranslatable("unpacking a value of type %s into %d names" % (ty, len(t.elts)))
            names = []
            for x, xt in zip(t.elts, ty[1:]):
                if not isinstance(x, ast.Name):
                    raise Untranslatable("nested unpacking")
                if x.id == "_":
                    names.append("_")
                else:
                    env2[x.id] = (xt, self.var(x.id))
                    names.append(x.id)
            return "'(" + ", ".join(names) + ")", env2
        raise Untranslatable("target " + type(t).__name__)

    # ------------------------------------------------------------ statements
    def ret_text(self, text):
        return "Ok %s" % text if self.mode == "monadic" else text

    def dead(self, env):
        raise Untranslatable("fall-through (implicit return None)")

    def block(self, stmts, env, k):
        if not stmts:
            return k(env)
        s, rest = stmts[0], stmts[1:]
        if isinstance(s, ast.Expr) and isinstance(s.value, ast.Constant) and isinstance(s.value.value, str):
            return self.block(rest, env, k)
        if isinstance(s, ast.Pass):
            return self.block(rest, env, k)
        if isinstance(s, ast.Return):
            if s.value is None:
                raise Untranslatable("return without a value")
            if self.in_phi:
                raise Untranslatable("return inside a branch that falls through")
            self.binds = []
            t, ty = self.expr(s.value, env, self.ret)
            binds, self.binds = self.binds, []
            if binds and binds[-1][0] == t:
                return self.wrap(binds[:-1], binds[-1][1])         # tail call: no `do t <- m; Ok t`
            return self.wrap(binds, self.ret_text(t))
        if isinstance(s, ast.Raise):
            x = s.exc
            if s.cause is not None or x is None:
                raise Untranslatable("raise form")
            cls = x.func if isinstance(x, ast.Call) else x
            if not isinstance(cls, ast.Name) or cls.id not in EXN or cls.id in env:
                raise Untranslatable("raise of " + ast.dump(cls)[:60])
            if self.mode == "pure":
                raise MonadicNeeded()
            return "Raise %s" % cls.id
        if isinstance(s, (ast.Assign, ast.AugAssign)):
            return self.assign(s, rest, env, k)
        if isinstance(s, ast.If):
            return self.if_(s, rest, env, k)
        if isinstance(s, ast.For):
            return self.for_(s, rest, env, k)
        if isinstance(s, ast.Try):
            return self.try_(s, rest, env, k)
        raise Untranslatable("statement " + type(s).__name__)

    in_phi = False

    def assign(self, s, rest, env, k):
        if isinstance(s, ast.AugAssign):
            if not isinstance(s.target, ast.Name):
                raise Untranslatable("augmented assignment target")
            value = ast.BinOp(left=ast.Name(id=s.target.id, ctx=ast.Load()), op=s.op, right=s.value)
            target = s.target
        else:
            if len(s.targets) != 1:
                raise Untranslatable("chained assignment")
            value, target = s.value, s.targets[0]
        self.binds = []
        if isinstance(target, ast.Name):
            name = target.id
            want = self.locals_decl.get(name) or (env[name][0] if name in env else None)
            if name in env and isinstance(env[name][0], tuple) and env[name][0][0] == "fun":
                raise Untranslatable("assignment to function variable %s" % name)
            if want == "int" and name not in self.locals_decl:
                t, ty = self.expr(value, env)
                if ty == "num":
                    raise Retype(name)
                t = self.coerce(t, ty, want)
                ty = want
            else:
                t, ty = self.expr(value, env, want)
            if t is None:
                raise Untranslatable("erased value assigned to %s" % name)
            binds, self.binds = self.binds, []
            env2 = dict(env)
            env2[name] = (ty, self.var(name))
            body = self.block(rest, env2, k)
            if binds and binds[-1][0] == t:
                return self.wrap(binds[:-1] + [(name, binds[-1][1])], body)
            return self.wrap(binds, "let %s := %s in\n%s" % (name, t, body))
        t, ty = self.expr(value, env)
        binds, self.binds = self.binds, []
        pat, env2 = self.target(target, ty, env)
        body = self.block(rest, env2, k)
        if binds and binds[-1][0] == t:
            return self.wrap(binds[:-1] + [(pat, binds[-1][1])], body)
        return self.wrap(binds, "let %s := %s in\n%s" % (pat, t, body))

    def test(self, e, env):
        """-> (mk(then_text, else_text), env_then, env_else, hoisted binds)"""
        neg = False
        while isinstance(e, ast.UnaryOp) and isinstance(e.op, ast.Not):
            neg, e = not neg, e.operand
        si = self.static_isinstance(e, env)
        if si is not None and si[0] == "static":
            val = si[1] != neg
            return ("static", val), env, env, []
        if si is not None:
            _, x, kind = si
            xt = env[x][1]
            envp = dict(env)
            if kind == "VN":
                envp[x] = ("num", xt)
                pos = lambda a, b: "match %s with\n| VN %s => %s\n| _ => %s\nend" % (xt, xt, a, b)
            else:
                envp[x] = ("quantity", xt)
                pos = lambda a, b: "match %s with\n| VQ %s__mag %s__qv => let %s := g_Quantity %s__mag %s__qv in\n%s\n| _ => %s\nend" % (
                    xt, xt, xt, xt, xt, xt, a, b)
            if neg:
                return (lambda a, b: pos(b, a)), env, envp, []
            return pos, envp, env, []
        if isinstance(e, ast.Compare) and len(e.ops) == 1 and isinstance(e.ops[0], (ast.Is, ast.IsNot)) \
                and isinstance(e.comparators[0], ast.Constant) and e.comparators[0].value is None and isinstance(e.left, ast.Name):
            x = e.left.id
            ty, xt = self.lookup(x, env)
            if not (isinstance(ty, tuple) and ty[0] == "option"):
                raise Untranslatable("`is None` on %s of type %s" % (x, ty))
            if isinstance(e.ops[0], ast.IsNot):
                neg = not neg
            envs = dict(env)
            envs[x] = (ty[1], xt)
            isnone = lambda a, b: "match %s with\n| None => %s\n| Some %s => %s\nend" % (xt, a, xt, b)
            if neg:
                return (lambda a, b: isnone(b, a)), envs, env, []
            return isnone, env, envs, []
        self.binds = []
        c, _ = self.expr(e, env, "bool")
        binds, self.binds = self.binds, []
        if neg:
            c = "(negb %s)" % c
        return (lambda a, b: "if %s\nthen %s\nelse %s" % (c, a, b)), env, env, binds

    def if_(self, s, rest, env, k):
        mk, env_t, env_e, binds = self.test(s.test, env)
        if isinstance(mk, tuple):
            # statically decided by the declared types: the other branch is outside the value universe
            taken = s.body if mk[1] else list(s.orelse)
            return "(* %s is %s here *)\n" % (clean(ast.unparse(s.test)), "true" if mk[1] else "false") + self.block(taken + rest, env, k)
        body, orelse = list(s.body), list(s.orelse)
        tt, et = terminates(body), terminates(orelse)
        if tt and et:
            if strip_doc(rest):
                raise Untranslatable("statements after an if whose branches both end in return/raise")
            return self.wrap(binds, "(" + mk(self.block(body, env_t, self.dead), self.block(orelse, env_e, self.dead)) + ")")
        if tt:
            return self.wrap(binds, "(" + mk(self.block(body, env_t, self.dead), self.block(orelse + rest, env_e, k)) + ")")
        if et:
            return self.wrap(binds, "(" + mk(self.block(body + rest, env_t, k), self.block(orelse, env_e, self.dead)) + ")")
        # neither branch ends the function: rebind what they assign
        if has_node(body + orelse, (ast.Return,)):
            raise Untranslatable("return inside a branch that falls through")
        names = assigned_names(body + orelse)
        if not names:
            raise Untranslatable("an if that neither returns nor assigns")
        types = {}
        for v in names:
            if v in self.locals_decl:
                types[v] = self.locals_decl[v]
            elif v in env:
                types[v] = env[v][0]

        def phi(mode):
            def kphi(env2):
                parts = []
                for v in names:
                    if v not in env2:
                        raise Untranslatable("%s is assigned in one branch only" % v)
                    ty, text = env2[v]
                    if v not in types:
                        types[v] = ty
                    if ty == "num" and types[v] == "int" and v not in self.locals_decl:
                        raise Retype(v)
                    parts.append(self.coerce(text, ty, types[v], "variable %s" % v))
                tup = parts[0] if len(parts) == 1 else "(" + ", ".join(parts) + ")"
                return "Ok %s" % tup if mode == "monadic" else tup
            return kphi
        pat = names[0] if len(names) == 1 else "'(" + ", ".join(names) + ")"
        saved_mode, saved_phi, saved_n = self.mode, self.in_phi, self.n
        self.in_phi = True
        try:
            try:
                self.mode = "pure"
                joined = mk(self.block(body, env_t, phi("pure")), self.block(orelse, env_e, phi("pure")))
                head = "let %s := (%s) in\n" % (pat, joined)
            except MonadicNeeded:
                if saved_mode == "pure":
                    raise
                self.mode = "monadic"
                self.n = saved_n
                joined = mk(self.block(body, env_t, phi("monadic")), self.block(orelse, env_e, phi("monadic")))
                head = "do %s <- (%s);\n" % (pat.lstrip("'"), joined)
        finally:
            self.mode, self.in_phi = saved_mode, saved_phi
        env2 = dict(env)
        for v in names:
            env2[v] = (types[v], self.var(v))
        return self.wrap(binds, head + self.block(rest, env2, k))

    def for_(self, s, rest, env, k):
        if s.orelse:
            raise Untranslatable("for .. else")
        if has_node(s.body, (ast.Return, ast.Break, ast.Continue, ast.While)):
            raise Untranslatable("return / break / continue inside a loop")
        if self.mode == "pure":
            raise MonadicNeeded()
        self.binds = []
        it, ity = self.expr(s.iter, env)
        binds, self.binds = self.binds, []
        ety = self.elem_type(ity)
        pat, env_b = self.target(s.target, ety, env)
        targets = assigned_names([ast.Assign(targets=[s.target], value=None)])
        assigned = assigned_names(s.body)
        state = [v for v in assigned if v in env and v not in targets]
        local = [v for v in assigned if v not in state] + targets
        used_after = loaded_names(rest)
        for v in local:
            if v in used_after and v not in env:
                raise Untranslatable("%s, first assigned inside the loop, is used after it" % v)
            if v in used_after and v in targets:
                raise Untranslatable("loop variable %s is used after the loop" % v)
        if not state:
            raise Untranslatable("a loop that assigns nothing that outlives it")
        for v in state:
            if v in self.locals_decl and env[v][0] != self.locals_decl[v]:
                raise Untranslatable("type of loop variable %s" % v)

        def kloop(env2):
            for v in state:
                if env2[v][0] == "num" and env[v][0] == "int" and v not in self.locals_decl:
                    raise Retype(v)
            parts = [self.coerce(env2[v][1], env2[v][0], env[v][0], "loop variable %s" % v) for v in state]
            return "Ok " + (parts[0] if len(parts) == 1 else "(" + ", ".join(parts) + ")")
        spat = state[0] if len(state) == 1 else "'(" + ", ".join(state) + ")"
        sinit = env[state[0]][1] if len(state) == 1 else "(" + ", ".join(env[v][1] for v in state) + ")"
        saved_phi = self.in_phi
        self.in_phi = True          # a return inside the body is refused anyway
        try:
            body = self.block(list(s.body), env_b, kloop)
        finally:
            self.in_phi = saved_phi
        env2 = dict(env)            # the state variables keep their names and types
        head = "do %s <- g_for_each %s %s (fun %s %s =>\n%s);\n" % (spat.lstrip("'"), it, sinit, pat, spat, body)
        return self.wrap(binds, head + self.block(rest, env2, k))

    def try_(self, s, rest, env, k):
        """try: u = lookup_unit(n)  except InvalidPrefixError: <raise>"""
        if s.orelse or s.finalbody or len(s.handlers) != 1 or len(s.body) != 1:
            raise Untranslatable("try statement shape")
        h, a = s.handlers[0], s.body[0]
        if not (isinstance(h.type, ast.Name) and h.type.id == "InvalidPrefixError" and h.name is None):
            raise Untranslatable("except clause")
        if not (isinstance(a, ast.Assign) and len(a.targets) == 1 and isinstance(a.targets[0], ast.Name)
                and isinstance(a.value, ast.Call) and isinstance(a.value.func, ast.Name) and not a.value.keywords
                and len(a.value.args) == 1):
            raise Untranslatable("try body")
        fn = a.value.func.id
        fty, ftext = self.lookup(fn, env)
        if fty != "lkfun":
            raise Untranslatable("try around a call of %s" % fn)
        if self.mode == "pure":
            raise MonadicNeeded()
        if not terminates(h.body):
            raise Untranslatable("handler that falls through")
        self.binds = []
        arg, _ = self.expr(a.value.args[0], env, "N")
        if self.binds:
            raise Untranslatable("argument of the guarded call")
        handler = self.block(list(h.body), env, self.dead)
        name = a.targets[0].id
        env2 = dict(env)
        env2[name] = (T_opt("unit"), self.var(name))
        body = self.block(rest, env2, k)
        return "match %s %s with\n| LkInvalidPrefix => %s\n| LkOk %s =>\n%s\nend" % (ftext, arg, handler, name, body)


# ------------------------------------------------------------------------------------------------ the C03/C04 file
# (source module, dotted name, Gallina name, parameter types, result type, may raise, declared locals, class type of a method)
SPECS = [
    ("units", "Vector.__eq__", "g_Vector_eq", ["vec", "vec"], "bool", False, {}),
    ("units", "Vector.__add__", "g_Vector_add", ["vec", "vec"], "vec", False, {}),
    ("units", "Vector.__mul__", "g_Vector_mul", ["vec", "int"], "vec", False, {}),
    ("units", "Vector.__rmul__", "g_Vector_rmul", ["vec", "int"], "vec", False, {}),
    ("units", "Vector.__neg__", "g_Vector_neg", ["vec"], "vec", False, {}),
    ("units", "QuantityVector.__mul__", "g_QuantityVector_mul", ["qv", "qv"], "qv", False, {}),
    ("units", "QuantityVector.__pow__", "g_QuantityVector_pow", ["qv", "int"], "qv", False, {}),
    ("units", "QuantityVector.__truediv__", "g_QuantityVector_truediv", ["qv", "qv"], "qv", False, {}),
    ("units", "QuantityVector.__eq__", "g_QuantityVector_eq", ["qv", "qv"], "bool", False, {}),
    ("units", "QuantitySpace.get_zero", "g_QuantitySpace_get_zero", ["qspace"], "qv", False, {}),
    ("types", "simplify_type", "g_simplify_type", ["qval"], "qval", False, {}),
]
SPECS_EVAL = [
    ("eval", "compose_units", "g_compose_units", [SIG_T], T_tuple("qv", "num", "num"), True, {}),
    ("eval", "make_quantity", "g_make_quantity", ["qval", SIG_T], "qval", True, {}),
    ("eval", "convert_quantity", "g_convert_quantity", ["qval", SIG_T], "qval", True, {}),
]
COMBINER_T = T_opt(T_fun(["qv", "qv"], "qv", False))
QOP_FREE = [("name", "str"), ("quantity_vector_combiner", COMBINER_T), ("wrap_in_quantity", "bool")]
SPECS_QOP = [
    ("functions", "register_quantities_op.f", "g_quantities_op_f", ["quantity", "quantity"], "qval", True, {}),
    ("functions", "register_quantities_op.left_is_number", "g_quantities_op_left_is_number", ["num", "quantity"], "qval", True, {}),
    ("functions", "register_quantities_op.right_is_number", "g_quantities_op_right_is_number", ["quantity", "num"], "qval", True, {}),
]
KIND_PAT = {"Quantity": ("VQ", "quantity"), "Number": ("VN", "num")}

PREAMBLE = """From Coq Require Import List String ZArith QArith Bool.
From Ka Require Import Model.Qty.
Import ListNotations.
Local Open Scope Z_scope.

(* ---- the fixed terms of the construct mapping *)
Notation unit_t := Qty.unit (only parsing).
Definition g_tuple_eq (a b : list Z) : bool := if list_eq_dec Z.eq_dec a b then true else false.
Definition g_num_eq (a b : num) : bool := Qeqb (toQ a) (toQ b).
Record g_quantity := g_Quantity { g_mag : num; g_qv : dimvec }.
Definition g_q2v (q : g_quantity) : qval := VQ (g_mag q) (g_qv q).
Inductive g_lkres := LkOk (u : option unit_t) | LkInvalidPrefix.
Fixpoint g_for_each {A S : Type} (l : list A) (s : S) (f : A -> S -> res S) : res S :=
  match l with
  | [] => Ok s
  | x :: r => do s' <- f x s; g_for_each r s' f
  end.
Definition g_num_dispatch (name : string) (a b : num) : res num :=
  if String.eqb name "+" then n_add a b else if String.eqb name "-" then n_sub a b
  else if String.eqb name "*" then n_mul a b else if String.eqb name "/" then n_div a b
  else if String.eqb name "%" then n_mod a b else if String.eqb name "^" then n_pow a b
  else if String.eqb name "<" then n_lt a b else if String.eqb name "<=" then n_le a b
  else if String.eqb name "==" then n_eq a b else if String.eqb name "!=" then n_ne a b
  else if String.eqb name ">" then n_gt a b else if String.eqb name ">=" then n_ge a b
  else Raise UnknownFunctionError.

(* ---- translated definitions *)
"""


class Unit:
    def __init__(self, srcdir):
        self.tree = {}
        for m in ("units", "types", "eval", "functions"):
            self.tree[m] = ast.parse(open(os.path.join(srcdir, "ka", m + ".py"), encoding="utf-8").read())
        self.methods = {}       # (type, python method name) -> (gname, argtypes, ret, monadic)
        self.funcs = {}         # python function name -> the same
        self.out = []
        self.failed = {}
        self.defined_dunders = set()
        for cname, ty in CLASS_TYPE.items():
            try:
                node, _ = find_def(self.tree["units" if cname != "Quantity" else "types"], cname)
            except Untranslatable:
                continue
            for n in node.body:
                if isinstance(n, ast.FunctionDef):
                    self.defined_dunders.add((ty, n.name))
                elif not (isinstance(n, ast.Expr) and isinstance(n.value, ast.Constant)) and not isinstance(n, (ast.Assign, ast.Pass)):
                    self.defined_dunders.add((ty, "?"))
        self._is_number_ok = None
        self._checked = {}

    def check_ctor(self, cname):
        """Cls(a, b) is read as the record of its fields: __init__(self, a, b) must still be `self.a = a; self.b = b`
        (assert statements aside)"""
        key = ("ctor", cname)
        if key not in self._checked:
            fields = {"Vector": ["xs"], "QuantityVector": ["v", "names"], "QuantitySpace": ["base_units"], "Quantity": ["mag", "qv"]}[cname]
            why = None
            try:
                node, _ = find_def(self.tree["types" if cname == "Quantity" else "units"], cname + ".__init__")
                ps = check_plain_args(node)
                body = [b for b in strip_doc(node.body) if not isinstance(b, ast.Assert)]
                want = [ast.dump(ast.parse("self.%s = %s" % (f, f)).body[0]) for f in fields]
                if ps != ["self"] + fields or node.args.defaults or [ast.dump(b) for b in body] != want:
                    why = "%s.__init__ no longer stores its arguments %s in the fields of the same names" % (cname, fields)
                cls, _ = find_def(self.tree["types" if cname == "Quantity" else "units"], cname)
                if cls.bases or cls.keywords or cls.decorator_list:
                    why = "class %s has bases or decorators" % cname
                if any(isinstance(b, ast.FunctionDef) and b.name in ("__new__", "__getattr__", "__getattribute__", "__setattr__") for b in cls.body):
                    why = "class %s customises attribute access" % cname
            except Untranslatable as x:
                why = str(x)
            self._checked[key] = why
        if self._checked[key]:
            raise Untranslatable(self._checked[key])

    def check_global(self, module, name):
        """a module global read by a translated function: imported unchanged from .units (or defined there once)"""
        key = ("global", module, name)
        if key not in self._checked:
            why = None
            tree = self.tree[module]
            stores = [s for s in ast.walk(tree) if isinstance(s, ast.Name) and isinstance(s.ctx, ast.Store) and s.id == name]
            imported = [s for s in tree.body if isinstance(s, ast.ImportFrom) and any((a.asname or a.name) == name for a in s.names)]
            if module != "units":
                if stores or len(imported) != 1 or imported[0].module != "units" or imported[0].level != 1 \
                        or not any(a.name == name and a.asname is None for a in imported[0].names):
                    why = "%s.py does not simply import %s from .units" % (module, name)
            if why is None and name == "QSPACE":
                ustores = [s for s in self.tree["units"].body if isinstance(s, ast.Assign)
                           and any(isinstance(t, ast.Name) and t.id == "QSPACE" for t in s.targets)]
                allstores = [s for s in ast.walk(self.tree["units"]) if isinstance(s, ast.Name) and isinstance(s.ctx, ast.Store) and s.id == "QSPACE"]
                if len(ustores) != 1 or len(allstores) != 1 or not (
                        isinstance(ustores[0].value, ast.Call) and isinstance(ustores[0].value.func, ast.Name)
                        and ustores[0].value.func.id == "QuantitySpace"):
                    why = "QSPACE is not assigned once as QuantitySpace(..) in units.py"
            self._checked[key] = why
        if self._checked[key]:
            raise Untranslatable(self._checked[key])

    def check_is_number(self):
        """types.is_number must still be `return isinstance(x, numbers.Number)` (it is inlined)"""
        if self._is_number_ok is None:
            try:
                node, _ = find_def(self.tree["types"], "is_number")
                ps = check_plain_args(node)
                body = strip_doc(node.body)
                ok = (len(ps) == 1 and not node.args.defaults and len(body) == 1 and isinstance(body[0], ast.Return)
                      and ast.dump(body[0].value) == ast.dump(ast.parse("isinstance(%s, numbers.Number)" % ps[0], mode="eval").body))
            except Untranslatable:
                ok = False
            self._is_number_ok = ok
        if not self._is_number_ok:
            raise Untranslatable("types.is_number is no longer `return isinstance(x, numbers.Number)`")
        # and eval.py must import that one
        if not any(isinstance(s, ast.ImportFrom) and s.module == "types" and s.level == 1
                   and any(a.name == "is_number" and a.asname is None for a in s.names) for s in self.tree["eval"].body):
            raise Untranslatable("eval.py does not import is_number from .types")

    def emit_comment(self, gname, why):
        self.failed[gname] = why
        self.out.append("(* UNTRANSLATABLE %s: %s *)\n" % (gname, clean(why)))

    def translate_fn(self, spec, free=(), globals_=(), allow_guard=()):
        module, qual, gname, ptypes, ret, monadic, locals_decl = spec
        try:
            node, outer = find_def(self.tree[module], qual, allow_guard)
            if not isinstance(node, ast.FunctionDef):
                raise Untranslatable("%s is not a function" % qual)
            pnames = check_plain_args(node)
            if node.args.defaults:
                raise Untranslatable("default values of %s" % qual)
            if len(pnames) != len(ptypes):
                raise Untranslatable("%s has %d parameters, declared %d" % (qual, len(pnames), len(ptypes)))
            for n in ast.walk(node):
                if isinstance(n, (ast.Global, ast.Nonlocal, ast.FunctionDef, ast.AsyncFunctionDef, ast.ClassDef, ast.Yield,
                                  ast.YieldFrom, ast.Await, ast.NamedExpr)) and n is not node:
                    raise Untranslatable("%s inside %s" % (type(n).__name__, qual))
            locals_decl = dict(locals_decl)
            return self._translate_body(spec, node, outer, pnames, locals_decl, free, globals_)
        except MonadicNeeded:
            self.emit_comment(gname, "%s can raise but is declared pure" % qual)
        except Untranslatable as x:
            self.emit_comment(gname, "%s: %s" % (qual, x))
        return False

    def _translate_body(self, spec, node, outer, pnames, locals_decl, free, globals_):
        module, qual, gname, ptypes, ret, monadic, _ = spec
        for attempt in range(8):
            try:
                return self._translate_once(spec, node, outer, pnames, locals_decl, free, globals_)
            except Retype as r:
                if r.var in locals_decl:
                    raise Untranslatable("type of %s" % r.var)
                locals_decl[r.var] = "num"
        raise Untranslatable("types of the local variables of %s" % qual)

    def _translate_once(self, spec, node, outer, pnames, locals_decl, free, globals_):
        module, qual, gname, ptypes, ret, monadic, _ = spec
        if True:
            fn = Fn(self, ret, monadic, locals_decl)
            env = {}
            for v, t in list(globals_) + list(free):
                env[v] = (t, v)
            for v, t in globals_:
                if v in loaded_names(node.body):
                    self.check_global(module, v)
            # a free variable must really be a parameter of the enclosing function, not rebound inside
            outer_params = [a.arg for o in outer for a in o.args.args]
            assigned = assigned_names(node.body)
            for v, _ in free:
                if v not in outer_params or v in assigned or v in pnames:
                    raise Untranslatable("%s is not a free variable of %s" % (v, qual))
            for o in outer:
                if any(v in assigned_names([x for x in o.body if not isinstance(x, ast.FunctionDef)]) for v, _ in free):
                    raise Untranslatable("a free variable of %s is reassigned in %s" % (qual, o.name))
            binders = []
            for p, t in zip(pnames, ptypes):
                env[p] = (t, fn.var(p))
                binders.append("(%s : %s)" % (p, coq_ty(t)))
            body = fn.block(list(node.body), env, fn.dead)
            rty = ("res " if monadic else "") + coq_ty(ret)
            self.out.append("(* %s.py:%d  %s *)\nDefinition %s %s : %s :=\n%s.\n" % (module, node.lineno, qual, gname, " ".join(binders), rty, body))
            info = (gname, list(ptypes), ret, monadic)
            parts = qual.split(".")
            if len(parts) == 2 and parts[0] in CLASS_TYPE:
                self.methods[(CLASS_TYPE[parts[0]], parts[1])] = info
            else:
                self.funcs[parts[-1]] = info
            return True

    # ---------------------------------------------------------------- registrations of quantity operators
    def qop_dispatch(self):
        """the three register_function statements of register_quantities_op -> g_quantities_op_dispatch"""
        gname = "g_quantities_op_dispatch"
        try:
            node, _ = find_def(self.tree["functions"], "register_quantities_op")
            arms, seen = [], set()
            for s in strip_doc(node.body):
                if isinstance(s, ast.FunctionDef):
                    continue
                if not (isinstance(s, ast.Expr) and isinstance(s.value, ast.Call) and isinstance(s.value.func, ast.Name)
                        and s.value.func.id == "register_function" and not s.value.keywords and len(s.value.args) == 3):
                    raise Untranslatable("statement at line %d of register_quantities_op" % s.lineno)
                f, nm, sig = s.value.args
                if not (isinstance(nm, ast.Name) and nm.id == "name"):
                    raise Untranslatable("registered under something else than `name` (line %d)" % s.lineno)
                if not (isinstance(f, ast.Name) and f.id in self.funcs and f.id in ("f", "left_is_number", "right_is_number")):
                    raise Untranslatable("registered function at line %d is not a translated closure" % s.lineno)
                if not (isinstance(sig, ast.Tuple) and len(sig.elts) == 2 and all(isinstance(x, ast.Name) and x.id in KIND_PAT for x in sig.elts)):
                    raise Untranslatable("signature at line %d" % s.lineno)
                kinds = tuple(x.id for x in sig.elts)
                if kinds in seen:
                    raise Untranslatable("two registrations for %s" % (kinds,))
                seen.add(kinds)
                info = self.funcs[f.id]
                if [KIND_PAT[kd][1] for kd in kinds] != info[1]:
                    raise Untranslatable("%s registered for %s but its parameters are declared %s" % (f.id, kinds, info[1]))
                pats, args = [], []
                for i, kd in enumerate(kinds):
                    if kd == "Quantity":
                        pats.append("VQ m%d d%d" % (i, i))
                        args.append("(g_Quantity m%d d%d)" % (i, i))
                    else:
                        pats.append("VN n%d" % i)
                        args.append("n%d" % i)
                arms.append("  | %s => Some (%s %s)   (* line %d *)" % (", ".join(pats), info[0], " ".join(args), s.lineno))
            if not arms:
                raise Untranslatable("no registration in register_quantities_op")
            self.check_register_function()
            self.out.append("(* functions.py:%d  the register_function statements of register_quantities_op *)\n"
                            "Definition %s (a b : qval) : option (res qval) :=\n  match a, b with\n%s\n  | _, _ => None\n  end.\n"
                            % (node.lineno, gname, "\n".join(arms)))
            return True
        except Untranslatable as x:
            self.emit_comment(gname, x)
            return False

    def check_register_function(self):
        node, _ = find_def(self.tree["functions"], "register_function")
        ps = [a.arg for a in node.args.args][:3]
        if ps != ["f", "name", "arg_types"]:
            raise Untranslatable("register_function parameters %s" % ps)
        for n in ast.walk(node):
            if isinstance(n, ast.Call) and isinstance(n.func, ast.Name) and n.func.id == "FunctionHeader":
                if len(n.args) >= 3 and isinstance(n.args[0], ast.Name) and n.args[0].id == "name" \
                        and isinstance(n.args[1], ast.Name) and n.args[1].id == "f" \
                        and isinstance(n.args[2], ast.Call) and isinstance(n.args[2].func, ast.Name) \
                        and n.args[2].func.id == "FunctionSignature" and n.args[2].args \
                        and isinstance(n.args[2].args[0], ast.Name) and n.args[2].args[0].id == "arg_types":
                    return
        raise Untranslatable("register_function no longer builds FunctionHeader(name, f, FunctionSignature(arg_types, ..))")

    def qop_table(self):
        """module-level calls of register_quantities_op -> g_quantities_ops"""
        gname = "g_quantities_ops"
        try:
            tree = self.tree["functions"]
            node, _ = find_def(tree, "register_quantities_op")
            params = check_plain_args(node)
            if params != [v for v, _ in QOP_FREE]:
                raise Untranslatable("parameters of register_quantities_op are %s" % params)
            defaults = dict(zip(params[len(params) - len(node.args.defaults):], node.args.defaults))
            fn = Fn(self, None, False)
            fn.mode = "pure"
            rows = []

            def row(call, env):
                if not (isinstance(call, ast.Call) and isinstance(call.func, ast.Name) and call.func.id == "register_quantities_op"):
                    raise Untranslatable("statement at line %d" % call.lineno)
                given = {}
                for p, a in zip(params, call.args):
                    given[p] = a
                if len(call.args) > len(params):
                    raise Untranslatable("arity at line %d" % call.lineno)
                for kw in call.keywords:
                    if kw.arg not in params or kw.arg in given:
                        raise Untranslatable("keyword %s at line %d" % (kw.arg, call.lineno))
                    given[kw.arg] = kw.value
                cells = []
                for p, t in QOP_FREE:
                    a = given.get(p, defaults.get(p))
                    if a is None:
                        raise Untranslatable("no value for %s at line %d" % (p, call.lineno))
                    if p == "name":
                        if isinstance(a, ast.Name) and a.id in env:
                            cells.append(coq_str(env[a.id]))
                        elif isinstance(a, ast.Constant) and isinstance(a.value, str):
                            cells.append(coq_str(a.value))
                        else:
                            raise Untranslatable("operator name at line %d" % call.lineno)
                    elif p == "quantity_vector_combiner":
                        if isinstance(a, ast.Constant) and a.value is None:
                            cells.append("None")
                        elif isinstance(a, ast.Lambda):
                            cells.append("Some " + fn.lambda_(a, {}, t[1]))
                        else:
                            raise Untranslatable("combiner at line %d" % call.lineno)
                    else:
                        if isinstance(a, ast.Constant) and isinstance(a.value, bool):
                            cells.append("true" if a.value else "false")
                        else:
                            raise Untranslatable("wrap_in_quantity at line %d" % call.lineno)
                rows.append("(%s, %s, %s)   (* line %d *)" % (cells[0], cells[1], cells[2], call.lineno))

            for s in tree.body:
                if s is node:
                    continue
                mentions = any(isinstance(n, ast.Name) and n.id == "register_quantities_op" for n in ast.walk(s))
                if not mentions:
                    continue
                if isinstance(s, ast.Expr):
                    row(s.value, {})
                elif isinstance(s, ast.For) and not s.orelse and isinstance(s.target, ast.Name) and isinstance(s.iter, (ast.List, ast.Tuple)) \
                        and all(isinstance(c, ast.Constant) and isinstance(c.value, str) for c in s.iter.elts) \
                        and len(s.body) == 1 and isinstance(s.body[0], ast.Expr):
                    for c in s.iter.elts:
                        row(s.body[0].value, {s.target.id: c.value})
                else:
                    raise Untranslatable("register_quantities_op is used at line %d in a form that is not a plain registration" % s.lineno)
            # rows end with a comment: put the separators before it
            lines = []
            for i, r in enumerate(rows):
                head, _, tail = r.partition("   (*")
                lines.append("  " + head + (";" if i + 1 < len(rows) else "") + "   (*" + tail)
            self.out.append("(* functions.py: the module-level calls of register_quantities_op, in source order:\n"
                            "   (name, quantity_vector_combiner, wrap_in_quantity) *)\n"
                            "Definition %s : list (string * option (dimvec -> dimvec -> dimvec) * bool) := [\n%s\n].\n" % (gname, "\n".join(lines)))
            return True
        except (Untranslatable, MonadicNeeded) as x:
            self.emit_comment(gname, x)
            return False


def gen(dump):
    u = Unit(C.SRC)
    L = ["(* GENERATED by harness/trans_units.py from src/ka/units.py, types.py, eval.py, functions.py by AST translation — do not edit",
         MAPPING.rstrip("\n"), "*)", PREAMBLE]
    for spec in SPECS:
        u.translate_fn(spec)
    u.out.append("Section Eval.\nContext {N : Type} (lookup_unit : N -> g_lkres) (QSPACE : list string).\n")
    glob = [("lookup_unit", "lkfun"), ("QSPACE", "qspace")]
    for spec in SPECS_EVAL:
        u.translate_fn(spec, globals_=glob)
    u.out.append("End Eval.\n")
    u.out.append("Section register_quantities_op.\nContext (QSPACE : list string).\n"
                 "Context (name : string) (quantity_vector_combiner : option (dimvec -> dimvec -> dimvec)) (wrap_in_quantity : bool).\n")
    for spec in SPECS_QOP:
        u.translate_fn(spec, free=QOP_FREE, globals_=[("QSPACE", "qspace")])
    u.qop_dispatch()
    u.out.append("End register_quantities_op.\n")
    u.qop_table()
    u.out.append("Section register_numeric_function.\nContext (f : num -> res num).\n")
    u.translate_fn(("functions", "register_numeric_function.quantity_function", "g_quantity_function", ["quantity"], "quantity", True, {}),
                   free=[("f", T_fun(["num"], "num", True))], allow_guard=("quantity_function",))
    u.out.append("End register_numeric_function.\n")
    return "\n".join(L) + "\n" + "\n".join(u.out)


# ------------------------------------------------------------------------------------------------ the C13 file
PREAMBLE_LOOKUP = """From Coq Require Import List String ZArith QArith Bool.
From Ka Require Import Model.Units.
Import ListNotations.

(* ---- the fixed terms of the construct mapping *)
(* a number of the unit tables: (only int/Fraction arithmetic produced it, exact value) *)
Definition g_tnum := (bool * Q)%type.
Definition g_tn (kind : nat) (q : Q) : g_tnum := (kind_exact kind, q).
Definition g_tn_mul (a b : g_tnum) : g_tnum := (fst a && fst b, snd a * snd b).
Definition g_tn_nonzero (a : g_tnum) : bool := negb (q_is_zero (snd a)).
Inductive g_lookup := GNone | GInvalidPrefix | GMalformed | GUnit (i : nat) (m : g_tnum).
(* a registered unit returned as it is *)
Definition g_plain (R : registry) (i : nat) : g_lookup :=
  match nth_error (r_units R) i with
  | Some u => GUnit i (g_tn (u_mkind u) (u_mult u))
  | None => GMalformed
  end.
(* for x in l: <body that may return> ; return d *)
Fixpoint g_first {A B : Type} (l : list A) (f : A -> option B) (d : B) : B :=
  match l with
  | [] => d
  | x :: r => match f x with Some y => y | None => g_first r f d end
  end.

Section Lookup.
Context (R : registry).

(* ---- translated definitions *)
"""

UNIT_FIELDS = ["symbol", "singular_name", "plural_name", "quantities", "quantity_vector", "multiple", "offset"]


class LookupTr:
    """apply_prefix and lookup_unit (units.py).  Types: str, prefix, regunit (index of a registered unit; NAME is bound to
    the index and NAME__rec to its record), tnum, bool."""
    TABLES = {"NAME_TO_UNIT": "(r_names R)", "SYMBOL_TO_UNIT": "(r_symbols R)"}
    PREFIX_ATTRS = {"name_prefix": ("str", "(p_name %s)"), "symbol_prefix": ("str", "(p_symbol %s)"),
                    "multiplier": ("tnum", "(g_tn (p_kind %s) (p_mult %s))")}
    UNIT_ATTRS = {"multiple": ("tnum", "(g_tn (u_mkind %s__rec) (u_mult %s__rec))"),
                  "offset": ("tnum", "(g_tn (u_okind %s__rec) (u_offset %s__rec))")}

    def __init__(self, tree, funcs):
        self.tree = tree
        self.funcs = funcs          # translated functions callable in return position: name -> (gname, [types])
        self.n = 0

    def var(self, name):
        if name in RESERVED or name.startswith("g_") or (name[:1] == "v" and name[1:].isdigit()) or "__" in name \
                or not name.isidentifier() or not name.isascii():
            raise Untranslatable("variable name %s clashes with the generated vocabulary" % name)
        return name

    def fresh(self):
        self.n += 1
        return "v%d" % self.n

    # ---- expressions
    def expr(self, e, env, subst=None):
        """subst: ast.dump of a D[k] expression -> (text, type) it is replaced by"""
        if subst and ast.dump(e) in subst:
            return subst[ast.dump(e)]
        if isinstance(e, ast.Name):
            if e.id not in env:
                raise Untranslatable("unbound name %s" % e.id)
            return e.id, env[e.id]
        if isinstance(e, ast.Constant) and isinstance(e.value, int) and not isinstance(e.value, bool):
            return str(e.value), "intlit"
        if isinstance(e, ast.Attribute):
            o, ot = self.expr(e.value, env, subst)
            if ot == "prefix" and e.attr in self.PREFIX_ATTRS:
                ty, fmt = self.PREFIX_ATTRS[e.attr]
                return fmt.replace("%s", o), ty
            if ot == "regunit" and e.attr in self.UNIT_ATTRS:
                if not isinstance(e.value, ast.Name):
                    raise Untranslatable("field of a unit that is not a variable")
                ty, fmt = self.UNIT_ATTRS[e.attr]
                return fmt.replace("%s", o), ty
            raise Untranslatable("attribute .%s of a value of type %s" % (e.attr, ot))
        if isinstance(e, ast.Subscript):
            if isinstance(e.slice, ast.Slice):
                sl = e.slice
                o, ot = self.expr(e.value, env, subst)
                if ot != "str" or sl.upper is not None or sl.step is not None or sl.lower is None:
                    raise Untranslatable("slice form")
                lo = sl.lower
                if not (isinstance(lo, ast.Call) and isinstance(lo.func, ast.Name) and lo.func.id == "len" and "len" not in env
                        and len(lo.args) == 1 and not lo.keywords):
                    raise Untranslatable("slice bound that is not len(..)")
                a, at = self.expr(lo.args[0], env, subst)
                if at != "str":
                    raise Untranslatable("len of %s" % at)
                return "(drop (String.length %s) %s)" % (a, o), "str"
            raise Untranslatable("table access outside the guarded form `k in D` .. D[k]")
        if isinstance(e, ast.Call) and isinstance(e.func, ast.Attribute) and e.func.attr == "startswith" \
                and len(e.args) == 1 and not e.keywords:
            o, ot = self.expr(e.func.value, env, subst)
            a, at = self.expr(e.args[0], env, subst)
            if ot != "str" or at != "str":
                raise Untranslatable("startswith on %s, %s" % (ot, at))
            return "(String.prefix %s %s)" % (a, o), "bool"
        if isinstance(e, ast.BinOp) and isinstance(e.op, ast.Mult):
            a, at = self.expr(e.left, env, subst)
            b, bt = self.expr(e.right, env, subst)
            if at == "tnum" and bt == "tnum":
                return "(g_tn_mul %s %s)" % (a, b), "tnum"
            raise Untranslatable("* on %s and %s" % (at, bt))
        if isinstance(e, ast.Compare) and len(e.ops) == 1 and isinstance(e.ops[0], ast.NotEq):
            a, at = self.expr(e.left, env, subst)
            c = e.comparators[0]
            if at == "tnum" and isinstance(c, ast.Constant) and c.value == 0 and not isinstance(c.value, bool):
                return "(g_tn_nonzero %s)" % a, "bool"
            raise Untranslatable("!= form")
        if isinstance(e, ast.BoolOp) and isinstance(e.op, ast.And):
            parts = [self.expr(v, env, subst) for v in e.values]
            if any(t != "bool" for _, t in parts):
                raise Untranslatable("`and` of non-booleans")
            return "(" + " && ".join(t for t, _ in parts) + ")", "bool"
        if isinstance(e, ast.UnaryOp) and isinstance(e.op, ast.Not):
            a, at = self.expr(e.operand, env, subst)
            if at != "bool":
                raise Untranslatable("not of %s" % at)
            return "(negb %s)" % a, "bool"
        raise Untranslatable(ast.dump(e)[:80])

    def membership(self, e, env):
        """`k in D` -> (k text, D text, D name, dump of D[k]) or None"""
        if isinstance(e, ast.Compare) and len(e.ops) == 1 and isinstance(e.ops[0], ast.In) \
                and isinstance(e.comparators[0], ast.Name) and e.comparators[0].id in self.TABLES \
                and e.comparators[0].id not in env:
            k, kt = self.expr(e.left, env)
            if kt != "str":
                raise Untranslatable("key of type %s" % kt)
            d = e.comparators[0].id
            sub = ast.Subscript(value=ast.Name(id=d, ctx=ast.Load()), slice=e.left, ctx=ast.Load())
            return k, self.TABLES[d], d, ast.dump(sub)
        return None

    def result(self, e, env, subst):
        """the value of `return e` as a g_lookup"""
        if isinstance(e, ast.Constant) and e.value is None:
            return "GNone"
        if isinstance(e, ast.Call) and isinstance(e.func, ast.Name) and e.func.id in self.funcs and e.func.id not in env \
                and not e.keywords:
            gname, ptys = self.funcs[e.func.id]
            if len(ptys) != len(e.args):
                raise Untranslatable("arity of %s" % e.func.id)
            args = []
            for a, want in zip(e.args, ptys):
                t, ty = self.expr(a, env, subst)
                if ty != want:
                    raise Untranslatable("argument of type %s where %s is required" % (ty, want))
                args.append(t)
            return "(%s %s)" % (gname, " ".join(args))
        if isinstance(e, ast.Call) and isinstance(e.func, ast.Name) and e.func.id == "Unit" and "Unit" not in env and not e.keywords:
            if len(e.args) != len(UNIT_FIELDS):
                raise Untranslatable("Unit arity")
            base = None
            mult = None
            for a, f in zip(e.args, UNIT_FIELDS):
                if f == "multiple":
                    mult, mt = self.expr(a, env, subst)
                    if mt != "tnum":
                        raise Untranslatable("multiple of type %s" % mt)
                    continue
                if not (isinstance(a, ast.Attribute) and isinstance(a.value, ast.Name) and a.attr == f
                        and env.get(a.value.id) == "regunit"):
                    raise Untranslatable("Unit(..): field %s is not copied from a registered unit" % f)
                if base is not None and base != a.value.id:
                    raise Untranslatable("Unit(..): fields copied from two units")
                base = a.value.id
            return "(GUnit %s %s)" % (base, mult)
        t, ty = self.expr(e, env, subst)
        if ty == "regunit":
            return "(g_plain R %s)" % t
        raise Untranslatable("return of a value of type %s" % ty)

    # ---- statements; k = text of what happens when the block falls through; wrap = how a returned g_lookup is delivered
    def block(self, stmts, env, k, wrap):
        if not stmts:
            if k is None:
                raise Untranslatable("fall-through (implicit return None)")
            return k
        s, rest = stmts[0], stmts[1:]
        if isinstance(s, ast.Expr) and isinstance(s.value, ast.Constant) and isinstance(s.value.value, str):
            return self.block(rest, env, k, wrap)
        if isinstance(s, ast.Return):
            if s.value is None:
                raise Untranslatable("return without a value")
            return wrap(self.result(s.value, env, None))
        if isinstance(s, ast.Raise):
            x = s.exc
            if not (s.cause is None and isinstance(x, ast.Call) and isinstance(x.func, ast.Name) and x.func.id == "InvalidPrefixError"
                    and not x.args and not x.keywords):
                raise Untranslatable("raise form")
            return wrap("GInvalidPrefix")
        if isinstance(s, ast.Assign) and len(s.targets) == 1 and isinstance(s.targets[0], ast.Name):
            t, ty = self.expr(s.value, env)
            if ty not in ("str", "bool", "tnum"):
                raise Untranslatable("assignment of a value of type %s" % ty)
            env2 = dict(env)
            env2[self.var(s.targets[0].id)] = ty
            return "let %s := %s in\n%s" % (s.targets[0].id, t, self.block(rest, env2, k, wrap))
        if isinstance(s, ast.If):
            if s.orelse:
                raise Untranslatable("if .. else")
            if not terminates(s.body):
                raise Untranslatable("an if whose body falls through")
            conj = s.test.values if isinstance(s.test, ast.BoolOp) and isinstance(s.test.op, ast.And) else [s.test]
            mem = self.membership(conj[-1], env)
            if mem is None:
                c, ct = self.expr(s.test, env)
                if ct != "bool":
                    raise Untranslatable("condition of type %s" % ct)
                return "(if %s\nthen %s\nelse %s)" % (c, self.block(list(s.body), env, None, wrap), self.block(rest, env, k, wrap))
            key, table, dname, dsub = mem
            guards = []
            for g in conj[:-1]:
                if self.membership(g, env) is not None:
                    raise Untranslatable("two table tests in one condition")
                c, ct = self.expr(g, env)
                if ct != "bool":
                    raise Untranslatable("condition of type %s" % ct)
                guards.append(c)
            v = self.fresh()
            body = list(s.body)
            if len(body) != 1 or not isinstance(body[0], ast.Return) or body[0].value is None:
                raise Untranslatable("the branch guarded by a table test is not a single return")
            # the body may read D[k] (as the variable v); any other use of the table is refused by expr
            then = wrap(self.result(body[0].value, dict(env, **{v: "regunit"}), {dsub: (v, "regunit")}))
            scrut = "dict_get %s %s" % (key, table)
            if guards:
                scrut = "(if %s then %s else None)" % (" && ".join(guards) if len(guards) > 1 else guards[0], scrut)
            return "match %s with\n| Some %s => %s\n| None =>\n%s\nend" % (scrut, v, then, self.block(rest, env, k, wrap))
        if isinstance(s, ast.For):
            if s.orelse or not isinstance(s.target, ast.Name) or has_node(s.body, (ast.Break, ast.Continue, ast.For, ast.While)):
                raise Untranslatable("loop form")
            if not (isinstance(s.iter, ast.Name) and s.iter.id == "PREFIXES" and "PREFIXES" not in env):
                raise Untranslatable("loop over something else than PREFIXES")
            tail = strip_doc(rest)
            if len(tail) != 1 or not isinstance(tail[0], ast.Return) or tail[0].value is None:
                raise Untranslatable("the loop is not followed by a single return")
            env2 = dict(env)
            env2[self.var(s.target.id)] = "prefix"
            body = self.block(list(s.body), env2, "None", lambda t: "Some %s" % t)
            # variables assigned in the body are local to it: the final return must not read them
            if set(assigned_names(s.body) + [s.target.id]) & loaded_names(tail):
                raise Untranslatable("the final return reads a loop variable")
            return wrap("(g_first (r_prefixes R) (fun %s =>\n%s) %s)" % (s.target.id, body, self.result(tail[0].value, env, None)))
        raise Untranslatable("statement " + type(s).__name__)


def gen_lookup(dump):
    tree = ast.parse(open(os.path.join(C.SRC, "ka", "units.py"), encoding="utf-8").read())
    out = []
    funcs = {}

    def check_tables():
        # the tables are module-level dicts / lists filled by register_unit: the dump (Gen/GenUnits.v) reads them live;
        # here only: the names are not rebound inside the translated functions
        for nm in ("NAME_TO_UNIT", "SYMBOL_TO_UNIT", "PREFIXES"):
            if not any(isinstance(s, ast.Assign) and any(isinstance(t, ast.Name) and t.id == nm for t in s.targets) for s in tree.body):
                raise Untranslatable("no module-level table %s" % nm)

    def check_unit_ctor():
        node, _ = find_def(tree, "Unit.__init__")
        ps = check_plain_args(node)
        body = [b for b in strip_doc(node.body) if not isinstance(b, ast.Assert)]
        want = [ast.dump(ast.parse("self.%s = %s" % (f, f)).body[0]) for f in UNIT_FIELDS]
        if ps != ["self"] + UNIT_FIELDS or node.args.defaults or [ast.dump(b) for b in body] != want:
            raise Untranslatable("Unit.__init__ no longer stores its arguments %s in the fields of the same names" % UNIT_FIELDS)

    def emit(qual, gname, ptypes):
        try:
            check_tables()
            check_unit_ctor()
            node, _ = find_def(tree, qual)
            pnames = check_plain_args(node)
            if node.args.defaults or len(pnames) != len(ptypes):
                raise Untranslatable("parameters of %s" % qual)
            for n in ast.walk(node):
                if isinstance(n, (ast.Global, ast.Nonlocal, ast.FunctionDef, ast.Lambda, ast.ClassDef, ast.Yield, ast.YieldFrom,
                                  ast.NamedExpr, ast.Try, ast.With, ast.While)) and n is not node:
                    raise Untranslatable("%s inside %s" % (type(n).__name__, qual))
            tr = LookupTr(tree, dict(funcs))
            env, binders, derefs = {}, [], []
            for p, t in zip(pnames, ptypes):
                env[tr.var(p)] = t
                binders.append("(%s : %s)" % (p, {"str": "string", "prefix": "gprefix", "regunit": "nat"}[t]))
                if t == "regunit":
                    derefs.append(p)
            if set(assigned_names(node.body)) & set(pnames):
                raise Untranslatable("a parameter of %s is reassigned" % qual)
            body = tr.block(list(node.body), env, None, lambda t: t)
            for p in reversed(derefs):
                body = "match nth_error (r_units R) %s with\n| None => GMalformed\n| Some %s__rec =>\n%s\nend" % (p, p, body)
            out.append("(* units.py:%d  %s *)\nDefinition %s %s : g_lookup :=\n%s.\n" % (node.lineno, qual, gname, " ".join(binders), body))
            funcs[qual] = (gname, list(ptypes))
        except Untranslatable as x:
            out.append("(* UNTRANSLATABLE %s: %s: %s *)\n" % (gname, qual, clean(x)))

    emit("apply_prefix", "g_apply_prefix", ["prefix", "regunit"])
    emit("lookup_unit", "g_lookup_unit", ["str"])
    return "\n".join(["(* GENERATED by harness/trans_units.py from src/ka/units.py (apply_prefix, lookup_unit) by AST translation — do not edit",
                      MAPPING_LOOKUP.rstrip("\n"), "*)", PREAMBLE_LOOKUP]) + "\n".join(out) + "\nEnd Lookup.\n"


GENERATES = {"GenUnitsSrc.v": gen, "GenUnitsLookupSrc.v": gen_lookup}

if __name__ == "__main__":
    for fn, g in GENERATES.items():
        sys.stdout.write("(* ===== %s ===== *)\n" % fn)
        sys.stdout.write(g({}))
