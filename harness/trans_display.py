"""Translator plugin "display": the result-display code property C15 rests on -> coq/Gen/GenDisplaySrc.v, regenerated on
every run from the Python AST of the tree under check (C.SRC):
  ka/interpret.py  default_unit_format, display_result, stringify_result, precisionify_float, precisionify_frac, prettify_frac
  ka/units.py      Vector.__iter__, QuantityVector.prettified
  ka/types.py      Array.__len__, Instant.__str__   (and the field lists of Quantity, Array, Interval, Instant)
coq/GenFacts/DisplaySrcFacts.v proves the hand-written model (coq/Model/Display.v) equal to these definitions.

Fail-closed: a construct outside the subset below raises Untranslatable and the function gets NO definition (a comment
`(* UNTRANSLATABLE name: why *)` instead), and neither does any function that calls it.  Nothing is repaired or guessed:
operand order, comparison, constants, branch order, what is printed in which order are what the AST says.

The trusted construct mapping is the text of MAPPING plus the Gallina text of PRELUDE (both copied into the generated file)."""
import ast, os, re, sys
sys.path.insert(0, os.path.dirname(os.path.abspath(__file__)))
import common as C
from pytrans import Untranslatable

MAPPING = r"""
   TRUSTED CONSTRUCT MAPPING (everything else is checked by GenFacts/DisplaySrcFacts.v)

   values      a Python result value is a `pyval` (PRELUDE below): int PInt z, fractions.Fraction PFrac q, float PFloat x
               (x : pyfloat = the exact rational of the double, or negative zero), str PStr s, Quantity(mag, qv)
               PQuantity mag qv, Array(contents) PArray l, Interval(a, b) PInterval a b, Instant(dt) PInstant dt.
               bool, None, Plot, Combinatoric (resolved by reduce_result before display) are outside pyval.
               QuantityVector(v, names) is the record `qvec` (qv_v : list Z = the Vector's xs, qv_names : list string);
               a Vector is its tuple xs.  The field lists are read off the classes' __init__ (`self.f = f` only).
               Parameter kinds are DECLARED in harness/trans_display.py (DECL): Fraction -> Q, float -> pyfloat,
               bool -> bool, value -> pyval, QuantityVector -> qvec, a function parameter -> a Gallina function.
   precision   ka.config.get(ConfigProperties.PRECISION) is the section variable `p : Z` (read-only configuration).
   results     every translated function returns `res T` (Model/Prelude.v); `return e` is `Ok e`.
               display_result returns no value: its Gallina result is the TEXT IT WRITES to its `out` parameter
               (every print must name file=out, the recursive call must pass out on); the `out` parameter is dropped.
               Statements that write are sequenced  do a <- S1; do b <- REST; Ok (a ++ b).
   sequencing  every call of a translated function or of a primitive that may raise is bound with `do t <- call; ..`
               in source order (arguments left to right, operands left to right, statements top to bottom);
               `A if c else B` evaluates c, then only the chosen branch.
   isinstance  `if isinstance(X, C): A else: B` (X a name or attribute path of kind pyval; elif chains likewise) is
               `match X with <C's constructor> fields => A | _ => B end`; inside A, X.field is the bound field (for
               frac / float / str, X itself is the Q / pyfloat / string).  An if/elif chain testing ONE path against
               distinct classes is one match with one arm per class, in source order, the final else as `| _ =>`.  frac must be fractions.Fraction; Quantity,
               Array, Interval, Instant must be imported from .types; float, str the builtins (never rebound).
   print       print(a1, .., an, [end=E,] file=out [, **kw]) writes  str(a1) ++ " " ++ .. ++ str(an) ++ END  where END is
               E (nothing when E is the constant ""), or the `end` entry of kw, or nl (the newline) when neither is
               given.  `kw = dict() if c else dict(end=E)` is END := if c then nl else E.  sep= is not handled.
   str(x)      x : int show_Z x (Model/Prelude.v);  x : str itself;  x : Fraction py_str_frac x (PRELUDE: the model's
               frac_text "n/d", or just "n" when the denominator is 1);  x a value narrowed to a class with a translated
               __str__ (Instant): that method;  any other value: py_str x (PRELUDE: dispatch on the class; repr of a
               float and __str__ of Quantity / Array / Interval are `Raise Unmodelled`).  print(x) and f"{x}" use str(x).
   "{:." + str(E) + "g}"   bound to a name F and used only as F.format(x):  x : pyfloat  py_format_g E x  (the model's
               fmt_g; "-0" for negative zero);  x a Decimal quotient  py_dec_format_g E x  (the model's dec_fallback
               with the sign in front).  Any other spelling of the format string is untranslatable.
   float(f)    f : Fraction  py_float_of_frac f  (the model's float_of_Q: correctly rounded, Raise OverflowError beyond
               the double range; negative zero when a negative f rounds to zero).
   Decimal(n) / Decimal(d)   n, d : int  py_dec_div n d : res Q — the EXACT quotient (ZeroDivisionError for d = 0); the
               rounding to the 28 digits of the default context is part of py_dec_format_g (the model's dec_fallback
               does both; it is only valid, and only used, for quotients beyond the double range).
   with localcontext() as C: C.Emax, C.Emin = MAX_EMAX, MIN_EMIN; BODY      is BODY.  Accepted in exactly this shape
               (localcontext, MAX_EMAX, MIN_EMIN imported from decimal; C bound nowhere else and not used in BODY):
               the widened exponent range only removes the Overflow / Underflow traps of the default context
               (results beyond 10^999999), which the exact quotient of py_dec_div never had; precision (28 digits) and
               rounding (half-even), which dec_fallback models, are untouched.  Any other `with`, any other context
               attribute (prec, rounding, traps, ..), another order of the two assignments is untranslatable.
   try: A except OverflowError: B     match A with Raise OverflowError => B | other => other end
   numbers     int + - * on Z;  a // b  py_floordiv a b (ZeroDivisionError for b = 0, else Z.div: both floor);
               abs  Z.abs / Qabs;  f.numerator Qnum f;  f.denominator Zpos (Qden f);
               Fraction - int / Fraction - Fraction  Qred (a - b)  (Fraction arithmetic normalises);
               comparisons of ints  <? <=? =? (a > b is b <? a, != is negb =?);  with a Fraction operand
               Qltb / Qleb / Qeqb of Model/Num.v (an int operand through inject_Z).
   strings     a string constant is the Coq string (printable ASCII only);  s1 + s2  s1 ++ s2;  f"..{e}.." the
               concatenation of the constant pieces and str(e) (no format spec / conversion);
               SEP.join(E for T in ITER [if C])  do ts <- mapM (fun T => E) (filter (fun T => C) ITER); String.concat SEP ts
               (C may not call); zip(A, B) is `combine A B` (a Vector operand through its translated __iter__);
               len(x) of a tuple/list Z.of_nat (List.length x), of a value narrowed to Array its translated __len__;
               iter(x) of a tuple is x.
   for i, e in enumerate(L): BODY   (in display_result)  for_enum (fun i e => text of BODY) L : the texts in order.
   calls       f(args, k=v) of a translated function: `g_f` applied to the arguments in the callee's parameter order,
               defaults filled from the callee's def (constants True/False; a module-level function name);
               x.qv.prettified() / unit_format_fn(qv) likewise;  dt.isoformat()  py_isoformat dt (the model's iso_text).
   recursion   a function calling itself is a Fixpoint, structural on its first parameter.
"""

PRELUDE = r"""From Coq Require Import ZArith QArith Qabs Qreduction String List Ascii Bool.
From Ka Require Import Model.Display.
Import ListNotations.
Local Open Scope string_scope.

(* ---- PRELUDE: the Python values and primitives of the construct mapping (trusted) *)
Inductive pyfloat := PF (x : Q) | PNegZero.
Record pydatetime := mkdt { dt_y : Z; dt_mo : Z; dt_d : Z; dt_h : Z; dt_mi : Z; dt_s : Z; dt_us : Z; dt_tz : option Z }.
Record qvec := mkqv { qv_v : list Z; qv_names : list string }.
Inductive pyval :=
| PInt (z : Z) | PFrac (q : Q) | PFloat (x : pyfloat) | PStr (s : string)
| PQuantity (mag : pyval) (qv : qvec) | PArray (contents : list pyval)
| PInterval (a b : pyval) | PInstant (dt : pydatetime).

Definition py_str_frac (q : Q) : string :=
  if (Qden q =? 1)%positive then show_Z (Qnum q) else frac_text q.
Definition py_float_of_frac (q : Q) : res pyfloat :=
  match float_of_Q q with
  | None => Raise OverflowError
  | Some x => if Qeqb x 0 && Qltb q 0 then Ok PNegZero else Ok (PF x)
  end.
Definition py_format_g (P : Z) (x : pyfloat) : string :=
  match x with PF q => fmt_g P q | PNegZero => "-0" end.
Definition py_dec_div (a b : Z) : res Q :=
  if (b =? 0)%Z then Raise ZeroDivisionError else Ok (inject_Z a / inject_Z b)%Q.
Definition py_dec_format_g (P : Z) (x : Q) : string :=
  if Qltb x 0 then "-" ++ dec_fallback P (- x)%Q else dec_fallback P x.
Definition py_floordiv (a b : Z) : res Z :=
  if (b =? 0)%Z then Raise ZeroDivisionError else Ok (a / b)%Z.
Definition py_isoformat (dt : pydatetime) : string :=
  iso_text (dt_y dt) (dt_mo dt) (dt_d dt) (dt_h dt) (dt_mi dt) (dt_s dt) (dt_us dt) (dt_tz dt).

Section MapM.
  Context {A B : Type}.
  Variable f : A -> res B.
  Fixpoint mapM (l : list A) : res (list B) :=
    match l with
    | [] => Ok []
    | x :: r => do y <- f x; do ys <- mapM r; Ok (y :: ys)
    end.
End MapM.
Section ForEnum.
  Context {A : Type}.
  Variable body : Z -> A -> res string.
  Fixpoint for_enum_from (i : Z) (l : list A) : res string :=
    match l with
    | [] => Ok ""
    | x :: r => do t <- body i x; do ts <- for_enum_from (i + 1)%Z r; Ok (t ++ ts)
    end.
End ForEnum.
Definition for_enum {A : Type} (body : Z -> A -> res string) (l : list A) : res string := for_enum_from body 0%Z l.

Section Src.
Variable p : Z.

(* ---- translated functions *)
"""

PY_STR = """(* str(x) / print(x) of a value by its class (construct mapping) *)
Definition py_str (r : pyval) : res string :=
  match r with
  | PInt z => Ok (show_Z z)
  | PFrac q => Ok (py_str_frac q)
  | PStr s => Ok s
  | PInstant dt => g_Instant___str__ dt
  | _ => Raise Unmodelled
  end."""

# kinds:  Z int, Q Fraction, F pyfloat, S str, B bool, V pyval, QV qvec, VEC Vector (list Z), LZ / LS / LV tuples,
#         DT datetime, DZ Decimal of an int, DQ Decimal quotient, OUT the stream, FMT / KW (symbolic), ("FN", args, ret)
COQ_TY = {"Z": "Z", "Q": "Q", "F": "pyfloat", "S": "string", "B": "bool", "V": "pyval", "QV": "qvec", "VEC": "(list Z)",
          "LZ": "(list Z)", "LS": "(list string)", "LV": "(list pyval)", "DT": "pydatetime"}
ELEM = {"LZ": "Z", "LS": "S", "LV": "V"}
WRAP = {"Z": "PInt", "Q": "PFrac", "F": "PFloat", "S": "PStr"}
FN_QV_S = ("FN", ("QV",), "S")

# class id -> (constructor, fields (name, kind) in constructor order) or (constructor, primitive kind, suffix)
OBJ_CLASSES = {
    "Quantity": ("PQuantity", [("mag", "V"), ("qv", "QV")]),
    "Array": ("PArray", [("contents", "LV")]),
    "Interval": ("PInterval", [("a", "V"), ("b", "V")]),
    "Instant": ("PInstant", [("dt", "DT")]),
}
PRIM_CLASSES = {"frac": ("PFrac", "Q", "frac"), "float": ("PFloat", "F", "float"), "str": ("PStr", "S", "str")}
# methods of narrowed objects reached through builtins
CLASS_METHODS = {("Array", "len"): "types:Array.__len__", ("Instant", "str"): "types:Instant.__str__"}
KIND_METHODS = {("QV", "prettified"): "units:QuantityVector.prettified"}

DECL = {
    "units:Vector.__iter__": dict(self="VEC", params=[], ret="LZ"),
    "units:QuantityVector.prettified": dict(self="QV", params=[], ret="S"),
    "types:Array.__len__": dict(self=("OBJ", "Array"), params=[], ret="Z"),
    "types:Instant.__str__": dict(self=("OBJ", "Instant"), params=[], ret="S"),
    "interpret:default_unit_format": dict(params=[("qv", "QV")], ret="S"),
    "interpret:precisionify_float": dict(params=[("f", "F")], ret="S"),
    "interpret:precisionify_frac": dict(params=[("f", "Q")], ret="S"),
    "interpret:prettify_frac": dict(params=[("f", "Q"), ("brackets", "B")], ret="S"),
    "interpret:stringify_result": dict(params=[("r", "V"), ("brackets_for_frac", "B")], ret="S"),
    "interpret:display_result": dict(params=[("r", "V"), ("out", "OUT"), ("brackets_for_frac", "B"), ("newline", "B"),
                                             ("unit_format_fn", FN_QV_S)], ret="S", writer=True),
}
ORDER = list(DECL)
EXN = {"OverflowError": "OverflowError", "ZeroDivisionError": "ZeroDivisionError", "ValueError": "ValueError",
       "TypeError": "TypeError"}
BUILTINS = {"isinstance", "str", "abs", "float", "len", "print", "dict", "zip", "enumerate", "iter", "int", "bool",
            "True", "False", "None", "OverflowError", "ZeroDivisionError", "ValueError", "TypeError", "tuple", "list"}
RESERVED = set("""p nl mapM for_enum for_enum_from combine filter map bind Ok Raise show_Z show_pos frac_text fmt_g
 dec_fallback iso_text py_str py_str_frac py_float_of_frac py_format_g py_dec_div py_dec_format_g py_floordiv py_isoformat
 Qabs Qred inject_Z Qnum Qden Zpos Z Q Qleb Qltb Qeqb negb andb orb String List length concat true false pyval pyfloat qvec
 pydatetime mkqv mkdt qv_v qv_names PInt PFrac PFloat PStr PQuantity PArray PInterval PInstant PF PNegZero res exn string
 bool list option Some None fun if then else let in do match with end fix as return at using where forall exists Type Prop
 Set Unmodelled OverflowError ZeroDivisionError ValueError TypeError float_of_Q""".split())


def coq_str(s):
    for ch in s:
        if not (32 <= ord(ch) < 127):
            raise Untranslatable("string constant with a character outside printable ASCII")
    return '"' + s.replace('"', '""') + '"%string'


def zlit(n):
    return "%d%%Z" % n if n >= 0 else "(%d)%%Z" % n


def coq_ty(k):
    if isinstance(k, tuple) and k[0] == "FN":
        return "(" + " -> ".join([coq_ty(a) for a in k[1]] + ["res " + coq_ty(k[2])]) + ")"
    return COQ_TY[k]


def wrap(binds, body):
    return "".join("do %s <- %s;\n" % (v, t) for v, t in binds) + body


def path_of(e):
    if isinstance(e, ast.Name):
        return e.id
    if isinstance(e, ast.Attribute):
        b = path_of(e.value)
        return None if b is None else b + "." + e.attr
    return None


def is_doc(s):
    return isinstance(s, ast.Expr) and isinstance(s.value, ast.Constant) and isinstance(s.value.value, str)


class FnTr:
    def __init__(self, unit, module, key, node):
        self.unit, self.module, self.key, self.node = unit, module, key, node
        self.n = 0
        self.recursive = False
        self.ret = DECL[key]["ret"]
        self.locals = {a.arg for a in node.args.args}
        for n in ast.walk(node):
            if isinstance(n, ast.Name) and isinstance(n.ctx, (ast.Store, ast.Del)):
                self.locals.add(n.id)
            if isinstance(n, (ast.Global, ast.Nonlocal, ast.Lambda, ast.ClassDef, ast.AsyncFunctionDef, ast.Yield,
                              ast.YieldFrom, ast.Await, ast.NamedExpr, ast.Starred, ast.AsyncWith, ast.While, ast.Delete)) \
                    or (isinstance(n, ast.FunctionDef) and n is not node):
                raise Untranslatable("%s inside %s" % (type(n).__name__, key))

    # ------------------------------------------------------------------ helpers
    def check_name(self, name):
        if name in RESERVED or re.fullmatch(r"t\d+", name) or name.startswith(("g_", "py_", "qv_", "dt_")) \
                or not name.isidentifier() or not name.isascii():
            raise Untranslatable("variable name %s clashes with the generated vocabulary" % name)

    def fresh(self):
        self.n += 1
        return "t%d" % self.n

    def glob(self, name):
        """what a non-local name means in this module"""
        if name in self.locals:
            raise Untranslatable("%s is a local variable here" % name)
        return self.unit.resolve_global(self.module, name)

    def is_builtin(self, e, name):
        return isinstance(e, ast.Name) and e.id == name and e.id not in self.locals \
            and self.unit.resolve_global(self.module, name) == ("builtin", name)

    def coerce(self, a, k, want, what):
        if k == want:
            return a
        if want == "V" and k in WRAP:
            return "(%s %s)" % (WRAP[k], a)
        raise Untranslatable("%s has kind %s where %s is required" % (what, k, want))

    # ------------------------------------------------------------------ expressions -> (binds, atom, kind)
    def expr(self, e, env):
        if isinstance(e, ast.Constant):
            v = e.value
            if isinstance(v, bool):
                return [], "true" if v else "false", "B"
            if isinstance(v, int):
                return [], zlit(v), "Z"
            if isinstance(v, str):
                return [], coq_str(v), "S"
            raise Untranslatable("constant %r" % (v,))
        if isinstance(e, ast.Name):
            if e.id in env:
                t, k = env[e.id]
                if k in ("FMT", "KW", "OUT", "CTX") or isinstance(k, tuple):
                    raise Untranslatable("%s (kind %s) used as a value" % (e.id, k if isinstance(k, str) else k[0]))
                return [], t, k
            raise Untranslatable("name %s used as a value" % e.id)
        if isinstance(e, ast.Attribute):
            pth = path_of(e)
            if pth is not None and pth in env:
                t, k = env[pth]
                return [], t, k
            b, t, k = self.expr(e.value, env)
            if k == "QV" and e.attr == "v":
                return b, "(qv_v %s)" % t, "VEC"
            if k == "QV" and e.attr == "names":
                return b, "(qv_names %s)" % t, "LS"
            if k == "Q" and e.attr == "numerator":
                return b, "(Qnum %s)" % t, "Z"
            if k == "Q" and e.attr == "denominator":
                return b, "(Zpos (Qden %s))" % t, "Z"
            if k == "VEC" and e.attr == "xs":
                return b, t, "LZ"
            raise Untranslatable("attribute .%s of a %s" % (e.attr, k))
        if isinstance(e, ast.JoinedStr):
            binds, parts = [], []
            for v in e.values:
                if isinstance(v, ast.Constant) and isinstance(v.value, str):
                    parts.append(coq_str(v.value))
                elif isinstance(v, ast.FormattedValue) and v.conversion == -1 and v.format_spec is None:
                    b, a = self.str_of(v.value, env)
                    binds += b
                    parts.append(a)
                else:
                    raise Untranslatable("f-string piece")
            if not parts:
                return [], coq_str(""), "S"
            return binds, "(" + " ++ ".join(parts) + ")" if len(parts) > 1 else parts[0], "S"
        if isinstance(e, ast.BinOp):
            return self.binop(e, env)
        if isinstance(e, ast.UnaryOp) and isinstance(e.op, ast.USub):
            if isinstance(e.operand, ast.Constant) and isinstance(e.operand.value, int) and not isinstance(e.operand.value, bool):
                return [], zlit(-e.operand.value), "Z"
            b, a, k = self.expr(e.operand, env)
            if k == "Z":
                return b, "(- %s)%%Z" % a, "Z"
            raise Untranslatable("unary minus on a %s" % k)
        if isinstance(e, ast.IfExp):
            cb, c = self.cond(e.test, env)
            tb, ta, tk = self.expr(e.body, env)
            eb, ea, ek = self.expr(e.orelse, env)
            if tk != ek:
                raise Untranslatable("conditional expression of two kinds (%s, %s)" % (tk, ek))
            if not tb and not eb:
                return cb, "(if %s then %s else %s)" % (c, ta, ea), tk
            v = self.fresh()
            return cb + [(v, "(if %s then (%s) else (%s))" % (c, wrap(tb, "Ok " + ta), wrap(eb, "Ok " + ea)))], v, tk
        if isinstance(e, (ast.Compare, ast.BoolOp)) or (isinstance(e, ast.UnaryOp) and isinstance(e.op, ast.Not)):
            b, c = self.cond(e, env)
            return b, c, "B"
        if isinstance(e, ast.Call):
            return self.call(e, env)
        raise Untranslatable(ast.dump(e)[:80])

    def binop(self, e, env):
        lb, la, lk = self.expr(e.left, env)
        rb, ra, rk = self.expr(e.right, env)
        b = lb + rb
        op = type(e.op)
        if op is ast.Add and (lk, rk) == ("S", "S"):
            return b, "(%s ++ %s)" % (la, ra), "S"
        if op in (ast.Add, ast.Sub, ast.Mult) and (lk, rk) == ("Z", "Z"):
            return b, "(%s %s %s)%%Z" % (la, {ast.Add: "+", ast.Sub: "-", ast.Mult: "*"}[op], ra), "Z"
        if op is ast.Sub and lk == "Q" and rk in ("Z", "Q"):
            r2 = ra if rk == "Q" else "inject_Z %s" % ra
            return b, "(Qred (%s - %s)%%Q)" % (la, r2), "Q"
        if op is ast.FloorDiv and (lk, rk) == ("Z", "Z"):
            v = self.fresh()
            return b + [(v, "py_floordiv %s %s" % (la, ra))], v, "Z"
        if op is ast.Div and (lk, rk) == ("DZ", "DZ"):
            v = self.fresh()
            return b + [(v, "py_dec_div %s %s" % (la, ra))], v, "DQ"
        raise Untranslatable("operator %s on %s, %s" % (op.__name__, lk, rk))

    def str_of(self, e, env):
        """str(e) -> (binds, atom of kind S)"""
        pth = path_of(e)
        if pth is not None and env.get(pth + "#class") and (env[pth + "#class"], "str") in CLASS_METHODS:
            return self.call_method_of_class(pth, "str", env)
        b, a, k = self.expr(e, env)
        if k == "S":
            return b, a
        if k == "Z":
            return b, "(show_Z %s)" % a
        if k == "Q":
            return b, "(py_str_frac %s)" % a
        if k == "V":
            self.unit.translate("builtin:py_str")
            v = self.fresh()
            return b + [(v, "py_str %s" % a)], v
        raise Untranslatable("str() of a %s" % k)

    def call_method_of_class(self, pth, what, env):
        cid = env[pth + "#class"]
        key = CLASS_METHODS[(cid, what)]
        info = self.unit.translate(key, caller=self.key)
        args = [env[pth + "." + f][0] for f, _ in OBJ_CLASSES[cid][1]]
        v = self.fresh()
        return [(v, "%s %s" % (info["gname"], " ".join(args)))], v

    def call(self, e, env):
        f = e.func
        if isinstance(f, ast.Name):
            if f.id in env:
                t, k = env[f.id]
                if not (isinstance(k, tuple) and k[0] == "FN"):
                    raise Untranslatable("call of the non-function variable %s" % f.id)
                if e.keywords or len(e.args) != len(k[1]):
                    raise Untranslatable("call of %s: arguments" % f.id)
                binds, args = [], []
                for a, want in zip(e.args, k[1]):
                    b, at, ak = self.expr(a, env)
                    binds += b
                    args.append(self.coerce(at, ak, want, "argument of %s" % f.id))
                v = self.fresh()
                return binds + [(v, "%s %s" % (t, " ".join(args)))], v, k[2]
            g = self.glob(f.id)
            if g[0] == "builtin":
                return self.builtin_call(f.id, e, env)
            if g == ("from", "decimal", 0, "Decimal"):
                if e.keywords or len(e.args) != 1:
                    raise Untranslatable("Decimal arguments")
                b, a, k = self.expr(e.args[0], env)
                if k != "Z":
                    raise Untranslatable("Decimal of a %s" % k)
                return b, a, "DZ"
            if g[0] == "def":
                key = "%s:%s" % (g[1], g[2])
                if key not in DECL:
                    raise Untranslatable("call of %s, which is not a function of this package" % f.id)
                return self.call_pkg(key, None, e.args, e.keywords, env)
            raise Untranslatable("call of %s" % f.id)
        if isinstance(f, ast.Attribute):
            # ka.config.get(ConfigProperties.PRECISION)
            if path_of(f) == "ka.config.get" and "ka" not in self.locals and not e.keywords and len(e.args) == 1 \
                    and path_of(e.args[0]) == "ConfigProperties.PRECISION":
                if self.unit.resolve_global(self.module, "ka") != ("import", "ka.config") or \
                        self.glob("ConfigProperties") != ("from", "config", 1, "ConfigProperties"):
                    raise Untranslatable("ka.config / ConfigProperties are not the configuration module here")
                return [], "p", "Z"
            if f.attr == "format" and isinstance(f.value, ast.Name) and env.get(f.value.id, (None, None))[1] == "FMT":
                if e.keywords or len(e.args) != 1:
                    raise Untranslatable("format arguments")
                P = env[f.value.id][0]
                b, a, k = self.expr(e.args[0], env)
                if k == "F":
                    return b, "(py_format_g %s %s)" % (P, a), "S"
                if k == "DQ":
                    return b, "(py_dec_format_g %s %s)" % (P, a), "S"
                raise Untranslatable("'{:.Pg}'.format of a %s" % k)
            if f.attr == "join" and isinstance(f.value, ast.Constant) and isinstance(f.value.value, str):
                if e.keywords or len(e.args) != 1 or not isinstance(e.args[0], ast.GeneratorExp):
                    raise Untranslatable("join of something else than a generator")
                return self.join(f.value.value, e.args[0], env)
            b, a, k = self.expr(f.value, env)
            if (k, f.attr) in KIND_METHODS:
                b2, a2, k2 = self.call_pkg(KIND_METHODS[(k, f.attr)], (a, k), e.args, e.keywords, env)
                return b + b2, a2, k2
            if k == "DT" and f.attr == "isoformat" and not e.args and not e.keywords:
                return b, "(py_isoformat %s)" % a, "S"
            raise Untranslatable("method .%s of a %s" % (f.attr, k))
        raise Untranslatable("call of " + ast.dump(f)[:60])

    def builtin_call(self, name, e, env):
        if e.keywords or len(e.args) != 1:
            raise Untranslatable("%s(..) arguments" % name)
        x = e.args[0]
        if name == "str":
            b, a = self.str_of(x, env)
            return b, a, "S"
        if name == "len":
            pth = path_of(x)
            if pth is not None and env.get(pth + "#class") and (env[pth + "#class"], "len") in CLASS_METHODS:
                b, a = self.call_method_of_class(pth, "len", env)
                return b, a, "Z"
            b, a, k = self.expr(x, env)
            if k in ELEM:
                return b, "(Z.of_nat (List.length %s))" % a, "Z"
            raise Untranslatable("len() of a %s" % k)
        b, a, k = self.expr(x, env)
        if name == "abs" and k == "Z":
            return b, "(Z.abs %s)" % a, "Z"
        if name == "abs" and k == "Q":
            return b, "(Qabs %s)" % a, "Q"
        if name == "float" and k == "Q":
            v = self.fresh()
            return b + [(v, "py_float_of_frac %s" % a)], v, "F"
        if name == "iter" and k in ELEM:
            return b, a, k
        raise Untranslatable("%s() of a %s" % (name, k))

    def call_pkg(self, key, selfarg, pos, keywords, env, as_stmt=False):
        if key == self.key:
            self.recursive = True
            info = self.unit.signature(key)
        else:
            info = self.unit.translate(key, caller=self.key)
        if info.get("writer") and not as_stmt:
            raise Untranslatable("%s returns no value" % key)
        if as_stmt and not info.get("writer"):
            raise Untranslatable("result of %s discarded" % key)
        params = info["params"]           # (name, kind, default node | None)
        given = {}
        if len(pos) > len(params):
            raise Untranslatable("too many arguments for %s" % key)
        for (pn, _, _), a in zip(params, pos):
            given[pn] = a
        for kw in keywords:
            if kw.arg is None or kw.arg in given or kw.arg not in [q[0] for q in params]:
                raise Untranslatable("keyword argument of %s" % key)
            given[kw.arg] = kw.value
        # Python evaluates positional arguments, then keywords, in the order written; defaults are constants
        order = list(pos) + [kw.value for kw in keywords]
        evaluated = {}
        binds = []
        name_of = {id(v): n for n, v in given.items()}
        for a in order:
            pn = name_of[id(a)]
            pk = [q[1] for q in params if q[0] == pn][0]
            if pk == "OUT":
                if not (isinstance(a, ast.Name) and env.get(a.id, (None, None))[1] == "OUT"):
                    raise Untranslatable("%s must be given this function's own output stream" % key)
                evaluated[pn] = None
            elif isinstance(pk, tuple):
                evaluated[pn] = self.fn_value(a, pk, env)
            else:
                b, at, ak = self.expr(a, env)
                binds += b
                evaluated[pn] = self.coerce(at, ak, pk, "argument %s of %s" % (pn, key))
        args = []
        if selfarg is not None:
            if info["self"] != selfarg[1]:
                raise Untranslatable("receiver of %s has kind %s" % (key, selfarg[1]))
            args.append(selfarg[0])
        elif info["self"] is not None:
            raise Untranslatable("%s called without a receiver" % key)
        for (pn, pk, dflt) in params:
            if pn in evaluated:
                if evaluated[pn] is not None:
                    args.append(evaluated[pn])
                continue
            if dflt is None:
                raise Untranslatable("argument %s of %s is missing" % (pn, key))
            args.append(self.unit.default_value(info["module"], dflt, pk))
        v = self.fresh()
        return binds + [(v, "%s %s" % (info["gname"], " ".join(args)) if args else info["gname"])], v, info["ret"]

    def fn_value(self, a, pk, env):
        if isinstance(a, ast.Name) and a.id in env:
            if env[a.id][1] != pk:
                raise Untranslatable("function argument %s has another type" % a.id)
            return env[a.id][0]
        if isinstance(a, ast.Name):
            return self.unit.function_value(self.module, a.id, pk, self.locals)
        raise Untranslatable("function argument " + ast.dump(a)[:40])

    def join(self, sep, g, env):
        if len(g.generators) != 1 or g.generators[0].is_async:
            raise Untranslatable("generator shape")
        gen = g.generators[0]
        binds = []
        it = gen.iter
        env2 = dict(env)
        if isinstance(it, ast.Call) and self.is_builtin(it.func, "zip"):
            if it.keywords or len(it.args) != 2:
                raise Untranslatable("zip arguments")
            terms, kinds = [], []
            for x in it.args:
                b, a, k = self.iterable(x, env)
                binds += b
                terms.append(a)
                kinds.append(ELEM[k])
            if not (isinstance(gen.target, ast.Tuple) and len(gen.target.elts) == 2
                    and all(isinstance(t, ast.Name) for t in gen.target.elts)):
                raise Untranslatable("target of a zip generator")
            names = [t.id for t in gen.target.elts]
            if names[0] == names[1]:
                raise Untranslatable("target names")
            for nm, k in zip(names, kinds):
                self.check_name(nm)
                self.drop(env2, nm)
                env2[nm] = (nm, k)
            pat = "'(%s, %s)" % tuple(names)
            lst = "(combine %s %s)" % tuple(terms)
        else:
            b, a, k = self.iterable(it, env)
            binds += b
            if not isinstance(gen.target, ast.Name):
                raise Untranslatable("generator target")
            nm = gen.target.id
            self.check_name(nm)
            self.drop(env2, nm)
            env2[nm] = (nm, ELEM[k])
            pat, lst = nm, a
        conds = []
        for c in gen.ifs:
            cb, ct = self.cond(c, env2)
            if cb:
                raise Untranslatable("generator condition that calls")
            conds.append(ct)
        if conds:
            lst = "(filter (fun %s => %s) %s)" % (pat, " && ".join(conds), lst)
        eb, ea, ek = self.expr(g.elt, env2)
        if ek != "S":
            raise Untranslatable("join of elements of kind %s" % ek)
        v = self.fresh()
        binds.append((v, "mapM (fun %s => %s) %s" % (pat, wrap(eb, "Ok " + ea), lst)))
        return binds, "(String.concat %s %s)" % (coq_str(sep), v), "S"

    def iterable(self, x, env):
        b, a, k = self.expr(x, env)
        if k == "VEC":
            b2, a2, k2 = self.call_pkg("units:Vector.__iter__", (a, "VEC"), [], [], env)
            return b + b2, a2, k2
        if k in ELEM:
            return b, a, k
        raise Untranslatable("iteration over a %s" % k)

    # ------------------------------------------------------------------ conditions -> (binds, bool term)
    def cond(self, e, env):
        if isinstance(e, ast.Compare) and len(e.ops) == 1:
            lb, la, lk = self.expr(e.left, env)
            rb, ra, rk = self.expr(e.comparators[0], env)
            op = type(e.ops[0])
            if (lk, rk) == ("Z", "Z"):
                t = {ast.Lt: "(%s <? %s)%%Z" % (la, ra), ast.LtE: "(%s <=? %s)%%Z" % (la, ra),
                     ast.Gt: "(%s <? %s)%%Z" % (ra, la), ast.GtE: "(%s <=? %s)%%Z" % (ra, la),
                     ast.Eq: "(%s =? %s)%%Z" % (la, ra), ast.NotEq: "(negb (%s =? %s)%%Z)" % (la, ra)}.get(op)
            elif lk in ("Z", "Q") and rk in ("Z", "Q"):
                qa = la if lk == "Q" else "(inject_Z %s)" % la
                qb = ra if rk == "Q" else "(inject_Z %s)" % ra
                t = {ast.Lt: "(Qltb %s %s)" % (qa, qb), ast.LtE: "(Qleb %s %s)" % (qa, qb),
                     ast.Gt: "(Qltb %s %s)" % (qb, qa), ast.GtE: "(Qleb %s %s)" % (qb, qa),
                     ast.Eq: "(Qeqb %s %s)" % (qa, qb), ast.NotEq: "(negb (Qeqb %s %s))" % (qa, qb)}.get(op)
            else:
                t = None
            if t is None:
                raise Untranslatable("comparison %s of %s, %s" % (op.__name__, lk, rk))
            return lb + rb, t
        if isinstance(e, ast.BoolOp):
            parts = []
            for v in e.values:
                b, c = self.cond(v, env)
                if b:
                    raise Untranslatable("and/or over operands that call")
                parts.append(c)
            return [], "(" + (" && " if isinstance(e.op, ast.And) else " || ").join(parts) + ")"
        if isinstance(e, ast.UnaryOp) and isinstance(e.op, ast.Not):
            b, c = self.cond(e.operand, env)
            return b, "(negb %s)" % c
        if isinstance(e, ast.Name) and e.id in env and env[e.id][1] == "B":
            return [], env[e.id][0]
        if isinstance(e, ast.Constant) and isinstance(e.value, bool):
            return [], "true" if e.value else "false"
        raise Untranslatable("condition " + ast.dump(e)[:70])

    # ------------------------------------------------------------------ isinstance narrowing
    def isinstance_test(self, test, env):
        """(scrutinee term, pattern, narrowed env) if test is isinstance(path, Class), else None"""
        if not (isinstance(test, ast.Call) and self.is_builtin(test.func, "isinstance")):
            return None
        if test.keywords or len(test.args) != 2 or not isinstance(test.args[1], ast.Name):
            raise Untranslatable("isinstance arguments")
        pth = path_of(test.args[0])
        if pth is None:
            raise Untranslatable("isinstance of something else than a name or attribute path")
        if pth.split(".")[0] in self.assigned:
            raise Untranslatable("isinstance on %s, which is assigned in the function" % pth)
        b, t, k = self.expr(test.args[0], env)
        if b or k != "V":
            raise Untranslatable("isinstance of a %s" % k)
        cid = self.unit.class_id(self.module, test.args[1].id, self.locals)
        env2 = dict(env)
        base = pth.replace(".", "_")
        if cid in OBJ_CLASSES:
            ctor, fields = OBJ_CLASSES[cid]
            self.unit.check_class_fields(cid)
            vs = []
            for fn, fk in fields:
                v = "%s_%s" % (base, fn)
                self.check_name(v)
                vs.append(v)
                env2[pth + "." + fn] = (v, fk)
            env2[pth + "#class"] = cid
            return t, "%s %s" % (ctor, " ".join(vs)), env2
        ctor, pk, suffix = PRIM_CLASSES[cid]
        v = "%s_%s" % (base, suffix)
        self.check_name(v)
        env2[pth] = (v, pk)
        return t, "%s %s" % (ctor, v), env2

    def drop(self, env, name):
        for k in list(env):
            if k == name or k.startswith(name + ".") or k.startswith(name + "#"):
                del env[k]

    # ------------------------------------------------------------------ statements
    def terminates(self, stmts):
        if not stmts:
            return False
        last = stmts[-1]
        if isinstance(last, (ast.Return, ast.Raise)):
            return True
        if isinstance(last, ast.If):
            return self.terminates(last.body) and bool(last.orelse) and self.terminates(last.orelse)
        if isinstance(last, ast.With):
            return self.terminates(last.body)
        if isinstance(last, ast.Try):
            return self.terminates(last.body) and all(self.terminates(h.body) for h in last.handlers) \
                and not last.orelse and not last.finalbody
        return False

    def assign(self, s, env):
        """-> (binds, let-text or '', env2) for `name = value`"""
        if not (isinstance(s, ast.Assign) and len(s.targets) == 1 and isinstance(s.targets[0], ast.Name)):
            raise Untranslatable("assignment shape")
        name = s.targets[0].id
        self.check_name(name)
        if name in env and (env[name][1] in ("OUT",) or isinstance(env[name][1], tuple)):
            raise Untranslatable("assignment to the parameter %s" % name)
        env2 = dict(env)
        self.drop(env2, name)
        v = s.value
        # "{:." + str(E) + "g}"
        if isinstance(v, ast.BinOp) and isinstance(v.op, ast.Add) and isinstance(v.right, ast.Constant) \
                and isinstance(v.left, ast.BinOp) and isinstance(v.left.op, ast.Add) \
                and isinstance(v.left.left, ast.Constant) and isinstance(v.left.left.value, str) and "{" in v.left.left.value:
            if v.left.left.value != "{:." or v.right.value != "g}":
                raise Untranslatable("format string %r .. %r" % (v.left.left.value, v.right.value))
            c = v.left.right
            if not (isinstance(c, ast.Call) and self.is_builtin(c.func, "str") and len(c.args) == 1 and not c.keywords):
                raise Untranslatable("precision of the format string")
            b, a, k = self.expr(c.args[0], env)
            if k != "Z":
                raise Untranslatable("precision of kind %s" % k)
            env2[name] = (a, "FMT")
            return b, "", env2
        kw = self.kwdict(v, env)
        if kw is not None:
            env2[name] = (kw, "KW")
            return [], "", env2
        b, a, k = self.expr(v, env)
        if k in ("DZ", "DQ"):
            raise Untranslatable("Decimal bound to a name")
        env2[name] = (name, k)
        return b, "let %s := %s in\n" % (name, a), env2

    def kwdict(self, v, env):
        """print keyword dict: dict() | dict(end=E) | A if c else B  ->  the `end` text, else None"""
        if isinstance(v, ast.Call) and self.is_builtin(v.func, "dict"):
            if v.args:
                raise Untranslatable("dict arguments")
            if not v.keywords:
                return "nl"
            if len(v.keywords) == 1 and v.keywords[0].arg == "end":
                b, a, k = self.expr(v.keywords[0].value, env)
                if b or k != "S":
                    raise Untranslatable("end= value")
                return a
            raise Untranslatable("print keywords other than end")
        if isinstance(v, ast.IfExp):
            x, y = self.kwdict(v.body, env), self.kwdict(v.orelse, env)
            if x is None and y is None:
                return None
            if x is None or y is None:
                raise Untranslatable("conditional of a dict and something else")
            cb, c = self.cond(v.test, env)
            if cb:
                raise Untranslatable("condition that calls")
            return "(if %s then %s else %s)" % (c, x, y)
        return None

    def block_v(self, stmts, env):
        stmts = [s for s in stmts if not is_doc(s)]
        if not stmts:
            raise Untranslatable("fall-through (implicit return None)")
        s, rest = stmts[0], stmts[1:]
        if isinstance(s, ast.Return):
            if s.value is None:
                raise Untranslatable("return without value")
            b, a, k = self.expr(s.value, env)
            if k != self.ret:
                raise Untranslatable("returns a %s, declared %s" % (k, self.ret))
            return wrap(b, "Ok " + a)
        if isinstance(s, ast.If):
            def arm(stmts, e2):
                return self.block_v(list(stmts) + ([] if (stmts and self.terminates(stmts)) else rest), e2)
            return self.branch(s, env, arm, arm)
        if isinstance(s, ast.Assign):
            b, let, env2 = self.assign(s, env)
            return wrap(b, let + self.block_v(rest, env2))
        if isinstance(s, ast.Try):
            if len(s.handlers) != 1 or s.orelse or s.finalbody or s.handlers[0].name is not None \
                    or not isinstance(s.handlers[0].type, ast.Name) or s.handlers[0].type.id not in EXN \
                    or self.glob(s.handlers[0].type.id)[0] != "builtin":
                raise Untranslatable("try statement shape")
            if not (self.terminates(s.body) and self.terminates(s.handlers[0].body)) or rest:
                raise Untranslatable("try statement that does not return on every path")
            tb = self.block_v(s.body, dict(env))
            hb = self.block_v(s.handlers[0].body, dict(env))
            v = self.fresh()
            return "(match (%s) with\n| Raise %s => (%s)\n| %s => %s\nend)" % (tb, EXN[s.handlers[0].type.id], hb, v, v)
        if isinstance(s, ast.With):
            inner = self.widened_decimal_context(s, env)
            if rest or not self.terminates(inner):
                raise Untranslatable("with block that does not return on every path")
            env2 = dict(env)
            self.drop(env2, s.items[0].optional_vars.id)
            env2[s.items[0].optional_vars.id] = (None, "CTX")
            return "(* with localcontext(): Emax, Emin widened *)\n" + self.block_v(inner, env2)
        raise Untranslatable("statement " + type(s).__name__)

    def widened_decimal_context(self, s, env):
        """exactly  `with localcontext() as C:  C.Emax, C.Emin = MAX_EMAX, MIN_EMIN;  <statements>`  (all three names
        imported from decimal) -> the <statements>; anything else about a `with` is untranslatable"""
        if len(s.items) != 1 or getattr(s, "type_comment", None):
            raise Untranslatable("with statement shape")
        it = s.items[0]
        c = it.context_expr
        if not (isinstance(c, ast.Call) and isinstance(c.func, ast.Name) and not c.args and not c.keywords
                and c.func.id not in env and self.glob(c.func.id) == ("from", "decimal", 0, "localcontext")
                and c.func.id == "localcontext"):
            raise Untranslatable("with of something else than decimal.localcontext()")
        if not isinstance(it.optional_vars, ast.Name):
            raise Untranslatable("with ... as <name> expected")
        cv = it.optional_vars.id
        self.check_name(cv)
        # the context variable is bound by this with and nowhere else
        stores = [n for n in ast.walk(self.node) if isinstance(n, ast.Name) and n.id == cv and isinstance(n.ctx, (ast.Store, ast.Del))]
        if len(stores) != 1 or cv in [a.arg for a in self.node.args.args]:
            raise Untranslatable("context variable %s is bound elsewhere too" % cv)
        body = [b for b in s.body if not is_doc(b)]
        if not body:
            raise Untranslatable("empty with block")
        a = body[0]

        def attr(e, name):
            return isinstance(e, ast.Attribute) and e.attr == name and isinstance(e.value, ast.Name) and e.value.id == cv

        def const(e, name):
            return isinstance(e, ast.Name) and e.id == name and e.id not in env \
                and self.glob(name) == ("from", "decimal", 0, name)
        if not (isinstance(a, ast.Assign) and len(a.targets) == 1 and isinstance(a.targets[0], ast.Tuple)
                and len(a.targets[0].elts) == 2 and attr(a.targets[0].elts[0], "Emax") and attr(a.targets[0].elts[1], "Emin")
                and isinstance(a.value, ast.Tuple) and len(a.value.elts) == 2
                and const(a.value.elts[0], "MAX_EMAX") and const(a.value.elts[1], "MIN_EMIN")):
            raise Untranslatable("first statement of the localcontext block is not `%s.Emax, %s.Emin = MAX_EMAX, MIN_EMIN`" % (cv, cv))
        # the context object may not be touched again (prec, rounding, traps, .. would change the division)
        for b in body[1:]:
            for n in ast.walk(b):
                if isinstance(n, ast.Name) and n.id == cv:
                    raise Untranslatable("the decimal context %s is used after widening its exponent range" % cv)
                if isinstance(n, ast.Name) and n.id in ("getcontext", "setcontext", "localcontext"):
                    raise Untranslatable("decimal context access inside the localcontext block")
        return body[1:]

    def same_path_isinstance(self, test, pth):
        return isinstance(test, ast.Call) and self.is_builtin(test.func, "isinstance") and len(test.args) == 2 \
            and path_of(test.args[0]) == pth

    def flatten(self, s, env):
        """an if/elif chain of isinstance tests of ONE path against distinct classes ->
        (scrutinee, [(pattern, narrowed env, body statements)], statements of the final else); None for another test"""
        first = self.isinstance_test(s.test, env)
        if first is None:
            return None
        pth = path_of(s.test.args[0])
        arms, seen, cur = [(first[1], first[2], s.body)], {first[1].split()[0]}, s
        while len(cur.orelse) == 1 and isinstance(cur.orelse[0], ast.If) and self.same_path_isinstance(cur.orelse[0].test, pth):
            nxt = cur.orelse[0]
            it = self.isinstance_test(nxt.test, env)
            if it[1].split()[0] in seen:
                break
            seen.add(it[1].split()[0])
            arms.append((it[1], it[2], nxt.body))
            cur = nxt
        return first[0], arms, list(cur.orelse)

    def branch(self, s, env, body_k, else_k):
        """the if statement s: body_k(statements, env) / else_k(statements, env) give the text of a branch"""
        fl = self.flatten(s, env)
        if fl is not None:
            t, arms, orelse = fl
            return "(match %s with\n%s| _ =>\n%s\nend)" % (
                t, "".join("| %s =>\n%s\n" % (pat, body_k(body, env2)) for pat, env2, body in arms), else_k(orelse, dict(env)))
        cb, c = self.cond(s.test, env)
        return wrap(cb, "(if %s then (%s)\nelse (%s))" % (c, body_k(s.body, dict(env)), else_k(list(s.orelse), dict(env))))

    # writer mode: the text written to `out`
    def block_w(self, stmts, env, nested=False):
        stmts = [s for s in stmts if not is_doc(s)]
        if not stmts:
            return 'Ok ""%string'
        s, rest = stmts[0], stmts[1:]
        if isinstance(s, ast.Assign):
            if nested:
                raise Untranslatable("assignment inside a branch or loop of a writing function")
            b, let, env2 = self.assign(s, env)
            return wrap(b, let + self.block_w(rest, env2))
        t = self.stmt_w(s, env)
        if not rest:
            return t
        v1, v2 = self.fresh(), self.fresh()
        return "do %s <- (%s);\ndo %s <- (%s);\nOk (%s ++ %s)" % (v1, t, v2, self.block_w(rest, env, nested), v1, v2)

    def stmt_w(self, s, env):
        if isinstance(s, ast.Expr) and isinstance(s.value, ast.Call):
            c = s.value
            if self.is_builtin(c.func, "print"):
                b, a = self.print_text(c, env)
                return wrap(b, "Ok " + a)
            if isinstance(c.func, ast.Name) and c.func.id not in env:
                g = self.glob(c.func.id)
                if g[0] == "def" and "%s:%s" % (g[1], g[2]) in DECL:
                    b, a, k = self.call_pkg("%s:%s" % (g[1], g[2]), None, c.args, c.keywords, env, as_stmt=True)
                    return wrap(b, "Ok " + a)
            raise Untranslatable("statement call " + ast.dump(c.func)[:50])
        if isinstance(s, ast.If):
            return self.branch(s, env, lambda b, e2: self.block_w(list(b), e2, True), lambda b, e2: self.block_w(list(b), e2, True))
        if isinstance(s, ast.For):
            if s.orelse or not (isinstance(s.iter, ast.Call) and self.is_builtin(s.iter.func, "enumerate")) \
                    or s.iter.keywords or len(s.iter.args) != 1 \
                    or not (isinstance(s.target, ast.Tuple) and len(s.target.elts) == 2 and all(isinstance(t, ast.Name) for t in s.target.elts)):
                raise Untranslatable("for loop shape")
            b, a, k = self.iterable(s.iter.args[0], env)
            i, x = [t.id for t in s.target.elts]
            if i == x:
                raise Untranslatable("loop targets")
            env2 = dict(env)
            for nm, kk in ((i, "Z"), (x, ELEM[k])):
                self.check_name(nm)
                self.drop(env2, nm)
                env2[nm] = (nm, kk)
            return wrap(b, "for_enum (fun %s %s =>\n%s) %s" % (i, x, self.block_w(s.body, env2, True), a))
        raise Untranslatable("statement " + type(s).__name__ + " in a writing function")

    def print_text(self, c, env):
        end, seen_file, binds, parts = "nl", False, [], []
        explicit_end = kw_end = False
        for a in c.args:
            b, t = self.str_of(a, env)
            binds += b
            parts.append(t)
        for kw in c.keywords:
            if kw.arg == "file":
                if not (isinstance(kw.value, ast.Name) and env.get(kw.value.id, (None, None))[1] == "OUT"):
                    raise Untranslatable("print to something else than the out parameter")
                seen_file = True
            elif kw.arg == "end":
                explicit_end = True
                if isinstance(kw.value, ast.Constant) and kw.value.value == "":
                    end = None
                else:
                    b, t, k = self.expr(kw.value, env)
                    if k != "S":
                        raise Untranslatable("end= of kind %s" % k)
                    binds += b
                    end = t
            elif kw.arg is None:
                if not (isinstance(kw.value, ast.Name) and env.get(kw.value.id, (None, None))[1] == "KW"):
                    raise Untranslatable("** of something else than a print keyword dict")
                kw_end = True
                end = env[kw.value.id][0]
            else:
                raise Untranslatable("print keyword %s" % kw.arg)
        if not seen_file or (explicit_end and kw_end):
            raise Untranslatable("print without file=out (or with two end values)")
        pieces = []
        for i, t in enumerate(parts):
            if i:
                pieces.append(coq_str(" "))
            pieces.append(t)
        if end is not None:
            pieces.append(end)
        if not pieces:
            return binds, coq_str("")
        return binds, ("(" + " ++ ".join(pieces) + ")") if len(pieces) > 1 else pieces[0]


class Unit:
    def __init__(self, srcdir):
        self.text, self.tree, self.bind = {}, {}, {}
        for m in ("interpret", "units", "types"):
            self.text[m] = open(os.path.join(srcdir, "ka", m + ".py"), encoding="utf-8").read()
            self.tree[m] = ast.parse(self.text[m])
            self.bind[m] = self.bindings(self.tree[m])
        self.done, self.active, self.emitted = {}, [], []
        self.fields_ok = {}

    # ------------------------------------------------------------------ module-level names
    def bindings(self, tree):
        out = {}

        def add(name, what):
            out.setdefault(name, []).append(what)

        def scan(stmts):
            for s in stmts:
                if isinstance(s, ast.FunctionDef):
                    add(s.name, ("def", s))
                elif isinstance(s, ast.ClassDef):
                    add(s.name, ("class", s))
                elif isinstance(s, ast.Import):
                    for a in s.names:
                        add(a.asname or a.name.split(".")[0], ("import", a.name if a.asname is None else a.name + " as"))
                elif isinstance(s, ast.ImportFrom):
                    for a in s.names:
                        add(a.asname or a.name, ("from", s.module, s.level, a.name))
                else:
                    for n in ast.walk(s):
                        if isinstance(n, ast.Name) and isinstance(n.ctx, (ast.Store, ast.Del)):
                            add(n.id, ("assign",))
                        elif isinstance(n, (ast.FunctionDef, ast.ClassDef, ast.AsyncFunctionDef)):
                            add(n.name, ("nested",))
                        elif isinstance(n, (ast.Import, ast.ImportFrom)):
                            for a in n.names:
                                add(a.asname or a.name.split(".")[0], ("nested",))
        scan(tree.body)
        return out

    def resolve_global(self, module, name):
        bs = self.bind[module].get(name, [])
        if not bs:
            if name in BUILTINS:
                return ("builtin", name)
            raise Untranslatable("unknown global %s" % name)
        if name == "ka" and all(b[0] == "import" for b in bs):
            mods = {b[1] for b in bs}
            if mods == {"ka.config"}:
                return ("import", "ka.config")
        if len(bs) != 1:
            raise Untranslatable("%s is bound %d times in %s.py" % (name, len(bs), module))
        b = bs[0]
        if b[0] == "def":
            return ("def", module, name)
        if b[0] == "class":
            return ("class", module, name)
        if b[0] == "from":
            return ("from", b[1], b[2], b[3])
        if b[0] == "import":
            return ("import", b[1])
        raise Untranslatable("%s is rebound in %s.py" % (name, module))

    def class_id(self, module, name, locals_):
        if name in locals_:
            raise Untranslatable("class name %s is a local variable" % name)
        g = self.resolve_global(module, name)
        if g == ("from", "fractions", 0, "Fraction"):
            return "frac"
        if g in (("builtin", "float"), ("builtin", "str")):
            return g[1]
        if g[0] == "from" and g[1] == "types" and g[2] == 1 and g[3] == name and name in OBJ_CLASSES:
            return name
        raise Untranslatable("isinstance against %s" % name)

    def check_class_fields(self, cid, module="types"):
        """the class's __init__ stores exactly its parameters as the declared fields, in the constructor order"""
        if (module, cid) in self.fields_ok:
            return
        fields = {"Quantity": ["mag", "qv"], "Array": ["contents"], "Interval": ["a", "b"], "Instant": ["dt"],
                  "QuantityVector": ["v", "names"], "Vector": ["xs"]}[cid]
        if self.resolve_global(module, cid) != ("class", module, cid):
            raise Untranslatable("class %s" % cid)
        cls = self.bind[module][cid][0][1]
        if cls.bases or cls.keywords or cls.decorator_list:
            raise Untranslatable("class %s has bases / decorators" % cid)
        inits = [n for n in cls.body if isinstance(n, ast.FunctionDef) and n.name == "__init__"]
        if len(inits) != 1 or any(isinstance(n, ast.FunctionDef) and n.name in ("__getattr__", "__getattribute__", "__setattr__") for n in cls.body):
            raise Untranslatable("class %s: __init__" % cid)
        init = inits[0]
        a = init.args
        if a.vararg or a.kwarg or a.kwonlyargs or a.defaults or getattr(a, "posonlyargs", []) or init.decorator_list \
                or [x.arg for x in a.args] != ["self"] + fields:
            raise Untranslatable("class %s: parameters of __init__" % cid)
        stored = []
        for s in init.body:
            if is_doc(s) or isinstance(s, ast.Assert) or (isinstance(s, ast.Expr) and isinstance(s.value, ast.Constant)):
                continue
            if isinstance(s, ast.Assign) and len(s.targets) == 1 and isinstance(s.targets[0], ast.Attribute) \
                    and isinstance(s.targets[0].value, ast.Name) and s.targets[0].value.id == "self" \
                    and isinstance(s.value, ast.Name) and s.value.id == s.targets[0].attr:
                stored.append(s.value.id)
                continue
            raise Untranslatable("class %s: statement in __init__" % cid)
        if sorted(stored) != sorted(fields):
            raise Untranslatable("class %s: fields %s" % (cid, stored))
        # no property / method of the class may shadow a field
        for n in cls.body:
            if isinstance(n, ast.FunctionDef) and n.name in fields:
                raise Untranslatable("class %s: member %s shadows a field" % (cid, n.name))
        self.fields_ok[(module, cid)] = True

    # ------------------------------------------------------------------ functions
    def node_of(self, key):
        module, qual = key.split(":")
        parts = qual.split(".")
        if len(parts) == 1:
            if self.resolve_global(module, parts[0]) != ("def", module, parts[0]):
                raise Untranslatable("%s is not a plain function of %s.py" % (parts[0], module))
            return module, qual, self.bind[module][parts[0]][0][1]
        cid, meth = parts
        self.check_class_fields(cid, module)
        cls = self.bind[module][cid][0][1]
        ds = [n for n in cls.body if isinstance(n, ast.FunctionDef) and n.name == meth]
        if len(ds) != 1 or any(isinstance(n, (ast.Assign, ast.AnnAssign)) and meth in [t.id for t in ast.walk(n) if isinstance(t, ast.Name)] for n in cls.body):
            raise Untranslatable("%d definitions of %s" % (len(ds), qual))
        return module, qual, ds[0]

    def signature(self, key):
        module, qual, node = self.node_of(key)
        decl = DECL[key]
        a = node.args
        if a.vararg or a.kwarg or a.kwonlyargs or getattr(a, "posonlyargs", []) or node.decorator_list:
            raise Untranslatable("parameter list of %s" % qual)
        names = [x.arg for x in a.args]
        dflts = [None] * (len(names) - len(a.defaults)) + list(a.defaults)
        selfk = decl.get("self")
        if selfk is not None:
            if not names or names[0] != "self" or dflts[0] is not None:
                raise Untranslatable("%s has no self" % qual)
            names, dflts = names[1:], dflts[1:]
        if names != [n for n, _ in decl["params"]]:
            raise Untranslatable("%s has parameters %s, declared %s" % (qual, names, [n for n, _ in decl["params"]]))
        params = [(n, k, d) for (n, k), d in zip(decl["params"], dflts)]
        return dict(key=key, module=module, qual=qual, node=node, gname="g_" + qual.replace(".", "_"), params=params,
                    self=selfk, ret=decl["ret"], writer=decl.get("writer", False))

    def default_value(self, module, d, kind):
        if isinstance(d, ast.Constant) and isinstance(d.value, bool) and kind == "B":
            return "true" if d.value else "false"
        if isinstance(d, ast.Name) and isinstance(kind, tuple):
            return self.function_value(module, d.id, kind, set())
        raise Untranslatable("default value " + ast.dump(d)[:40])

    def function_value(self, module, name, kind, locals_):
        if name in locals_:
            raise Untranslatable("%s is a local variable" % name)
        g = self.resolve_global(module, name)
        key = "%s:%s" % (g[1], g[2]) if g[0] == "def" else None
        if key not in DECL:
            raise Untranslatable("function value %s is not a function of this package" % name)
        info = self.translate(key)
        if info["self"] is not None or info["writer"] or tuple(k for _, k, _ in info["params"]) != kind[1] or info["ret"] != kind[2] \
                or any(d is not None for _, _, d in info["params"]):
            raise Untranslatable("function value %s has another type" % name)
        return info["gname"]

    def translate(self, key, caller=None):
        if key in self.done:
            if isinstance(self.done[key], Untranslatable):
                raise Untranslatable("callee %s is untranslatable" % key)
            return self.done[key]
        if key in self.active:
            raise Untranslatable("recursion through %s" % key)
        self.active.append(key)
        try:
            info = self._translate(key)
            self.done[key] = info
            self.emitted.append((key, info["text"]))
            return info
        except Untranslatable as x:
            self.done[key] = x
            self.emitted.append((key, "(* UNTRANSLATABLE %s: %s *)" % (key, str(x).replace("*)", "* )").replace("(*", "( *"))))
            raise
        finally:
            self.active.remove(key)

    def _translate(self, key):
        if key == "builtin:py_str":
            self.translate("types:Instant.__str__")
            return dict(key=key, text=PY_STR, gname="py_str")
        info = self.signature(key)
        node, module = info["node"], info["module"]
        tr = FnTr(self, module, key, node)
        tr.assigned = {n.id for n in ast.walk(node) if isinstance(n, ast.Name) and isinstance(n.ctx, (ast.Store, ast.Del))}
        env, binders = {}, []
        selfk = info["self"]
        if isinstance(selfk, tuple):
            cid = selfk[1]
            env["self#class"] = cid
            for fn, fk in OBJ_CLASSES[cid][1]:
                v = "self_%s" % fn
                env["self." + fn] = (v, fk)
                binders.append("(%s : %s)" % (v, coq_ty(fk)))
        elif selfk is not None:
            self.check_class_fields({"QV": "QuantityVector", "VEC": "Vector"}[selfk], module)
            env["self"] = ("self", selfk)
            binders.append("(self : %s)" % coq_ty(selfk))
        for n, k, _ in info["params"]:
            tr.check_name(n)
            if k == "OUT":
                env[n] = (n, "OUT")
                continue
            env[n] = (n, k)
            binders.append("(%s : %s)" % (n, coq_ty(k)))
        for n in tr.assigned:
            if n in [q[0] for q in info["params"]] or n == "self":
                raise Untranslatable("parameter %s is assigned" % n)
        body = tr.block_w(node.body, env) if info["writer"] else tr.block_v(node.body, env)
        if tr.recursive:
            first = info["params"][0] if info["self"] is None else None
            if first is None or first[1] != "V":
                raise Untranslatable("recursion not on a value parameter")
            head = "Fixpoint %s %s {struct %s} : res %s :=" % (info["gname"], " ".join(binders), first[0], coq_ty(info["ret"]))
        else:
            head = "Definition %s %s : res %s :=" % (info["gname"], " ".join(binders), coq_ty(info["ret"]))
        info["text"] = "(* %s.py:%d  %s *)\n%s\n%s." % (module, node.lineno, info["qual"], head, body)
        return info


def gen(dump):
    u = Unit(C.SRC)
    for key in ORDER:
        try:
            u.translate(key)
        except Untranslatable:
            pass
    L = ["(* GENERATED by harness/trans_display.py from src/ka/interpret.py (display_result, stringify_result, precisionify_float,",
         "   precisionify_frac, prettify_frac, default_unit_format), src/ka/units.py (Vector.__iter__, QuantityVector.prettified),",
         "   src/ka/types.py (Array.__len__, Instant.__str__) by AST translation — do not edit", MAPPING.rstrip("\n"), "*)", PRELUDE]
    for key, text in u.emitted:
        L.append(text)
        L.append("")
    L.append("End Src.")
    return "\n".join(L) + "\n"


GENERATES = {"GenDisplaySrc.v": gen}

if __name__ == "__main__":
    sys.stdout.write(gen({}))
