"""Translator plugin "comb": the lazy-combinatorics code of ka/types.py (IntRange.__init__/copy, class Combinatoric:
__init__, mul, resolve) and of ka/functions.py (resolve_combinatoric, get_ratio, comb_times_comb, comb_div_comb,
comb_times_frac, comb_div_frac, frac_times_comb, frac_div_comb and their register_function rows)
-> coq/Gen/GenCombSrc.v, regenerated on every run from the Python AST of the tree under check (C.SRC).
coq/GenFacts/CombSrcFacts.v (property C05) proves the hand-written model coq/Model/Comb.v equal to these definitions.

Fail-closed: a construct outside the subset handled below raises Untranslatable and the function gets NO definition
(a comment `(* UNTRANSLATABLE name: why *)` instead), and neither does any function that calls it, so the facts about
it cannot be proved.  Nothing is repaired or guessed: operand order, comparison, constants, branch order, statement
order, which list an operation works on and from which end are what the AST says.

The trusted construct mapping is the text of MAPPING (copied into the generated file) together with the Gallina text
of PRELUDE (Python's list indexing / slicing / pop and integer % and //)."""
import ast, os, re, sys
sys.path.insert(0, os.path.dirname(os.path.abspath(__file__)))
import common as C
from pytrans import Untranslatable

MAPPING = r"""
   TRUSTED CONSTRUCT MAPPING (everything else is checked by GenFacts/CombSrcFacts.v)

   values      Python int -> Z;  bool -> bool;  IntRange -> Model/Comb.v's record `range` (mkr, fields lo hi);
               list of IntRange -> `list range` IN PYTHON ORDER (index 0 first; Comb.v keeps the ds stack reversed,
               the facts relate the two by `rev`);  a Combinatoric object -> the record `comb` below
               (c_ns, c_ds, c_value : the memo self.value, None or a number);  int/Fraction/float operand of * and /
               -> `num` of Model/Num.v;  a parameter whose default is None -> `option T`;  "int or Combinatoric"
               (result of comb_times_frac) -> `pv` (PNum n | PComb c).  Parameter, field and result types are DECLARED
               in harness/trans_comb.py (DECL); an expression whose type does not fit the declaration makes the
               function untranslatable.  Injections where a declared type is wider: int -> num by NInt, T -> option T
               by Some (None is Python's None), int / num / comb -> pv by PNum (NInt _) / PNum / PComb.
   objects     Values are immutable in Gallina.  Mutation is rebinding of the variable, and is accepted only on
               objects the function OWNS: a list bound from a display [..], a `+`, a slice or a comprehension may be
               popped / extended / appended to; attributes may be stored only on an IntRange that came from
               IntRange(..) or .copy() (or is an element of a list comprehension of such) and on `self` in a method
               declared self-mutating (resolve: self.value).  Anything else (e.g. `ds = self.ds; ds.pop()`, or dropping
               a .copy()) is untranslatable, because it would write through an alias into another Combinatoric.
               A self-mutating method returns the pair (result, final self); a function declared to mutate a
               parameter (resolve_combinatoric: co) returns (result, final value of that parameter).
               g_attr_stores lists every store to .ns/.ds (all of ka/*.py) and .value/.lo/.hi (types.py,
               functions.py, utils.py) by enclosing function, so that a new writer is noticed.
   results     a function declared pure (IntRange.copy, the two __init__) returns its Gallina value; every other one
               returns `res T` (Model/Prelude.v): `return e` is `Ok e`.
   sequencing  effects are bound with `do x <- e; k` IN SOURCE ORDER: arguments left to right, operands left to
               right, statements top to bottom; `c1 and c2` evaluates c2 only if c1 is true (written `c1 && c2` when
               c2 is pure and total); `A if c else B` evaluates c, then only the chosen branch.
               An `if` whose branch does not end in return/break/continue continues with the statements after it.
   truth       `if e` / `while e` / `not e` on a list is `py_nonempty e`; on None-or-list py_truthy_olist; on
               None-or-number py_truthy_onum (None is false, a number is true iff nonzero: Num's p_truthy); on an int
               `negb (e =? 0)`; on a Python bool the bool.  `X if v else Y` with v a None-or-list variable is
               `match v with Some v => if py_nonempty v then X else Y | None => Y end` (inside X, v is the list).
   isinstance  `if isinstance(f, int): A else: B` on a num variable f is `match f with NInt f => A | _ => B end`
               (inside A, f is the integer).
   operators   on ints: + - * are Z's; == < <= > >= are =? <? <=? and the swapped <? <=?;  `a % b` py_mod,
               `a // b` py_floordiv (ZeroDivisionError on b = 0; floor semantics = Z.modulo / Z.div);
               `x op= e` is `x = x op e`.  On lists: `a + b` is `a ++ b`; len(l) is `Z.of_nat (List.length l)`.
   lists       l[i] py_index (negative i counts from the end; IndexError outside);  l[:i] py_slice_to,
               l[i:] py_slice_from (Python's clipping);  `x = l.pop()` is `do (x, l) <- py_pop l` (the LAST element;
               IndexError when empty);  l.extend(m) is `l := l ++ m`;  l.append(x) is `l := l ++ [x]`;
               l[i].f op= e is `do t <- py_index l i; do l <- py_setitem l i (t with f := f t op e)`;
               [E for x in l] (E pure) is `map (fun x => E) l`;  [a, b] is the Gallina list.
   loops       `while c: B` is a Fixpoint on explicit fuel over the variables B assigns (the loop state; variables
               only read are extra arguments):  if c then (match fuel with O => Raise OutOfFuel | S fuel' => B; loop
               fuel' state') else Ok state  -- one unit of fuel per iteration, the test comes before the fuel check,
               `break` is `Ok state`, `continue` / the end of B the recursive call.  The fuel handed to a loop is the
               expression recorded in LOOP_FUEL of harness/trans_comb.py.  It is NOT trusted: running out is the
               visible result `Raise OutOfFuel`, and the facts prove equality with the model (which has no fuel in
               resolve, and the proved-sufficient mul_fuel in mul).
               `for x in l: B` (l not modified by B, no break/continue/return in B) is a structural Fixpoint over l in
               list order with the variables B assigns as state.
               A variable first assigned inside a loop is local to one iteration (its use after the loop, or before
               its assignment in a later iteration, is untranslatable).
   attributes  r.lo / r.hi are Comb.lo / Comb.hi;  c.ns / c.ds / c.value are c_ns / c_ds / c_value;
               `r.f = e` on an owned object rebinds r to the record with that field replaced.
               A class's __init__ must consist of one assignment `self.<field> = <pure expression>` per declared
               field; IntRange(a, b) is `g_IntRange_init a b`, Combinatoric(ns=a, ds=b) is
               `g_Combinatoric_init (Some a) (Some b)` (an omitted argument is the default None).
   calls       a method call r.m(..) on an IntRange: is_empty / intersects / difference are g_is_empty /
               g_intersects / g_difference of Gen/GenLogic.v (translated there, proved in GenFacts/LogicFacts.v), copy
               is translated here; on a Combinatoric: mul / resolve translated here; f.as_integer_ratio() on a num is
               p_as_integer_ratio (Qnum, Qden of the stored rational);  frac(a, b) (fractions.Fraction) is p_frac,
               fraction_divide(a, b) is g_fraction_divide, simplify_type(x) on a number is simplify_type_num x =
               g_simplify_type (VN x) projected back to a number -- all three from Gen/GenNumSrc.v (package "num");
               a direct call g(..) of another function of this package is `g_g ..`; a definition is emitted only after
               all its callees were translated.
   names       `frac`, `IntRange`, `Combinatoric`, `fraction_divide`, `simplify_type` and the functions called must be
               bound exactly once at module level to what their name says; len / isinstance / int must not be
               rebound; else the function using them is untranslatable.
   registrations   every module-level statement of functions.py that mentions Combinatoric must be an import, a def,
               `register_function(F, "NAME", (T1, .., Tn))` or `for v in ((..), ..): register_function(F, "NAME", v)`
               (unrolled); each gives a row (NAME, [type names], "ka.functions.F") of g_comb_registered, in source
               order.  The key is the text harness/dump_live.py:impl_key gives the live function object
               (GenFacts/ResolutionFacts.v ties the LIVE registry to these keys).  g_comb_run key a b applies the
               translated function the key denotes to operands of the registered shape.
"""

PRELUDE = r"""
(* ---- PRELUDE: Python's list and integer primitives (trusted; see the mapping above) *)
Record comb := mkcomb { c_ns : list range; c_ds : list range; c_value : option num }.
Inductive pv := PNum (n : num) | PComb (c : comb).

Definition py_nonempty {A} (l : list A) : bool := match l with [] => false | _ :: _ => true end.
Definition py_truthy_olist {A} (o : option (list A)) : bool :=
  match o with Some l => py_nonempty l | None => false end.
Definition py_truthy_onum (o : option num) : bool :=
  match o with Some v => p_truthy v | None => false end.
Definition py_len {A} (l : list A) : Z := Z.of_nat (List.length l).
(* a negative index counts from the end *)
Definition py_norm_index {A} (l : list A) (i : Z) : Z := if i <? 0 then i + py_len l else i.
Definition py_index {A} (l : list A) (i : Z) : res A :=
  let j := py_norm_index l i in
  if (j <? 0) || (py_len l <=? j) then Raise IndexError
  else match nth_error l (Z.to_nat j) with Some x => Ok x | None => Raise IndexError end.
Definition py_setitem {A} (l : list A) (i : Z) (v : A) : res (list A) :=
  let j := py_norm_index l i in
  if (j <? 0) || (py_len l <=? j) then Raise IndexError
  else Ok (firstn (Z.to_nat j) l ++ v :: skipn (S (Z.to_nat j)) l).
(* slice bounds are clipped into 0..len *)
Definition py_clip {A} (l : list A) (i : Z) : nat :=
  Z.to_nat (Z.min (py_len l) (Z.max 0 (py_norm_index l i))).
Definition py_slice_to {A} (l : list A) (i : Z) : list A := firstn (py_clip l i) l.
Definition py_slice_from {A} (l : list A) (i : Z) : list A := skipn (py_clip l i) l.
(* list.pop(): removes and returns the LAST element *)
Definition py_pop {A} (l : list A) : res (A * list A) :=
  match rev l with [] => Raise IndexError | x :: r => Ok (x, rev r) end.
Definition py_mod (a b : Z) : res Z := if b =? 0 then Raise ZeroDivisionError else Ok (a mod b).
Definition py_floordiv (a b : Z) : res Z := if b =? 0 then Raise ZeroDivisionError else Ok (a / b).
Definition p_as_integer_ratio (x : num) : Z * Z := (Qnum (toQ x), Zpos (Qden (toQ x))).
(* simplify_type (package num, declared on number-or-Quantity) applied to a number *)
Definition simplify_type_num (x : num) : res num :=
  bind (g_simplify_type (VN x)) (fun t => match t with VN n => Ok n | VQ _ _ => Raise Unmodelled end).
"""

# ------------------------------------------------------------------ declarations
# types: Z int, B bool, R IntRange, LR list of IntRange, OLR None-or-list, N num, ON None-or-num, C Combinatoric,
#        PV int-or-Combinatoric result, ("T", (..)) tuple, NONE the constant None
FIELDS = {"R": [("lo", "Z", "Comb.lo"), ("hi", "Z", "Comb.hi")],
          "C": [("ns", "LR", "c_ns"), ("ds", "LR", "c_ds"), ("value", "ON", "c_value")]}
RECORD_CTOR = {"R": "mkr", "C": "mkcomb"}
CLASS_TY = {"IntRange": "R", "Combinatoric": "C"}
TY_CLASS = {"R": "IntRange", "C": "Combinatoric"}

DECL = {
    "types:IntRange.__init__": dict(kind="ctor", cls="R", params=["Z", "Z"]),
    "types:IntRange.copy": dict(kind="method", cls="R", params=[], ret="R", pure=True),
    "types:Combinatoric.__init__": dict(kind="ctor", cls="C", params=["OLR", "OLR"]),
    "types:Combinatoric.mul": dict(kind="method", cls="C", params=["LR", "LR"], ret="C"),
    "types:Combinatoric.resolve": dict(kind="method", cls="C", params=[], ret="ON", mutates_self=True),
    "functions:resolve_combinatoric": dict(kind="fun", params=["C"], ret="ON", mutates=[0]),
    "functions:comb_times_comb": dict(kind="fun", params=["C", "C"], ret="C"),
    "functions:comb_div_comb": dict(kind="fun", params=["C", "C"], ret="C"),
    "functions:get_ratio": dict(kind="fun", params=["N"], ret=("T", ("Z", "Z"))),
    "functions:comb_times_frac": dict(kind="fun", params=["C", "N"], ret="PV"),
    "functions:comb_div_frac": dict(kind="fun", params=["C", "N"], ret="PV"),
    "functions:frac_times_comb": dict(kind="fun", params=["N", "C"], ret="PV"),
    "functions:frac_div_comb": dict(kind="fun", params=["N", "C"], ret="PV"),
}
ORDER = list(DECL)

# methods of IntRange translated by harness/translate.py:gen_logic into Gen/GenLogic.v (pure)
EXTERNAL_METHODS = {("R", "is_empty"): ("g_is_empty", [], "B"),
                    ("R", "intersects"): ("g_intersects", ["R"], "B"),
                    ("R", "difference"): ("g_difference", ["R"], ("T", ("LR", "LR")))}
# functions of package "num" (Gen/GenNumSrc.v), all effectful
EXTERNAL_FUNS = {"fraction_divide": ("g_fraction_divide", ["N", "N"], "N"),
                 "simplify_type": ("simplify_type_num", ["N"], "N")}
# what a module-level name must be bound to where it is used
EXPECT = {"types": {"IntRange": "class", "Combinatoric": "class", "fraction_divide": "def", "simplify_type": "def"},
          "functions": {"IntRange": ".types.IntRange", "Combinatoric": ".types.Combinatoric",
                        "frac": "fractions.Fraction", "fraction_divide": ".types.fraction_divide",
                        "simplify_type": ".types.simplify_type"}}
BUILTINS = ("len", "isinstance", "int")

# fuel handed to each while loop (function key, number of the loop in source order, counting for and while):
# a Gallina expression over the variables in scope at the loop and the model's measure functions.  NOT trusted.
LOOP_FUEL = {("types:Combinatoric.mul", 1): "mul_fuel ds",
             ("types:Combinatoric.mul", 2): "List.length ns",
             ("types:Combinatoric.resolve", 2): "rcount numerator_range",
             ("types:Combinatoric.resolve", 4): "rcount denom_range"}
FUEL_FUNS = {"mul_fuel", "rcount", "List.length"}

RESERVED = {"fuel", "items", "Ok", "Raise", "bind", "Some", "None", "mkr", "mkcomb", "c_ns", "c_ds", "c_value",
            "PNum", "PComb", "NInt", "NFrac", "NFlt", "VN", "VQ", "rev", "map", "negb", "app", "List", "Z", "Q", "nat",
            "bool", "true", "false", "list", "option", "range", "comb", "pv", "num", "res", "tt", "unit", "fst", "snd",
            "length", "firstn", "skipn", "nth_error", "toQ", "Qnum", "Qden", "Zpos", "Comb", "mul_fuel", "rcount",
            "simplify_type_num", "string", "String",
            "fun", "if", "then", "else", "let", "in", "do", "match", "with", "end", "forall", "exists", "fix", "cofix",
            "as", "return", "at", "using", "where", "Type", "Prop", "Set", "SProp", "struct", "IF", "mod"}

SENT = "\x00"


def coq_ty(t):
    if isinstance(t, tuple):
        return "(" + " * ".join(coq_ty(x) for x in t[1]) + ")"
    return {"Z": "Z", "B": "bool", "R": "range", "LR": "(list range)", "OLR": "(option (list range))", "N": "num",
            "ON": "(option num)", "C": "comb", "PV": "pv", "U": "unit"}[t]


def zlit(n):
    return "%d" % n if n >= 0 else "(%d)" % n


def coq_str(s):
    return '"' + s.replace('"', '""') + '"'


def clean(x):
    return str(x).replace("*)", "* )").replace("(*", "( *")


def coerce(a, t, want, what):
    if t == want:
        return a
    if t == "Z" and want == "N":
        return "(NInt %s)" % a
    if (t, want) in (("N", "ON"), ("LR", "OLR")):
        return "(Some %s)" % a
    if t == "NONE" and want in ("ON", "OLR"):
        return "None"
    if want == "PV" and t == "Z":
        return "(PNum (NInt %s))" % a
    if want == "PV" and t == "N":
        return "(PNum %s)" % a
    if want == "PV" and t == "C":
        return "(PComb %s)" % a
    raise Untranslatable("%s has type %s where %s is declared" % (what, t, want))


def tuple_pat(names):
    if not names:
        return "_"
    if len(names) == 1:
        return names[0]
    return "(" + ", ".join(names) + ")"


def tuple_val(names):
    if not names:
        return "tt"
    if len(names) == 1:
        return names[0]
    return "(" + ", ".join(names) + ")"


def tuple_ty(tys):
    if not tys:
        return "unit"
    if len(tys) == 1:
        return coq_ty(tys[0])
    return "(" + " * ".join(coq_ty(t) for t in tys) + ")"


# ------------------------------------------------------------------ module facts
class Module:
    def __init__(self, short):
        self.short = short
        self.text = open(os.path.join(C.SRC, "ka", short + ".py"), encoding="utf-8").read()
        self.tree = ast.parse(self.text)
        self.bind = {}
        for n in self.tree.body:
            self._scan(n)

    def _add(self, name, what):
        self.bind.setdefault(name, []).append(what)

    def _scan(self, n):
        if isinstance(n, ast.Import):
            for a in n.names:
                self._add(a.asname or a.name.split(".")[0], "import " + a.name)
        elif isinstance(n, ast.ImportFrom):
            for a in n.names:
                self._add(a.asname or a.name, "." * n.level + (n.module or "") + "." + a.name)
        elif isinstance(n, (ast.FunctionDef, ast.AsyncFunctionDef)):
            self._add(n.name, "def")
        elif isinstance(n, ast.ClassDef):
            self._add(n.name, "class")
        elif isinstance(n, (ast.Assign, ast.AugAssign, ast.AnnAssign)):
            tgts = n.targets if isinstance(n, ast.Assign) else [n.target]
            for t in tgts:
                for x in ast.walk(t):
                    if isinstance(x, ast.Name):
                        self._add(x.id, "assign")
        elif isinstance(n, (ast.For, ast.While, ast.If, ast.With, ast.Try)):
            if isinstance(n, ast.For):
                for x in ast.walk(n.target):
                    if isinstance(x, ast.Name):
                        self._add(x.id, "assign")
            for f in ("body", "orelse", "finalbody"):
                for m in getattr(n, f, []):
                    self._scan(m)
            for h in getattr(n, "handlers", []):
                for m in h.body:
                    self._scan(m)
        elif isinstance(n, (ast.Global, ast.Delete)):
            for x in ast.walk(n):
                if isinstance(x, ast.Name):
                    self._add(x.id, "assign")

    def bound_to(self, name):
        b = self.bind.get(name, [])
        if len(b) != 1:
            raise Untranslatable("name %s is bound %d times at module level in %s.py" % (name, len(b), self.short))
        return b[0]

    def need(self, name):
        want = EXPECT[self.short].get(name)
        if want is None:
            raise Untranslatable("no expectation recorded for the name %s in %s.py" % (name, self.short))
        got = self.bound_to(name)
        if got != want:
            raise Untranslatable("name %s in %s.py is bound to %s, expected %s" % (name, self.short, got, want))

    def builtin(self, name):
        if self.bind.get(name):
            raise Untranslatable("builtin %s is rebound in %s.py" % (name, self.short))

    def find(self, qual):
        body, node = self.tree.body, None
        for p in qual.split("."):
            ds = [n for n in body if isinstance(n, (ast.FunctionDef, ast.ClassDef)) and n.name == p]
            if len(ds) != 1:
                raise Untranslatable("%d definitions of %s in %s.py" % (len(ds), qual, self.short))
            node = ds[0]
            body = node.body
        if "." not in qual:
            if self.bound_to(qual) != "def":
                raise Untranslatable("%s is not a module-level def of %s.py" % (qual, self.short))
        else:
            if self.bound_to(qual.split(".")[0]) != "class":
                raise Untranslatable("%s is not a module-level class of %s.py" % (qual.split(".")[0], self.short))
        if not isinstance(node, ast.FunctionDef):
            raise Untranslatable("%s is not a function" % qual)
        return node


class Weaker(Exception):
    def __init__(self, tag, var, own):
        self.tag, self.var, self.own = tag, var, own


class K:
    """continuations of a statement block: fall (end of the block), brk, cont; each maps the environment to text"""
    def __init__(self, fall, brk=None, cont=None, in_loop=False):
        self.fall, self.brk, self.cont, self.in_loop = fall, brk, cont, in_loop


# ------------------------------------------------------------------ one function
class Fn:
    def __init__(self, unit, key, node, decl, pnames):
        self.unit, self.key, self.node, self.decl = unit, key, node, decl
        self.mod = unit.mods[key.split(":")[0]]
        self.qual = key.split(":")[1]
        self.gname = "g_" + self.qual.replace(".__init__", "_init").replace(".", "_")
        self.n = 0
        self.loops = 0
        self.aux = []
        self.pure = bool(decl.get("pure"))
        self.ret = decl.get("ret")
        self.mut_names = []
        if decl.get("mutates_self"):
            self.mut_names.append(pnames[0])
        off = 1 if decl["kind"] == "method" else 0
        for i in decl.get("mutates", []):
            self.mut_names.append(pnames[off + i])
        self.selfname = pnames[0] if decl["kind"] in ("method", "ctor") else None

    # ------------------------------------------------------------ helpers
    def check_name(self, name):
        if name in RESERVED or re.fullmatch(r"t\d+", name) or name.startswith("g_") or name.startswith("py_") \
                or name.startswith("p_") or not name.isidentifier() or not name.isascii() or name.endswith("'"):
            raise Untranslatable("variable name %s clashes with the generated vocabulary" % name)

    def fresh(self):
        self.n += 1
        return "t%d" % self.n

    def effect(self):
        if self.pure:
            raise Untranslatable("an effect (a call that may raise, a loop) in %s, which is declared pure" % self.key)

    def sub(self, fn):
        """run a CPS compilation with a recording continuation: (pure?, atom, type, text with SENT for the result)"""
        box = []

        def ret(a, t=None):
            box.append((a, t))
            return SENT
        txt = fn(ret)
        if len(box) != 1:
            raise Untranslatable("an expression that ends %d times" % len(box))
        a, t = box[0]
        return txt == SENT, a, t, txt

    def proj(self, ty, attr):
        for f, fty, p in FIELDS.get(ty, []):
            if f == attr:
                return p, fty
        raise Untranslatable("attribute .%s of a value of type %s" % (attr, ty))

    def with_field(self, obj, ty, attr, new):
        return "(%s %s)" % (RECORD_CTOR[ty], " ".join(new if f == attr else "(%s %s)" % (p, obj) for f, _, p in FIELDS[ty]))

    # freshness of the object an expression denotes: "" shared, "O" a new IntRange, "L" a new list (elements
    # shared), "LE" a new list of new elements
    def freshness(self, e, env):
        if isinstance(e, ast.List):
            return "LE" if all(self.freshness(x, env) == "O" for x in e.elts) else "L"
        if isinstance(e, ast.BinOp) and isinstance(e.op, ast.Add):
            a, b = self.freshness(e.left, env), self.freshness(e.right, env)
            return "LE" if a == b == "LE" else "L"
        if isinstance(e, ast.Subscript) and isinstance(e.slice, ast.Slice):
            return "L"
        if isinstance(e, ast.ListComp):
            return "LE" if self.freshness(e.elt, env) == "O" else "L"
        if isinstance(e, ast.IfExp):
            a, b = self.freshness(e.body, env), self.freshness(e.orelse, env)
            if a == b:
                return a
            if a and b and a[0] == b[0] == "L":
                return "L"
            return ""
        if isinstance(e, ast.Call) and isinstance(e.func, ast.Name) and e.func.id in CLASS_TY:
            return "O"
        if isinstance(e, ast.Call) and isinstance(e.func, ast.Attribute) and e.func.attr == "copy" and not e.args:
            return "O"
        return ""

    # ------------------------------------------------------------ expressions
    def exprs(self, es, env, k):
        def go(i, acc):
            if i == len(es):
                return k(acc)
            return self.expr(es[i], env, lambda a, t: go(i + 1, acc + [(a, t)]))
        return go(0, [])

    def expr(self, e, env, k):
        """k(atom, type) -> text; atom is a pure Gallina term"""
        if isinstance(e, ast.Constant):
            if e.value is None:
                return k("None", "NONE")
            if isinstance(e.value, bool):
                return k("true" if e.value else "false", "B")
            if isinstance(e.value, int):
                return k(zlit(e.value), "Z")
            raise Untranslatable("constant %r" % (e.value,))
        if isinstance(e, ast.Name):
            if e.id not in env:
                raise Untranslatable("name %s is not bound here" % e.id)
            return k(e.id, env[e.id][0])
        if isinstance(e, ast.Attribute):
            def fin(a, t):
                p, fty = self.proj(t, e.attr)
                return k("(%s %s)" % (p, a), fty)
            return self.expr(e.value, env, fin)
        if isinstance(e, ast.List):
            def fin(ats):
                for a, t in ats:
                    if t != "R":
                        raise Untranslatable("list element of type %s" % (t,))
                return k("[" + "; ".join(a for a, _ in ats) + "]", "LR")
            return self.exprs(e.elts, env, fin)
        if isinstance(e, ast.Tuple):
            def fin(ats):
                return k("(" + ", ".join(a for a, _ in ats) + ")", ("T", tuple(t for _, t in ats)))
            if len(e.elts) < 2:
                raise Untranslatable("tuple of %d elements" % len(e.elts))
            return self.exprs(e.elts, env, fin)
        if isinstance(e, ast.UnaryOp) and isinstance(e.op, ast.USub):
            if isinstance(e.operand, ast.Constant) and isinstance(e.operand.value, int) and not isinstance(e.operand.value, bool):
                return k(zlit(-e.operand.value), "Z")

            def fin(a, t):
                if t != "Z":
                    raise Untranslatable("unary minus on %s" % (t,))
                return k("(- %s)" % a, "Z")
            return self.expr(e.operand, env, fin)
        if isinstance(e, ast.BinOp):
            return self.binop(e.op, e.left, e.right, env, k)
        if isinstance(e, (ast.Compare, ast.BoolOp)) or (isinstance(e, ast.UnaryOp) and isinstance(e.op, ast.Not)):
            return self.cond(e, env, lambda c: k(c, "B"), truth=False)
        if isinstance(e, ast.IfExp):
            return self.ifexp(e, env, k)
        if isinstance(e, ast.Subscript):
            return self.subscript(e, env, k)
        if isinstance(e, ast.ListComp):
            return self.listcomp(e, env, k)
        if isinstance(e, ast.Call):
            return self.call(e, env, k)
        raise Untranslatable(ast.dump(e)[:80])

    def binop(self, op, left, right, env, k):
        def fin(ats):
            (a, ta), (b, tb) = ats
            if isinstance(op, ast.Add) and ta == tb == "LR":
                return k("(%s ++ %s)" % (a, b), "LR")
            if ta != "Z" or tb != "Z":
                raise Untranslatable("operator %s on %s and %s" % (type(op).__name__, ta, tb))
            if isinstance(op, (ast.Add, ast.Sub, ast.Mult)):
                return k("(%s %s %s)" % (a, {ast.Add: "+", ast.Sub: "-", ast.Mult: "*"}[type(op)], b), "Z")
            if isinstance(op, (ast.Mod, ast.FloorDiv)):
                self.effect()
                v = self.fresh()
                return "do %s <- %s %s %s;\n%s" % (v, "py_mod" if isinstance(op, ast.Mod) else "py_floordiv", a, b, k(v, "Z"))
            raise Untranslatable("operator %s" % type(op).__name__)
        return self.exprs([left, right], env, fin)

    def ifexp(self, e, env, k):
        # `X if v else Y` on a None-or-list variable: inside X the variable is the list
        if isinstance(e.test, ast.Name) and e.test.id in env and env[e.test.id][0] == "OLR":
            v = e.test.id
            env1 = dict(env)
            env1[v] = ("LR", "")
            p1, a1, t1, _ = self.sub(lambda r: self.expr(e.body, env1, r))
            p2, a2, t2, _ = self.sub(lambda r: self.expr(e.orelse, env1, r))
            p3, a3, t3, _ = self.sub(lambda r: self.expr(e.orelse, env, r))
            if not (p1 and p2 and p3) or not (t1 == t2 == t3):
                raise Untranslatable("conditional expression on None-or-list %s with impure or differently typed branches" % v)
            return k("(match %s with Some %s => if py_nonempty %s then %s else %s | None => %s end)" % (v, v, v, a1, a2, a3), t1)

        def after(c):
            p1, a1, t1, x1 = self.sub(lambda r: self.expr(e.body, env, r))
            p2, a2, t2, x2 = self.sub(lambda r: self.expr(e.orelse, env, r))
            if t1 != t2:
                raise Untranslatable("conditional expression of types %s and %s" % (t1, t2))
            if p1 and p2:
                return k("(if %s then %s else %s)" % (c, a1, a2), t1)
            self.effect()
            v = self.fresh()
            return "do %s <- (if %s then (%s) else (%s));\n%s" % (v, c, x1.replace(SENT, "Ok " + a1), x2.replace(SENT, "Ok " + a2), k(v, t1))
        return self.cond(e.test, env, after)

    def subscript(self, e, env, k):
        sl = e.slice
        if isinstance(sl, ast.Slice):
            if sl.step is not None or (sl.lower is None) == (sl.upper is None):
                raise Untranslatable("slice other than l[:i] / l[i:]")
            bound = sl.upper if sl.lower is None else sl.lower

            def fin(ats):
                (a, ta), (b, tb) = ats
                if ta != "LR" or tb != "Z":
                    raise Untranslatable("slice of %s by %s" % (ta, tb))
                return k("(%s %s %s)" % ("py_slice_to" if sl.lower is None else "py_slice_from", a, b), "LR")
            return self.exprs([e.value, bound], env, fin)

        def fin(ats):
            (a, ta), (b, tb) = ats
            if ta != "LR" or tb != "Z":
                raise Untranslatable("index of %s by %s" % (ta, tb))
            self.effect()
            v = self.fresh()
            return "do %s <- py_index %s %s;\n%s" % (v, a, b, k(v, "R"))
        return self.exprs([e.value, sl], env, fin)

    def listcomp(self, e, env, k):
        if len(e.generators) != 1:
            raise Untranslatable("comprehension with %d generators" % len(e.generators))
        g = e.generators[0]
        if g.ifs or g.is_async or not isinstance(g.target, ast.Name):
            raise Untranslatable("comprehension shape")
        x = g.target.id
        self.check_name(x)

        def fin(a, t):
            if t != "LR":
                raise Untranslatable("comprehension over %s" % (t,))
            env2 = dict(env)
            env2[x] = ("R", "")
            p, b, tb, _ = self.sub(lambda r: self.expr(e.elt, env2, r))
            if not p or tb != "R":
                raise Untranslatable("comprehension element is not a pure IntRange expression")
            return k("(map (fun %s => %s) %s)" % (x, b, a), "LR")
        return self.expr(g.iter, env, fin)

    def apply(self, gname, pure, ptypes, ret, args_ats, k, what):
        if len(args_ats) != len(ptypes):
            raise Untranslatable("%s called with %d arguments, declared %d" % (what, len(args_ats), len(ptypes)))
        args = [coerce(a, t, w, "argument of %s" % what) for (a, t), w in zip(args_ats, ptypes)]
        term = "(%s)" % " ".join([gname] + args) if args else gname
        if pure:
            return k(term, ret)
        self.effect()
        v = self.fresh()
        return "do %s <- %s;\n%s" % (v, term[1:-1] if args else term, k(v, ret))

    def call(self, e, env, k):
        f = e.func
        if isinstance(f, ast.Name):
            name = f.id
            if name in env:
                raise Untranslatable("call of the variable %s" % name)
            if name == "len":
                self.mod.builtin("len")
                if e.keywords or len(e.args) != 1:
                    raise Untranslatable("len arity")

                def fin(a, t):
                    if t != "LR":
                        raise Untranslatable("len of %s" % (t,))
                    return k("(Z.of_nat (List.length %s))" % a, "Z")
                return self.expr(e.args[0], env, fin)
            if name in CLASS_TY:
                self.mod.need(name)
                return self.construct(name, e, env, k)
            if e.keywords:
                raise Untranslatable("keyword arguments in a call of %s" % name)
            if name == "frac":
                self.mod.need("frac")
                return self.exprs(e.args, env, lambda ats: self.apply("p_frac", False, ["N", "N"], "N", ats, k, "frac"))
            if name in EXTERNAL_FUNS:
                self.mod.need(name)
                g, pt, rt = EXTERNAL_FUNS[name]
                return self.exprs(e.args, env, lambda ats: self.apply(g, False, pt, rt, ats, k, name))
            if self.mod.bound_to(name) != "def":
                raise Untranslatable("call of %s, which is bound to %s" % (name, self.mod.bound_to(name)))
            key = "%s:%s" % (self.mod.short, name)
            if key not in DECL:
                raise Untranslatable("call of %s, which is not a function of this package" % name)
            info = self.unit.translate(key)
            if info["mut"]:
                return self.mutating_call(info, None, e.args, env, k)
            return self.exprs(e.args, env, lambda ats: self.apply(info["gname"], info["pure"], info["ptypes"], info["ret"], ats, k, name))
        if isinstance(f, ast.Attribute):
            if e.keywords:
                raise Untranslatable("keyword arguments in a method call")

            def fin(a, t):
                if t == "N" and f.attr == "as_integer_ratio" and not e.args:
                    return k("(p_as_integer_ratio %s)" % a, ("T", ("Z", "Z")))
                if (t, f.attr) in EXTERNAL_METHODS:
                    g, pt, rt = EXTERNAL_METHODS[(t, f.attr)]
                    return self.exprs(e.args, env, lambda ats: self.apply(g, True, ["R"] + pt, rt, [(a, t)] + ats, k, f.attr))
                if t in TY_CLASS:
                    key = "types:%s.%s" % (TY_CLASS[t], f.attr)
                    if key not in DECL or DECL[key]["kind"] != "method":
                        raise Untranslatable("method %s of %s is not translated" % (f.attr, TY_CLASS[t]))
                    info = self.unit.translate(key)
                    if info["mut"]:
                        return self.mutating_call(info, f.value, e.args, env, k)
                    return self.exprs(e.args, env, lambda ats: self.apply(info["gname"], info["pure"], [t] + info["ptypes"], info["ret"], [(a, t)] + ats, k, f.attr))
                raise Untranslatable("method %s on a value of type %s" % (f.attr, t))
            return self.expr(f.value, env, fin)
        raise Untranslatable("call of " + ast.dump(f)[:60])

    def mutating_call(self, info, receiver, args, env, k):
        """a call that mutates its receiver (method) or one argument (function): that operand must be a variable this
        function is itself declared to mutate, or an object it owns; the variable is rebound to the final object"""
        self.effect()
        operands = ([receiver] if receiver is not None else []) + list(args)
        ptypes = ([info["cls"]] if receiver is not None else []) + info["ptypes"]
        if len(operands) != len(ptypes):
            raise Untranslatable("arity of %s" % info["gname"])
        mpos = info["mut"]
        if len(mpos) != 1:
            raise Untranslatable("call of a function that mutates %d operands" % len(mpos))
        m = operands[mpos[0]]
        if not isinstance(m, ast.Name) or m.id not in env:
            raise Untranslatable("the mutated operand of %s is not a variable" % info["gname"])
        if m.id not in self.mut_names and env[m.id][1] != "O":
            raise Untranslatable("%s mutates %s, which %s neither owns nor is declared to mutate" % (info["gname"], m.id, self.key))

        def fin(ats):
            argv = [coerce(a, t, w, "argument of %s" % info["gname"]) for (a, t), w in zip(ats, ptypes)]
            v = self.fresh()
            return "do (%s, %s) <- %s %s;\n%s" % (v, m.id, info["gname"], " ".join(argv), k(v, info["ret"]))
        return self.exprs(operands, env, fin)

    def construct(self, cname, e, env, k):
        ty = CLASS_TY[cname]
        info = self.unit.translate("types:%s.__init__" % cname)
        pn, pt, dflt = info["pnames"], info["ptypes"], info["defaults"]
        if len(e.args) > len(pn):
            raise Untranslatable("%s(..) with %d positional arguments" % (cname, len(e.args)))
        slots = {}
        order = []
        for i, a in enumerate(e.args):
            slots[pn[i]] = a
            order.append(pn[i])
        for kw in e.keywords:
            if kw.arg is None or kw.arg not in pn or kw.arg in slots:
                raise Untranslatable("%s(..) keyword %s" % (cname, kw.arg))
            slots[kw.arg] = kw.value
            order.append(kw.arg)
        for p in pn:
            if p not in slots and not dflt.get(p):
                raise Untranslatable("%s(..) without the argument %s" % (cname, p))

        def fin(ats):
            got = dict(zip(order, ats))
            argv = []
            for p, w in zip(pn, pt):
                if p in got:
                    argv.append(coerce(got[p][0], got[p][1], w, "argument %s of %s" % (p, cname)))
                else:
                    argv.append("None")
            return k("(%s %s)" % (info["gname"], " ".join(argv)), ty)
        return self.exprs([slots[p] for p in order], env, fin)

    # ------------------------------------------------------------ conditions
    def cond(self, e, env, k, truth=True):
        """k(bool atom) -> text"""
        if isinstance(e, ast.BoolOp):
            isand = isinstance(e.op, ast.And)
            vals = e.values

            def go(i, kk):
                if i == len(vals) - 1:
                    return self.cond(vals[i], env, kk)

                def after(c):
                    p, a, _, txt = self.sub(lambda r: go(i + 1, r))
                    if p:
                        return kk("(%s %s %s)" % (c, "&&" if isand else "||", a))
                    self.effect()
                    v = self.fresh()
                    rest = txt.replace(SENT, "Ok " + a)
                    if isand:
                        return "do %s <- (if %s then (%s) else Ok false);\n%s" % (v, c, rest, kk(v))
                    return "do %s <- (if %s then Ok true else (%s));\n%s" % (v, c, rest, kk(v))
                return self.cond(vals[i], env, after)
            return go(0, k)
        if isinstance(e, ast.UnaryOp) and isinstance(e.op, ast.Not):
            return self.cond(e.operand, env, lambda c: k("(negb %s)" % c))
        if isinstance(e, ast.Compare):
            if len(e.ops) != 1:
                raise Untranslatable("chained comparison")
            op = e.ops[0]

            def fin(ats):
                (a, ta), (b, tb) = ats
                if ta != "Z" or tb != "Z":
                    raise Untranslatable("comparison of %s and %s" % (ta, tb))
                if isinstance(op, ast.Eq): return k("(%s =? %s)" % (a, b))
                if isinstance(op, ast.NotEq): return k("(negb (%s =? %s))" % (a, b))
                if isinstance(op, ast.Lt): return k("(%s <? %s)" % (a, b))
                if isinstance(op, ast.LtE): return k("(%s <=? %s)" % (a, b))
                if isinstance(op, ast.Gt): return k("(%s <? %s)" % (b, a))
                if isinstance(op, ast.GtE): return k("(%s <=? %s)" % (b, a))
                raise Untranslatable("comparison %s" % type(op).__name__)
            return self.exprs([e.left, e.comparators[0]], env, fin)

        def fin(a, t):
            if t == "B":
                return k(a)
            if not truth:
                raise Untranslatable("truth value used as a value")
            if t == "LR":
                return k("(py_nonempty %s)" % a)
            if t == "OLR":
                return k("(py_truthy_olist %s)" % a)
            if t == "ON":
                return k("(py_truthy_onum %s)" % a)
            if t == "Z":
                return k("(negb (%s =? 0))" % a)
            if t == "N":
                return k("(p_truthy %s)" % a)
            raise Untranslatable("truth value of a %s" % (t,))
        return self.expr(e, env, fin)

    # ------------------------------------------------------------ statements
    def terminates(self, stmts):
        if not stmts:
            return False
        last = stmts[-1]
        if isinstance(last, (ast.Return, ast.Raise, ast.Break, ast.Continue)):
            return True
        if isinstance(last, ast.If):
            return self.terminates(last.body) and bool(last.orelse) and self.terminates(last.orelse)
        return False

    def root_name(self, e):
        while isinstance(e, (ast.Attribute, ast.Subscript)):
            e = e.value
        return e.id if isinstance(e, ast.Name) else None

    def assigned(self, stmts):
        """names whose value (or the object they denote) a block may change"""
        out = set()
        for s in stmts:
            for n in ast.walk(s):
                if isinstance(n, ast.Name) and isinstance(n.ctx, (ast.Store, ast.Del)):
                    out.add(n.id)
                elif isinstance(n, (ast.Attribute, ast.Subscript)) and isinstance(n.ctx, (ast.Store, ast.Del)):
                    r = self.root_name(n)
                    if r is None:
                        raise Untranslatable("store through " + ast.dump(n)[:60])
                    out.add(r)
                elif isinstance(n, ast.Call) and isinstance(n.func, ast.Attribute):
                    r = self.root_name(n.func.value)
                    if n.func.attr in ("pop", "extend", "append", "insert", "remove", "clear", "sort", "reverse", "resolve"):
                        if r is None:
                            raise Untranslatable("mutating call on " + ast.dump(n.func.value)[:60])
                        out.add(r)
                elif isinstance(n, ast.Call) and isinstance(n.func, ast.Name) and ("functions:" + n.func.id) in DECL \
                        and DECL["functions:" + n.func.id].get("mutates"):
                    for i in DECL["functions:" + n.func.id]["mutates"]:
                        if i < len(n.args):
                            r = self.root_name(n.args[i])
                            if r is not None:
                                out.add(r)
        return out

    def loads(self, nodes):
        out = set()
        for s in nodes:
            for n in ast.walk(s):
                if isinstance(n, ast.Name):
                    out.add(n.id)
        return out

    def has_jump(self, stmts, kinds):
        for s in stmts:
            if isinstance(s, kinds):
                return True
            if isinstance(s, (ast.While, ast.For)):
                if ast.Return in kinds and any(isinstance(n, ast.Return) for n in ast.walk(s)):
                    return True
                continue
            for f in ("body", "orelse"):
                if self.has_jump(getattr(s, f, []) or [], kinds):
                    return True
        return False

    def ret_text(self, a, t):
        v = coerce(a, t, self.ret, "returned value")
        if self.mut_names:
            return "Ok (%s, %s)" % (v, ", ".join(self.mut_names))
        return "Ok %s" % v

    def bind_name(self, name, env, ty, own):
        self.check_name(name)
        if name in self.mut_names or name == self.selfname:
            raise Untranslatable("assignment to %s" % name)
        env[name] = (ty, own)

    def block(self, stmts, env, K_):
        if not stmts:
            return K_.fall(env)
        s, rest = stmts[0], stmts[1:]
        if isinstance(s, ast.Expr) and isinstance(s.value, ast.Constant) and isinstance(s.value.value, str):
            return self.block(rest, env, K_)
        if isinstance(s, ast.Pass):
            return self.block(rest, env, K_)
        if isinstance(s, ast.Return):
            if K_.in_loop:
                raise Untranslatable("return inside a loop")
            if s.value is None:
                raise Untranslatable("return without a value")
            return self.expr(s.value, env, self.ret_text)
        if isinstance(s, ast.Break):
            if K_.brk is None:
                raise Untranslatable("break here")
            return K_.brk(env)
        if isinstance(s, ast.Continue):
            if K_.cont is None:
                raise Untranslatable("continue here")
            return K_.cont(env)
        if isinstance(s, ast.If):
            return self.if_stmt(s, rest, env, K_)
        if isinstance(s, ast.While):
            return self.while_stmt(s, rest, env, K_)
        if isinstance(s, ast.For):
            return self.for_stmt(s, rest, env, K_)
        if isinstance(s, ast.Assign):
            if len(s.targets) != 1:
                raise Untranslatable("chained assignment")
            return self.assign(s.targets[0], s.value, rest, env, K_)
        if isinstance(s, ast.AugAssign):
            return self.augassign(s, rest, env, K_)
        if isinstance(s, ast.Expr) and isinstance(s.value, ast.Call):
            return self.call_stmt(s.value, rest, env, K_)
        raise Untranslatable("statement " + type(s).__name__)

    def if_stmt(self, s, rest, env, K_):
        def arms(env_then):
            th = self.block(list(s.body) + ([] if self.terminates(s.body) else rest), dict(env_then), K_)
            els = list(s.orelse)
            el = self.block(els + ([] if els and self.terminates(els) else rest), dict(env), K_)
            return th, el
        t = s.test
        if isinstance(t, ast.Call) and isinstance(t.func, ast.Name) and t.func.id == "isinstance" and t.func.id not in env:
            self.mod.builtin("isinstance")
            if t.keywords or len(t.args) != 2 or not isinstance(t.args[0], ast.Name) or not isinstance(t.args[1], ast.Name):
                raise Untranslatable("isinstance shape")
            v, cls = t.args[0].id, t.args[1].id
            if cls != "int" or cls in env or env.get(v, ("",))[0] != "N":
                raise Untranslatable("isinstance(%s, %s)" % (v, cls))
            self.mod.builtin("int")
            if v in self.mut_names:
                raise Untranslatable("isinstance on a mutated operand")
            env1 = dict(env)
            env1[v] = ("Z", "")
            th, el = arms(env1)
            return "match %s with NInt %s => (%s)\n| _ => (%s) end" % (v, v, th, el)

        def after(c):
            th, el = arms(env)
            return "if %s then (%s)\nelse (%s)" % (c, th, el)
        return self.cond(t, env, after)

    def may_store(self, obj, env):
        if obj not in env:
            raise Untranslatable("name %s is not bound here" % obj)
        if obj == self.selfname and self.decl.get("mutates_self"):
            return
        if env[obj][1] == "O":
            return
        raise Untranslatable("attribute store on %s, an object %s does not own" % (obj, self.key))

    def assign(self, tgt, value, rest, env, K_):
        # x = l.pop()
        if isinstance(tgt, ast.Name) and isinstance(value, ast.Call) and isinstance(value.func, ast.Attribute) \
                and value.func.attr == "pop" and isinstance(value.func.value, ast.Name) \
                and env.get(value.func.value.id, ("",))[0] == "LR":
            l = value.func.value.id
            if value.args or value.keywords:
                raise Untranslatable("pop with an argument")
            if env[l][1] not in ("L", "LE"):
                raise Untranslatable("pop on %s, a list %s does not own" % (l, self.key))
            if tgt.id == l:
                raise Untranslatable("l = l.pop()")
            self.effect()
            env2 = dict(env)
            self.bind_name(tgt.id, env2, "R", "O" if env[l][1] == "LE" else "")
            return "do (%s, %s) <- py_pop %s;\n%s" % (tgt.id, l, l, self.block(rest, env2, K_))
        if isinstance(tgt, ast.Name):
            own = self.freshness(value, env)

            def fin(a, t):
                if t == "NONE" or isinstance(t, tuple):
                    raise Untranslatable("a variable of type %s" % (t,))
                env2 = dict(env)
                self.bind_name(tgt.id, env2, t, own if t in ("R", "LR") else "")
                return "let %s := %s in\n%s" % (tgt.id, a, self.block(rest, env2, K_))
            return self.expr(value, env, fin)
        if isinstance(tgt, ast.Tuple) and all(isinstance(x, ast.Name) for x in tgt.elts):
            names = [x.id for x in tgt.elts]
            if len(set(names)) != len(names):
                raise Untranslatable("repeated name in a tuple target")

            def fin(a, t):
                if not isinstance(t, tuple) or len(t[1]) != len(names):
                    raise Untranslatable("unpacking of %s into %d names" % (t, len(names)))
                env2 = dict(env)
                for n, ty in zip(names, t[1]):
                    self.bind_name(n, env2, ty, "")
                return "let '(%s) := %s in\n%s" % (", ".join(names), a, self.block(rest, env2, K_))
            return self.expr(value, env, fin)
        if isinstance(tgt, ast.Attribute) and isinstance(tgt.value, ast.Name):
            obj = tgt.value.id
            self.may_store(obj, env)
            ty = env[obj][0]
            _, fty = self.proj(ty, tgt.attr)

            def fin(a, t):
                new = coerce(a, t, fty, "value stored in .%s" % tgt.attr)
                return "let %s := %s in\n%s" % (obj, self.with_field(obj, ty, tgt.attr, new), self.block(rest, dict(env), K_))
            return self.expr(value, env, fin)
        raise Untranslatable("assignment target " + ast.dump(tgt)[:60])

    def arith(self, op, a, b, k):
        """Z op Z for an augmented assignment"""
        if isinstance(op, (ast.Add, ast.Sub, ast.Mult)):
            return k("(%s %s %s)" % (a, {ast.Add: "+", ast.Sub: "-", ast.Mult: "*"}[type(op)], b))
        if isinstance(op, (ast.Mod, ast.FloorDiv)):
            self.effect()
            v = self.fresh()
            return "do %s <- %s %s %s;\n%s" % (v, "py_mod" if isinstance(op, ast.Mod) else "py_floordiv", a, b, k(v))
        raise Untranslatable("augmented operator %s" % type(op).__name__)

    def augassign(self, s, rest, env, K_):
        tgt = s.target
        if isinstance(tgt, ast.Name):
            x = tgt.id
            if x not in env or env[x][0] != "Z":
                raise Untranslatable("augmented assignment to %s" % x)

            def fin(a, t):
                if t != "Z":
                    raise Untranslatable("augmented assignment with a %s" % (t,))
                env2 = dict(env)
                self.bind_name(x, env2, "Z", "")
                return self.arith(s.op, x, a, lambda r: "let %s := %s in\n%s" % (x, r, self.block(rest, env2, K_)))
            return self.expr(s.value, env, fin)
        if isinstance(tgt, ast.Attribute) and isinstance(tgt.value, ast.Name):
            obj = tgt.value.id
            self.may_store(obj, env)
            ty = env[obj][0]
            p, fty = self.proj(ty, tgt.attr)
            if fty != "Z":
                raise Untranslatable("augmented assignment to .%s" % tgt.attr)

            def fin(a, t):
                if t != "Z":
                    raise Untranslatable("augmented assignment with a %s" % (t,))
                return self.arith(s.op, "(%s %s)" % (p, obj), a, lambda r: "let %s := %s in\n%s" % (
                    obj, self.with_field(obj, ty, tgt.attr, r), self.block(rest, dict(env), K_)))
            return self.expr(s.value, env, fin)
        if isinstance(tgt, ast.Attribute) and isinstance(tgt.value, ast.Subscript) and isinstance(tgt.value.value, ast.Name) \
                and not isinstance(tgt.value.slice, ast.Slice):
            l = tgt.value.value.id
            if env.get(l, ("",))[0] != "LR" or env[l][1] != "LE":
                raise Untranslatable("store into an element of %s, whose elements %s does not own" % (l, self.key))
            p, fty = self.proj("R", tgt.attr)
            if fty != "Z":
                raise Untranslatable("augmented assignment to .%s" % tgt.attr)
            pi, ia, it, _ = self.sub(lambda r: self.expr(tgt.value.slice, env, r))
            if not pi or it != "Z":
                raise Untranslatable("index of an element store must be a pure integer")
            self.effect()
            el = self.fresh()

            def fin(a, t):
                if t != "Z":
                    raise Untranslatable("augmented assignment with a %s" % (t,))
                return self.arith(s.op, "(%s %s)" % (p, el), a, lambda r: "do %s <- py_setitem %s %s %s;\n%s" % (
                    l, l, ia, self.with_field(el, "R", tgt.attr, r), self.block(rest, dict(env), K_)))
            return "do %s <- py_index %s %s;\n%s" % (el, l, ia, self.expr(s.value, env, fin))
        raise Untranslatable("augmented assignment target " + ast.dump(tgt)[:60])

    def call_stmt(self, c, rest, env, K_):
        f = c.func
        if isinstance(f, ast.Attribute) and isinstance(f.value, ast.Name) and env.get(f.value.id, ("",))[0] == "LR" \
                and f.attr in ("pop", "extend", "append") and not c.keywords:
            l = f.value.id
            if env[l][1] not in ("L", "LE"):
                raise Untranslatable("%s on %s, a list %s does not own" % (f.attr, l, self.key))
            if f.attr == "pop":
                if c.args:
                    raise Untranslatable("pop with an argument")
                self.effect()
                return "do (_, %s) <- py_pop %s;\n%s" % (l, l, self.block(rest, dict(env), K_))
            if len(c.args) != 1:
                raise Untranslatable("%s arity" % f.attr)
            argfresh = self.freshness(c.args[0], env)
            if isinstance(c.args[0], ast.Name) and c.args[0].id in env:
                argfresh = env[c.args[0].id][1]

            def fin(a, t):
                env2 = dict(env)
                if f.attr == "extend":
                    if t != "LR":
                        raise Untranslatable("extend with a %s" % (t,))
                    keep = argfresh == "LE"
                    new = "(%s ++ %s)" % (l, a)
                else:
                    if t != "R":
                        raise Untranslatable("append of a %s" % (t,))
                    keep = argfresh == "O"
                    new = "(%s ++ [%s])" % (l, a)
                env2[l] = ("LR", env[l][1] if keep else "L")
                return "let %s := %s in\n%s" % (l, new, self.block(rest, env2, K_))
            return self.expr(c.args[0], env, fin)
        raise Untranslatable("expression statement " + ast.dump(c)[:60])

    # ------------------------------------------------------------ loops
    def loop_frame(self, body, extra_nodes, env, exclude=()):
        asg = self.assigned(body)
        state = [v for v in env if v in asg and v not in exclude]
        used = self.loads(list(body) + list(extra_nodes))
        free = [v for v in env if v in used and v not in state and v not in exclude]
        return asg, state, free

    def same_state(self, state, env0, env2, what, tag):
        for v in state:
            if v not in env2 or env2[v][0] != env0[v][0]:
                raise Untranslatable("%s changes the type of %s" % (what, v))
            a, b = env0[v][1], env2[v][1]
            m = a if a == b else ("L" if {a, b} == {"L", "LE"} else "")
            if m != a:
                # the object is owned less at the end of an iteration than at its start: compile the loop again
                # with the weaker assumption (ownership only ever restricts what is translatable)
                raise Weaker(tag, v, m)

    def stable(self, compile_loop, env):
        env = dict(env)
        tag = object()
        while True:
            saved = (self.n, self.loops, len(self.aux))
            try:
                return compile_loop(env, tag)
            except Weaker as w:
                if w.tag is not tag:
                    raise
                self.n, self.loops = saved[0], saved[1]
                del self.aux[saved[2]:]
                env[w.var] = (env[w.var][0], w.own)

    def while_stmt(self, s, rest, env, K_):
        return self.stable(lambda e, tag: self.while_stmt1(s, rest, e, K_, tag), env)

    def for_stmt(self, s, rest, env, K_):
        return self.stable(lambda e, tag: self.for_stmt1(s, rest, e, K_, tag), env)

    def while_stmt1(self, s, rest, env, K_, tag):
        if s.orelse:
            raise Untranslatable("while ... else")
        self.effect()
        self.loops += 1
        idx = self.loops
        name = "%s_loop%d" % (self.gname, idx)
        fuel = LOOP_FUEL.get((self.key, idx))
        if fuel is None:
            raise Untranslatable("no fuel recorded for loop %d of %s" % (idx, self.key))
        for ident in re.findall(r"[A-Za-z_][A-Za-z_0-9.']*", fuel):
            if ident not in FUEL_FUNS and ident not in env:
                raise Untranslatable("fuel of loop %d of %s mentions %s, which is not in scope" % (idx, self.key, ident))
        if self.has_jump(s.body, (ast.Return,)):
            raise Untranslatable("return inside a loop")
        asg, state, free = self.loop_frame(s.body, [s.test], env)
        for v in state:
            if v in self.mut_names:
                raise Untranslatable("loop mutating %s" % v)
        env_in = {v: env[v] for v in env if v in free or v in state}
        call = lambda f: " ".join([name, f] + free + state)

        def recur(env2):
            self.same_state(state, env, env2, "loop %d" % idx, tag)
            return call("fuel'")

        def done(env2):
            self.same_state(state, env, env2, "loop %d" % idx, tag)
            return "Ok %s" % tuple_val(state)
        pc, ca, _, _ = self.sub(lambda r: self.cond(s.test, env_in, r))
        if not pc:
            raise Untranslatable("loop test with an effect")
        body = self.block(list(s.body), dict(env_in), K(recur, brk=done, cont=recur, in_loop=True))
        binders = " ".join("(%s : %s)" % (v, coq_ty(env[v][0])) for v in free + state)
        self.aux.append("Fixpoint %s (fuel : nat) %s {struct fuel} : res %s :=\nif %s then\n  match fuel with\n  | O => Raise OutOfFuel\n  | S fuel' =>\n%s\n  end\nelse %s." % (
            name, binders, tuple_ty([env[v][0] for v in state]), ca, body, "Ok %s" % tuple_val(state)))
        env_after = dict(env)
        return "do %s <- %s;\n%s" % (tuple_pat(state), call("(%s)" % fuel), self.block(rest, env_after, K_))

    def for_stmt1(self, s, rest, env, K_, tag):
        if s.orelse:
            raise Untranslatable("for ... else")
        if not isinstance(s.target, ast.Name):
            raise Untranslatable("for target")
        self.effect()
        x = s.target.id
        self.check_name(x)
        if x in env:
            raise Untranslatable("loop variable %s is already bound" % x)
        if self.has_jump(s.body, (ast.Return, ast.Break, ast.Continue)):
            raise Untranslatable("return/break/continue inside a for loop")
        self.loops += 1
        idx = self.loops
        name = "%s_loop%d" % (self.gname, idx)
        pi, ia, it, _ = self.sub(lambda r: self.expr(s.iter, env, r))
        if not pi or it != "LR":
            raise Untranslatable("for over something else than a pure list expression")
        root = self.root_name(s.iter)
        asg, state, free = self.loop_frame(s.body, [], env, exclude=(x,))
        if root is None or root in asg:
            raise Untranslatable("the list iterated over is modified inside the loop")
        for v in state:
            if v in self.mut_names:
                raise Untranslatable("loop mutating %s" % v)
        elem_owned = isinstance(s.iter, ast.Name) and env[root][1] == "LE"
        stores_x = any(isinstance(n, ast.Attribute) and isinstance(n.ctx, ast.Store) and self.root_name(n) == x
                       for st in s.body for n in ast.walk(st))
        env_in = {v: env[v] for v in env if v in free or v in state}
        env_in[x] = ("R", "O" if elem_owned else "")
        call = lambda l: " ".join([name] + free + [l] + state)

        def recur(env2):
            self.same_state(state, env, env2, "loop %d" % idx, tag)
            return call("items'")
        body = self.block(list(s.body), dict(env_in), K(recur, in_loop=True))
        binders = " ".join(["(%s : %s)" % (v, coq_ty(env[v][0])) for v in free] + ["(items : list range)"] +
                           ["(%s : %s)" % (v, coq_ty(env[v][0])) for v in state])
        self.aux.append("Fixpoint %s %s {struct items} : res %s :=\nmatch items with\n| [] => Ok %s\n| %s :: items' =>\n%s\nend." % (
            name, binders, tuple_ty([env[v][0] for v in state]), tuple_val(state), x, body))
        env_after = dict(env)
        if elem_owned and stores_x:
            # the elements were changed in place: the list must not be looked at again
            del env_after[root]
        return "do %s <- %s;\n%s" % (tuple_pat(state), call(ia), self.block(rest, env_after, K_))


# ------------------------------------------------------------------ the package
class Unit:
    def __init__(self):
        self.mods = {m: Module(m) for m in ("types", "functions", "utils")}
        self.done = {}
        self.active = set()
        self.emitted = []

    def translate(self, key):
        if key in self.done:
            if isinstance(self.done[key], Untranslatable):
                raise Untranslatable("callee %s is untranslatable" % key)
            return self.done[key]
        if key in self.active:
            raise Untranslatable("recursion through %s" % key)
        self.active.add(key)
        try:
            info = self._translate(key)
            self.done[key] = info
            self.emitted.append((key, info["text"]))
            return info
        except Untranslatable as x:
            self.done[key] = x
            self.emitted.append((key, "(* UNTRANSLATABLE %s: %s *)" % (key, clean(x))))
            raise
        finally:
            self.active.discard(key)

    def _translate(self, key):
        decl = DECL[key]
        mname, qual = key.split(":")
        mod = self.mods[mname]
        node = mod.find(qual)
        a = node.args
        if a.vararg or a.kwarg or a.kwonlyargs or a.kw_defaults or getattr(a, "posonlyargs", []) or node.decorator_list:
            raise Untranslatable("parameter list / decorators of %s" % key)
        for n in ast.walk(node):
            if isinstance(n, (ast.Global, ast.Nonlocal, ast.FunctionDef, ast.Lambda, ast.AsyncFunctionDef, ast.ClassDef,
                              ast.Yield, ast.YieldFrom, ast.Await, ast.Try, ast.With)) and n is not node:
                raise Untranslatable("%s inside %s" % (type(n).__name__, key))
        pnames = [x.arg for x in a.args]
        off = 0 if decl["kind"] == "fun" else 1
        if len(pnames) - off != len(decl["params"]) or (off and not pnames):
            raise Untranslatable("%s has %d parameters, declared %d" % (key, len(pnames) - off, len(decl["params"])))
        if len(set(pnames)) != len(pnames):
            raise Untranslatable("repeated parameter name")
        # defaults: only None, and only where the declared type is an option
        defaults = {}
        nd = len(a.defaults)
        for p, dv, ty in zip(pnames[len(pnames) - nd:], a.defaults, (["self"] * off + decl["params"])[len(pnames) - nd:]):
            if not (isinstance(dv, ast.Constant) and dv.value is None) or ty not in ("OLR", "ON"):
                raise Untranslatable("default value of %s" % p)
            defaults[p] = True
        if defaults and decl["kind"] != "ctor":
            raise Untranslatable("default values outside a constructor")
        fn = Fn(self, key, node, decl, pnames)
        for p in pnames:
            fn.check_name(p) if p not in ("lo", "hi") else None
        env = {}
        if off:
            env[pnames[0]] = (decl["cls"], "")
        for p, t in zip(pnames[off:], decl["params"]):
            env[p] = (t, "")
        binders = " ".join("(%s : %s)" % (p, coq_ty(env[p][0])) for p in pnames if not (decl["kind"] == "ctor" and p == pnames[0]))
        head = "(* %s.py:%d  %s *)\n" % (mname, node.lineno, qual)
        body = [s for s in node.body if not (isinstance(s, ast.Expr) and isinstance(s.value, ast.Constant) and isinstance(s.value.value, str))]
        if decl["kind"] == "ctor":
            text = head + self.ctor(fn, decl, pnames, env, body, binders)
            return dict(key=key, gname=fn.gname, pure=True, ptypes=decl["params"], ret=decl["cls"], mut=[], cls=decl["cls"],
                        pnames=pnames[1:], defaults=defaults, text=text)
        mut = []
        if decl.get("mutates_self"):
            mut.append(0)
        for i in decl.get("mutates", []):
            mut.append(i + off)
        if fn.pure:
            if len(body) != 1 or not isinstance(body[0], ast.Return) or body[0].value is None:
                raise Untranslatable("%s is declared pure but is not a single return" % key)
            p, at, ty, _ = fn.sub(lambda r: fn.expr(body[0].value, env, r))
            if not p:
                raise Untranslatable("%s is declared pure but has an effect" % key)
            text = head + "Definition %s %s : %s :=\n%s." % (fn.gname, binders, coq_ty(fn.ret), coerce(at, ty, fn.ret, "returned value"))
        else:
            def fall(env2):
                raise Untranslatable("fall-through (implicit return None)")
            main = fn.block(body, env, K(fall))
            rty = coq_ty(fn.ret)
            if fn.mut_names:
                rty = "(%s * %s)" % (rty, " * ".join(coq_ty(env[m][0]) for m in fn.mut_names))
            text = head + "".join(x + "\n" for x in fn.aux) + "Definition %s %s : res %s :=\n%s." % (fn.gname, binders, rty, main)
        return dict(key=key, gname=fn.gname, pure=fn.pure, ptypes=decl["params"], ret=fn.ret, mut=mut, cls=decl.get("cls"),
                    pnames=pnames[off:], defaults=defaults, text=text)

    def ctor(self, fn, decl, pnames, env, body, binders):
        cls = decl["cls"]
        selfname = pnames[0]
        env = {p: env[p] for p in pnames[1:]}
        got = {}
        for s in body:
            if not (isinstance(s, ast.Assign) and len(s.targets) == 1 and isinstance(s.targets[0], ast.Attribute)
                    and isinstance(s.targets[0].value, ast.Name) and s.targets[0].value.id == selfname):
                raise Untranslatable("statement of %s.__init__ that is not `self.<field> = ..`" % TY_CLASS[cls])
            f = s.targets[0].attr
            _, fty = fn.proj(cls, f)
            if f in got:
                raise Untranslatable("field %s is assigned twice" % f)
            if any(isinstance(n, ast.Name) and n.id == selfname for n in ast.walk(s.value)):
                raise Untranslatable("__init__ reads self")
            p, a, t, _ = fn.sub(lambda r: fn.expr(s.value, env, r))
            if not p:
                raise Untranslatable("field %s is initialised with an effect" % f)
            got[f] = coerce(a, t, fty, "initial value of .%s" % f)
        missing = [f for f, _, _ in FIELDS[cls] if f not in got]
        if missing:
            raise Untranslatable("fields %s are not initialised" % missing)
        return "Definition %s %s : %s :=\n%s %s." % (fn.gname, binders, coq_ty(cls), RECORD_CTOR[cls],
                                                      " ".join("(%s)" % got[f] for f, _, _ in FIELDS[cls]))

    # ---------------------------------------------------------------- registrations
    def registrations(self):
        mod = self.mods["functions"]
        mod.need("Combinatoric")
        rf = mod.find("register_function")
        ps = [a.arg for a in rf.args.args][:3]
        if ps != ["f", "name", "arg_types"]:
            raise Untranslatable("register_function parameters %s" % ps)
        ok = False
        for n in ast.walk(rf):
            if isinstance(n, ast.Call) and isinstance(n.func, ast.Name) and n.func.id == "FunctionHeader":
                if len(n.args) >= 3 and isinstance(n.args[0], ast.Name) and n.args[0].id == "name" \
                        and isinstance(n.args[1], ast.Name) and n.args[1].id == "f" \
                        and isinstance(n.args[2], ast.Call) and isinstance(n.args[2].func, ast.Name) \
                        and n.args[2].func.id == "FunctionSignature" and n.args[2].args \
                        and isinstance(n.args[2].args[0], ast.Name) and n.args[2].args[0].id == "arg_types":
                    ok = True
        if not ok:
            raise Untranslatable("register_function no longer builds FunctionHeader(name, f, FunctionSignature(arg_types, ..))")
        rows = []

        def sig_of(e):
            if not isinstance(e, ast.Tuple) or not all(isinstance(x, ast.Name) for x in e.elts):
                raise Untranslatable("signature at line %d" % e.lineno)
            return [x.id for x in e.elts]

        def row(call, sigs):
            if not (isinstance(call, ast.Call) and isinstance(call.func, ast.Name) and call.func.id == "register_function"
                    and len(call.args) == 3 and not call.keywords and isinstance(call.args[0], ast.Name)
                    and isinstance(call.args[1], ast.Constant) and isinstance(call.args[1].value, str)):
                raise Untranslatable("statement mentioning Combinatoric at line %d is not register_function(F, \"NAME\", SIG)" % call.lineno)
            fname = call.args[0].id
            if mod.bound_to(fname) != "def":
                raise Untranslatable("registered object %s is not a module-level def" % fname)
            for sg in sigs(call.args[2]):
                rows.append((call.args[1].value, sg, "ka.functions." + fname, fname))
        for s in mod.tree.body:
            if isinstance(s, (ast.FunctionDef, ast.ClassDef, ast.Import, ast.ImportFrom)):
                continue
            if not any(isinstance(n, ast.Name) and n.id == "Combinatoric" for n in ast.walk(s)):
                continue
            if isinstance(s, ast.If) and isinstance(s.test, ast.Compare) and isinstance(s.test.left, ast.Name) \
                    and s.test.left.id == "__name__" and not s.orelse and not any(
                        isinstance(n, ast.Name) and (n.id.startswith("register") or n.id in ("FUNCTIONS", "FunctionHeader"))
                        for n in ast.walk(s)):
                continue        # the module's self-test: registers nothing
            if isinstance(s, ast.Expr):
                row(s.value, lambda e: [sig_of(e)])
            elif isinstance(s, ast.For) and not s.orelse and isinstance(s.target, ast.Name) and isinstance(s.iter, ast.Tuple) \
                    and len(s.body) == 1 and isinstance(s.body[0], ast.Expr):
                var = s.target.id
                alls = [sig_of(x) for x in s.iter.elts]

                def sigs(e, var=var, alls=alls):
                    if not (isinstance(e, ast.Name) and e.id == var):
                        raise Untranslatable("signature at line %d" % e.lineno)
                    return alls
                row(s.body[0].value, sigs)
            else:
                raise Untranslatable("statement mentioning Combinatoric at line %d" % s.lineno)
        return rows

    def attr_stores(self):
        out = []
        srcdir = os.path.join(C.SRC, "ka")
        for fn in sorted(os.listdir(srcdir)):
            if not fn.endswith(".py"):
                continue
            short = fn[:-3]
            wide = short in ("types", "functions", "utils")
            tree = self.mods[short].tree if short in self.mods else ast.parse(open(os.path.join(srcdir, fn), encoding="utf-8").read())

            def walk(node, qual):
                for ch in ast.iter_child_nodes(node):
                    if isinstance(ch, (ast.FunctionDef, ast.AsyncFunctionDef, ast.ClassDef)):
                        walk(ch, (qual + "." if qual else "") + ch.name)
                        continue
                    if isinstance(ch, ast.Attribute) and isinstance(ch.ctx, (ast.Store, ast.Del)):
                        if ch.attr in ("ns", "ds") or (wide and ch.attr in ("value", "lo", "hi")):
                            item = ("%s:%s" % (short, qual or "<module>"), ch.attr)
                            if item not in out:
                                out.append(item)
                    if isinstance(ch, ast.Call) and isinstance(ch.func, ast.Name) and ch.func.id in ("setattr", "delattr"):
                        item = ("%s:%s" % (short, qual or "<module>"), "<%s>" % ch.func.id)
                        if wide and item not in out:
                            out.append(item)
                    walk(ch, qual)
            walk(tree, "")
        return out


PREAMBLE = """From Coq Require Import ZArith QArith List String Bool.
From Ka Require Import Model.Num Model.Qty Model.Comb Gen.GenLogic Gen.GenNumSrc.
Import ListNotations.
Local Open Scope Z_scope.
"""

SHAPE = {"C": "PComb", "N": "PNum"}


def gen_regs(u, rows):
    L = ["Definition g_comb_registered : list (string * list string * string) := [\n  " + ";\n  ".join(
        "(%s, [%s], %s)" % (coq_str(n), "; ".join(coq_str(t) for t in sg), coq_str(key)) for n, sg, key, _ in rows) + "\n]%string.", ""]
    L.append("(* the function a key denotes, applied to operands of the shape it is declared for *)")
    L.append("Definition g_comb_run (key : string) (a b : pv) : res pv :=")
    seen = []
    for _, _, key, fname in rows:
        dk = "functions:" + fname
        if key in seen or dk not in DECL:
            continue
        seen.append(key)
        info = u.done.get(dk)
        if info is None or isinstance(info, Untranslatable):
            L.append("  (* %s: not translated, no case *)" % key)
            continue
        pt = info["ptypes"]
        if len(pt) != 2 or any(t not in SHAPE for t in pt) or info["mut"] or info["pure"]:
            raise Untranslatable("registered function %s has an unexpected declaration" % fname)
        L.append("  if String.eqb key %s%%string then\n    match a, b with\n    | %s x, %s y => bind (%s x y) (fun r => Ok %s)\n    | _, _ => Raise Unmodelled\n    end else" % (
            coq_str(key), SHAPE[pt[0]], SHAPE[pt[1]], info["gname"], coerce("r", info["ret"], "PV", "result")))
    L.append("  Raise Unmodelled.")
    return "\n".join(L)


def gen(dump):
    u = Unit()
    for key in ORDER:
        try:
            u.translate(key)
        except Untranslatable:
            pass
    L = ["(* GENERATED by harness/trans_comb.py from src/ka/types.py (IntRange, Combinatoric) and src/ka/functions.py",
         "   (the comb_* helpers and their registrations) by AST translation -- do not edit", MAPPING.rstrip("\n"),
         "   fuel per loop (not trusted): " + "; ".join("%s loop %d: %s" % (k[0], k[1], v) for k, v in sorted(LOOP_FUEL.items())),
         "*)", PREAMBLE, PRELUDE, "(* ---- translated functions *)"]
    for key, text in u.emitted:
        L.append(text)
        L.append("")
    L.append("(* ---- registrations mentioning Combinatoric, in source order: (name, signature, key of the registered function) *)")
    try:
        L.append(gen_regs(u, u.registrations()))
    except Untranslatable as x:
        L.append("(* UNTRANSLATABLE registrations: %s *)" % clean(x))
    L.append("")
    L.append("(* ---- every store to an attribute named ns / ds (all of ka/*.py) or value / lo / hi (types.py, functions.py,")
    L.append("   utils.py), by enclosing function *)")
    try:
        st = u.attr_stores()
        L.append("Definition g_attr_stores : list (string * string) := [\n  " + ";\n  ".join(
            "(%s, %s)" % (coq_str(a), coq_str(b)) for a, b in st) + "\n]%string.")
    except Exception as x:
        L.append("(* UNTRANSLATABLE attribute stores: %s *)" % clean(repr(x)))
    return "\n".join(L) + "\n"


GENERATES = {"GenCombSrc.v": gen}

if __name__ == "__main__":
    sys.stdout.write(gen({}))
