"""Entry point: ./check Cxx [--tier quick|thorough] [--replay FILE] | ./check setup"""
import sys, os, argparse, importlib, json, time, traceback
sys.path.insert(0, os.path.dirname(os.path.abspath(__file__)))
import common as C
import translate


def setup():
    runlock = C.run_lock()
    try:
        return _setup()
    finally:
        runlock.close()


def _setup():
    t0 = time.time()
    translate.run()
    bad = C.scan_forbidden()
    if bad:
        print("forbidden constructs in the Coq development:", bad)
        return 1
    # build what the claimed checks need (files of properties still under construction are not
    # part of the registered interface yet)
    import json
    man = json.load(open(os.path.join(C.VERIF, "MANIFEST.json")))
    targets = []
    for c in man["checks"]:
        mod = importlib.import_module("props." + c["property_id"].lower())
        targets += [t for t in mod.COQ_TARGETS if t not in targets]
    br = C.coq_make(targets)
    if not br.ok:
        print(br.text[-6000:])
        print("SETUP FAILED in", br.failed)
        return 1
    print("setup ok in %.1fs" % (time.time() - t0))
    return 0


def run_check(prop, tier, seed, replay):
    # one check at a time: coq/Gen is regenerated from the tree under test and shared by all runs
    runlock = C.run_lock()
    try:
        return _run_check(prop, tier, seed, replay)
    finally:
        runlock.close()


def _run_check(prop, tier, seed, replay):
    mod = importlib.import_module("props." + prop.lower())
    rep = C.Report(prop, tier, seed)
    rundir = C.make_rundir(prop)
    ctx = dict(tier=tier, seed=seed, rundir=rundir, report=rep, replay=replay, proof_ok=True, model_ok=True)
    try:
        translate.run()
        bad = C.scan_forbidden()
        if bad:
            rep.violation(dict(kind="forbidden-construct"), "Coq development contains %r" % (bad[:3],),
                          dict(files=bad), found_input=False)
        br = C.coq_make(mod.COQ_TARGETS)
        names = C.theorem_names("Properties/%s.v" % prop)
        rep.obligations = len(names) + len(getattr(mod, "EXTRA_OBLIGATIONS", []))
        if not br.ok:
            ctx["proof_ok"] = False
            ctx["build_failed"] = br.failed
            ctx["build_log"] = br.text[-4000:]
            C.log("proof build failed in: %s" % br.failed)
            C.log(br.text[-3000:])
            mb = C.coq_make(mod.MODEL_TARGETS)
            ctx["model_ok"] = mb.ok
            if any("ResolutionFacts" in f for f in br.failed):
                try:
                    ctx["failing_resolutions"] = C.failing_resolution_facts()
                    C.log("overload resolutions that changed: %r" % (ctx["failing_resolutions"][:5],))
                except Exception as x:
                    C.log("could not itemise resolution facts: %r" % (x,))
        else:
            ax, raw = C.print_assumptions(prop, names, rundir)
            if ax is None:
                ctx["proof_ok"] = False
                ctx["build_failed"] = ["Print Assumptions"]
                ctx["build_log"] = raw[-3000:]
            else:
                rep.discharged = rep.obligations
                used = sorted(set(a for v in ax.values() for a in v))
                notallowed = [a for a in used if a not in C.ALLOWED_AXIOMS]
                rep.coverage["axioms_per_theorem"] = {k: (v or "Closed under the global context") for k, v in ax.items()}
                if notallowed:
                    rep.violation(dict(kind="axiom"), "theorems depend on non-whitelisted axioms %r" % notallowed,
                                  dict(axioms=notallowed), found_input=False)
                # the facts tying the model to the source (regenerated tables, AST translations): counted as
                # obligations of this property, with their own assumptions
                tie = {}
                for t in mod.COQ_TARGETS:
                    if not t.startswith("GenFacts/"):
                        continue
                    fnames = C.assumption_targets(t[:-1])
                    m = t[:-3].replace("/", ".")
                    fax, fraw = C.print_assumptions(prop, fnames, rundir, module=m) if fnames else ({}, "")
                    if fax is None:
                        ctx["proof_ok"] = False
                        ctx["build_failed"] = ["Print Assumptions " + t]
                        ctx["build_log"] = fraw[-3000:]
                        break
                    bad_ax = sorted(set(a for v in fax.values() for a in v if a not in C.ALLOWED_AXIOMS))
                    if bad_ax:
                        rep.violation(dict(kind="axiom", file=t), "tie facts of %s depend on non-whitelisted axioms %r" % (t, bad_ax),
                                      dict(axioms=bad_ax), found_input=False)
                    tie[t[:-1]] = dict(lemmas=len(fnames), closed=sum(1 for v in fax.values() if not v),
                                       with_axioms={k: v for k, v in fax.items() if v})
                    rep.obligations += len(fnames)
                    rep.discharged += len(fnames)
                rep.coverage["tie_facts"] = tie
        rep.coverage["checker_cmd"] = "coq_makefile -f _CoqProject && make %s (coqc 8.16.1, full .vo) ; coqc Print Assumptions" % " ".join(mod.COQ_TARGETS)
        rep.coverage["trusted_base"] = C.TRUSTED_BASE + getattr(mod, "TRUSTED_EXTRA", [])
        rep.coverage["theorems"] = names
        mod.run(ctx)
        # results the harness could not even inspect (common._worker_call): each is a failing input of its own
        seen_where = set()
        for f in C.INSPECTION_FAILURES:
            key = f.get("escaped")
            if key in seen_where or len(seen_where) >= 5:
                continue
            seen_where.add(key)
            rep.violation(dict(kind="inspection-failed", where=key),
                          "%s: after evaluating `%s` the delivered result could not be inspected: %s: %s (on the unchanged tree this never happens: the value, or the process state the evaluation leaves behind, differs)"
                          % (prop, str(f.get("text"))[:200], key, f.get("msg")), dict(text=f.get("text"), outcome=key, message=f.get("msg")),
                          found_input=f.get("text") is not None)
        # a broken obligation is reported unless the search produced a failing input for it (a listed open finding is not one)
        if not ctx["proof_ok"] and not rep.unlisted_inputs():
            broken = C.failing_lemmas(ctx.get("build_log"))
            rep.violation(dict(kind="proof-obligation", files=ctx.get("build_failed")),
                          "proof obligations of %s no longer check: %s%s" % (prop, ctx.get("build_failed"),
                                                                            (" — first broken statement: " + broken[0]) if broken else ""),
                          dict(obligation_files=ctx.get("build_failed"), broken_statements=broken, log=ctx.get("build_log"),
                               changed_overload_resolutions=ctx.get("failing_resolutions")),
                          found_input=False)
    except Exception as x:
        traceback.print_exc()
        rep.violation(dict(kind="harness-error"), "check could not complete: %s" % (repr(x)[:300],),
                      dict(error=traceback.format_exc()), found_input=False)
    finally:
        C.cleanup_rundir(rundir)
    return rep.finish(level=getattr(mod, "LEVEL", "proof"))


def main():
    try:        # `kill -USR1 <pid>` prints the Python stack of a run that seems stuck
        import faulthandler, signal
        faulthandler.register(signal.SIGUSR1, all_threads=True)
    except Exception:
        pass
    ap = argparse.ArgumentParser()
    ap.add_argument("prop")
    ap.add_argument("--tier", default=os.environ.get("VERIF_TIER", "quick"))
    ap.add_argument("--replay", default=None)
    a = ap.parse_args()
    seed = int(os.environ.get("VERIF_SEED", "0") or 0)
    if a.prop == "setup":
        sys.exit(setup())
    sys.exit(run_check(a.prop.upper(), a.tier, seed, a.replay))


if __name__ == "__main__":
    main()
