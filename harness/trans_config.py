"""Translator plugin "config": the start-up code that properties C19 and C20 rest on -> two generated files,
regenerated on every run from the Python AST of the tree under check (C.SRC/ka/config.py, currency.py, the currency
part of units.py, load_history / save_history / history_enabled of interpret.py):

  coq/Gen/GenCurrencySrc.v  the prelude (trusted Gallina model of the Python constructs used), parse_currency_data,
                            DEFAULT_CURRENCY_DATA, has_currency, the base-currency `if`, register_unit, the registration
                            loop, SPECIAL_NAMES / SPECIAL_CURRENCY_SYMBOLS  — facts: coq/GenFacts/CurrencySrcFacts.v (C20)
  coq/Gen/GenConfigSrc.v    read_config_file, read_config, get, ConfigProperties, load_currency_data, the module-level
                            statements of units.py that load the table and choose the base, history_enabled,
                            load_history, save_history                       — facts: coq/GenFacts/ConfigSrcFacts.v (C19)

The facts prove the hand-written models (coq/Model/Config.v, coq/Model/Currency.v) equal to these definitions.

Fail-closed: a construct outside the handled subset raises Untranslatable; the function then gets a comment
`(* UNTRANSLATABLE name: why *)` and NO definition, so every fact that mentions it (and every translated function that
calls it) stops compiling.  Nothing is repaired or guessed: operand order, comparison, constants, branch order, which
exception classes a handler names, which message is printed to which stream are what the AST says.

The trusted construct mapping is MAPPING (copied into the generated files) together with the Gallina text of PRELUDE
and ENV_HELPERS."""
import ast, os, sys
from fractions import Fraction
sys.path.insert(0, os.path.dirname(os.path.abspath(__file__)))
import common as C
from pytrans import Untranslatable

MAPPING = r"""
   TRUSTED CONSTRUCT MAPPING (everything else is checked by GenFacts/ConfigSrcFacts.v)

   state       Module globals that the translated code reads or writes are fields of a state record that every
               function declared stateful takes and returns: `cworld` for config.py / currency.py / interpret.py
               (CONFIG -> w_CONFIG, a dict as association list with the most recent binding in front, as Model/Config.v;
               HAVE_READ -> w_HAVE_READ; what was printed to the stream passed as error_out / to sys.stderr / to
               sys.stdout -> w_error_out / w_stderr / w_stdout; what was written to the file opened for writing ->
               w_file), `uworld` for units.py (NAME_TO_UNIT, SYMBOL_TO_UNIT -> their KEY lists, most recent first;
               UNITS -> the units appended, in order).  A stateful function has type  args -> S -> pres A * S : the
               state SURVIVES an exception (Python does not roll back).  `global X` + `X = e` -> set_X; `D[k] = v` ->
               the key (and for CONFIG the value) consed in front; `UNITS.append(u)` -> appended at the end.
   results     `return e` -> POk e; falling off the end / bare return of a function declared unit -> POk tt;
               an exception is PRaise "<class name>" (Model/Currency.v's pres).  Every operation that can raise or touch
               the state is bound (sbind / pbind) IN SOURCE ORDER: arguments left to right, operands left to right,
               statements top to bottom; `a and b` / `a or b` / `A if c else B` may contain such operations only in
               their first operand.  An `if` without else, or whose branches do not all end in return/continue/break,
               continues with the statements after it IN BOTH BRANCHES (the rest is duplicated, each copy typed on its
               own: a local may hold a str on one path and an int on another).
   loops       `for x in L: body` -> sfor / pfor (left to right over the list; the locals assigned in the body that
               exist before the loop are threaded; `continue` -> FNext, `break` -> FBreak, `return e` -> FReturn e,
               which ends the function after the loop).  Locals first assigned inside the loop are per iteration.
   try         `try: B except (C1, C2) [as e]: H` -> stry / ptry B [C1; C2] H K: an exception of B whose class is a
               subclass of one of the NAMED classes (Model/Config.v is_subclass, hand-written ancestor table) runs H,
               any other propagates; exceptions of H and of the statements after the try are not caught.  One handler,
               no else / finally.  `with open(..) as f: B` -> bind f, then B (closing the file is not modelled).
   nested def  a function defined inside a function is a local Gallina function (taking the state if the enclosing
               function is stateful), called like any other.
   narrowing   `if x is None` / `if x is not None` / `if x:` on an optional object -> match x with Some x | None.
   types       declared in harness/trans_config.py (SPECS, NESTED, BLOCKS): str -> string, int -> Z, float -> Q (the
               exact value; rounding of `/` not modelled), bool, None-or-T -> option T, list, ConfigProperty -> cprop
               (name, default as text, num, boolean: the shape of Gen/GenConfig.v), CurrencyData(symbol, name,
               dollar_rate) -> cur = (symbol, name, rate) with .symbol/.name/.dollar_rate -> c_sym/c_name/c_rate,
               Unit(symbol, singular_name, plural_name, quantities, quantity_vector, multiple, offset) ->
               mk_gunit symbol singular plural multiple offset (quantities and quantity vectors are ERASED: see below).
               A value returned by config.get is a `gval`: GStored v (the cval stored in CONFIG: VStr / VInt / VBool
               by the static type of what was stored) or GDefault p (prop.default of property p, not looked into);
               a str where a gval is expected is GStored (VStr s).  Truth of a gval: Model/Config.v truthy of the
               stored value resp. of default_of p.  `x == g` for a str x and a gval g: gval_eq_str (false unless the
               value is a str; a default is compared through its text in the property table, a Path default being the
               placeholder "<path>" as in Gen/GenConfig.v).  `int == str` is false.
   files       the file system is the parameter fs : pathkey -> fstate of Model/Config.v; CONFIG_PATH -> PConfig; a
               gval used as a path -> gval_path: GStored (VStr s) -> PUser s, GDefault p -> PDefault (name of p), else
               TypeError.  os.path.exists(p) -> path_exists (fs p); os.path.isfile(p) -> path_isfile (fs p);
               open(p) / open(p, "r") -> open_read (fs p): ALL errors of opening, reading and decoding are raised here
               and the handle stands for the decoded text; f.read() -> that text; f.readlines() -> readlines text.
               base, _ = os.path.split(p) -> base is "the parent directory": os.path.exists(base) -> we_parent_exists
               wenv, os.makedirs(base) -> os_step (we_makedirs wenv); open(p, "a"/"w") -> open_for_write (fs p) wenv
               and w_file := WAppended "" / WCreated ""; f.write(s) -> write_step (we_write wenv), then s is appended to
               w_file (wenv : write_env of Model/Config.v: the answers of the operating system, arbitrary).
   strings     s.split(c) -> split_on c s; s.split(c, 1) -> split_max1 c s ([s] or [before; after the first c]);
               s.strip() -> strip (ASCII white space); len; + -> ++; c.join(l) -> String.concat c l; "c" in s for a
               one-character literal -> contains c s; int(s) -> py_int (Model/Config.v parse_int, ValueError);
               float(s) -> py_float pf (pf : string -> option Q is a PARAMETER: Python's float grammar and rounding are
               external; ValueError on None); a / b on floats -> pyfdiv (ZeroDivisionError on a zero divisor, else the
               exact quotient); l[k] -> list_get (IndexError); name, val = <list> -> unpack2 (ValueError).
   idioms      [props_obj.__getattribute__(x) for x in dir(props_obj) if not x.startswith("_")] with props_obj =
               ConfigProperties() -> g_config_props: the class attributes `NAME = ConfigProperty(..)` of the AST that do
               not start with "_", sorted by attribute name as dir() does (default rendered as str(default); a
               module constant built with SYSTEM_CONFIG_DIR.joinpath as "<path>").
               "".join(ch for ch in unicodedata.normalize("NFKD", e) if ch.isascii() and ch.isalnum()) -> nn e
               (nn : string -> string is a PARAMETER, Model/Currency.v namenorm_t).
               next((x for x in L if c), None) -> find; next(x for x in L if c) -> py_next (filter ..) (StopIteration);
               any(c for x in L) -> existsb; [e for x in L if c] / map(lambda x: e, L) -> map / filter;
               generators are read as lists (their elements are pure here).
   messages    a message printed is the `warning` of Model/Config.v that harness/props/c19.py recognises it as, by its
               literal text (table MESSAGES in trans_config.py): "WARNING: expecting integer value for config variable
               '{n}'." -> WInt n; "... non-negative value ..." -> WNeg n; "WARNING: value too large for config variable
               '{n}'." -> WRange n; "... boolean value (true/false) ..." -> WBool n; "WARNING: unknown config variable
               '{n}'." -> WUnknown n; "WARNING: couldn't read config file '{..}'." -> WConfigUnreadable; "Failed to parse
               currency data, falling back to default..." -> WCurrencyFallback; "Failed to load history because: " + .. ->
               WHistoryLoad; "Failed to save history because: " + .. -> WHistorySave.  print(m, file=sys.stderr) ->
               print_stderr; print(m, file=error_out) -> print_stream error_out (error_out : bool = "a stream was passed";
               None -> false, then print goes to sys.stdout).
   erased      units.py: the parameters quantities / quantity_vector of register_unit, the statements that mention only
               them, QUANTITY_TO_QV, QV_TO_QUANTITY, q, isinstance, str, QuantityVector (they can raise only through
               `assert quantity_vector == QUANTITY_TO_QV[q]`, and every cash unit is registered with the same CASH), and
               CASH = QSPACE.get_basis_vector(BASE_CURRENCY) are dropped.
   tables      dict / string constants of the source are emitted as g_<NAME> (SPECIAL_NAMES, SPECIAL_CURRENCY_SYMBOLS,
               DEFAULT_CURRENCY_DATA, Unit.NO_PLURAL, ConfigProperties.X -> g_prop_X); g_default_floats is Python's
               float() (of the interpreter that runs the translator) on the third fields of DEFAULT_CURRENCY_DATA, exact.
   blocks      two runs of module-level statements of units.py are translated as functions of their free variables:
               g_units_base_block (DEFAULT_BASE_CURRENCY = .. up to the `if not has_currency(..)` statement; result: the
               final CURRENCY_DATA and BASE_CURRENCY; that last statement also alone, as the pure g_select_base of
               DEFAULT_BASE_CURRENCY, BASE_CURRENCY, CURRENCY_DATA) and g_units_register_block (the `if BASE_CURRENCY is not None:`
               statement that contains the registration loop).  No other statement of units.py may assign these names.
"""

PRELUDE = r"""
From Coq Require Import List String ZArith QArith Ascii Bool.
From Ka Require Import Model.Config.
Import ListNotations.
Local Open Scope string_scope.

(* ---- PRELUDE (trusted; see the mapping above) *)
(* values of configuration options *)
Inductive gval := GStored (v : cval) | GDefault (p : cprop).
Definition gval_cval (g : gval) : cval := match g with GStored v => v | GDefault p => default_of p end.
Definition gval_truthy (g : gval) : bool := truthy (gval_cval g).
Definition gval_eq_str (g : gval) (s : string) : bool :=
  match gval_cval g with VStr t => String.eqb s t | _ => false end.
Definition gval_path (g : gval) : pres pathkey :=
  match g with
  | GStored (VStr s) => POk (PUser s)
  | GDefault p => POk (PDefault (cp_name p))
  | GStored _ => PRaise "TypeError"
  end.
Definition config_get (c : config) (k : string) (d : gval) : gval :=
  match assoc k c with Some v => GStored v | None => d end.

(* the two global states *)
Record cworld := mkW { w_CONFIG : config; w_HAVE_READ : bool; w_error_out : list warning;
                       w_stderr : list warning; w_stdout : list warning; w_file : written }.
Definition set_CONFIG (c : config) (w : cworld) : cworld :=
  mkW c (w_HAVE_READ w) (w_error_out w) (w_stderr w) (w_stdout w) (w_file w).
Definition set_HAVE_READ (b : bool) (w : cworld) : cworld :=
  mkW (w_CONFIG w) b (w_error_out w) (w_stderr w) (w_stdout w) (w_file w).
Definition print_stream (given : bool) (m : warning) (w : cworld) : cworld :=
  if given then mkW (w_CONFIG w) (w_HAVE_READ w) (w_error_out w ++ [m]) (w_stderr w) (w_stdout w) (w_file w)
  else mkW (w_CONFIG w) (w_HAVE_READ w) (w_error_out w) (w_stderr w) (w_stdout w ++ [m]) (w_file w).
Definition print_stderr (m : warning) (w : cworld) : cworld :=
  mkW (w_CONFIG w) (w_HAVE_READ w) (w_error_out w) (w_stderr w ++ [m]) (w_stdout w) (w_file w).
Definition set_file (f : written) (w : cworld) : cworld :=
  mkW (w_CONFIG w) (w_HAVE_READ w) (w_error_out w) (w_stderr w) (w_stdout w) f.

Record gunit := mk_gunit { gu_symbol : string; gu_singular : string; gu_plural : string;
                           gu_multiple : Q; gu_offset : Q }.
Record uworld := mkU { u_NAME_TO_UNIT : list string; u_SYMBOL_TO_UNIT : list string; u_UNITS : list gunit }.
Definition set_NAME_TO_UNIT (l : list string) (u : uworld) : uworld := mkU l (u_SYMBOL_TO_UNIT u) (u_UNITS u).
Definition set_SYMBOL_TO_UNIT (l : list string) (u : uworld) : uworld := mkU (u_NAME_TO_UNIT u) l (u_UNITS u).
Definition set_UNITS (l : list gunit) (u : uworld) : uworld := mkU (u_NAME_TO_UNIT u) (u_SYMBOL_TO_UNIT u) l.

(* control: result and state *)
Definition sres (S A : Type) : Type := (pres A * S)%type.
Definition sbind {S A B} (r : sres S A) (k : A -> S -> sres S B) : sres S B :=
  match r with (POk a, s) => k a s | (PRaise e, s) => (PRaise e, s) end.
Definition slift {S A} (r : pres A) (s : S) : sres S A := (r, s).
Definition catches (cls : list string) (e : pyexn) : bool := existsb (is_subclass e) cls.
Definition stry {S A B} (r : sres S A) (cls : list string) (h : pyexn -> S -> sres S B)
  (k : A -> S -> sres S B) : sres S B :=
  match r with
  | (POk a, s) => k a s
  | (PRaise e, s) => if catches cls e then h e s else (PRaise e, s)
  end.
Definition ptry {A B} (r : pres A) (cls : list string) (h : pyexn -> pres B) (k : A -> pres B) : pres B :=
  match r with
  | POk a => k a
  | PRaise e => if catches cls e then h e else PRaise e
  end.
Inductive flow (L R : Type) := FNext (l : L) | FBreak (l : L) | FReturn (r : R).
Arguments FNext {L R} l.
Arguments FBreak {L R} l.
Arguments FReturn {L R} r.
Fixpoint sfor {S X L R} (body : X -> L -> S -> sres S (flow L R)) (xs : list X) (l : L) (s : S)
  : sres S (flow L R) :=
  match xs with
  | [] => (POk (FNext l), s)
  | x :: rest =>
      match body x l s with
      | (POk (FNext l'), s') => sfor body rest l' s'
      | o => o
      end
  end.
Fixpoint pfor {X L R} (body : X -> L -> pres (flow L R)) (xs : list X) (l : L) : pres (flow L R) :=
  match xs with
  | [] => POk (FNext l)
  | x :: rest =>
      match body x l with
      | POk (FNext l') => pfor body rest l'
      | o => o
      end
  end.

(* library operations *)
Definition split_max1 (sep : ascii) (s : string) : list string :=
  match split1 sep s with Some (a, b) => [a; b] | None => [s] end.
Definition unpack2 {A} (l : list A) : pres (A * A) :=
  match l with [a; b] => POk (a, b) | _ => PRaise "ValueError" end.
Definition list_get {A} (l : list A) (i : nat) : pres A :=
  match nth_error l i with Some a => POk a | None => PRaise "IndexError" end.
Definition py_next {A} (l : list A) : pres A :=
  match l with a :: _ => POk a | [] => PRaise "StopIteration" end.
Definition need_list {A} (o : option (list A)) : pres (list A) :=
  match o with Some l => POk l | None => PRaise "TypeError" end.
Definition has_key {A} (k : string) (d : list (string * A)) : bool :=
  match assoc k d with Some _ => true | None => false end.
Definition dict_get {A} (d : list (string * A)) (k : string) : pres A :=
  match assoc k d with Some v => POk v | None => PRaise "KeyError" end.
Definition py_int (s : string) : pres Z :=
  match parse_int s with Some z => POk z | None => PRaise "ValueError" end.
Definition py_float (pf : pyfloat_t) (s : string) : pres Q :=
  match pf s with Some q => POk q | None => PRaise "ValueError" end.
Definition Qgtb (a b : Q) : bool := negb (Qle_bool a b).
Definition pyfdiv (a b : Q) : pres Q := if Qeq_bool b 0 then PRaise "ZeroDivisionError" else POk (a / b).
Definition str_truthy (s : string) : bool := match s with EmptyString => false | _ => true end.
Definition optlist_truthy {A} (o : option (list A)) : bool :=
  match o with Some (_ :: _) => true | _ => false end.

"""

ENV_HELPERS = r"""Definition exists_gval (g : gval) : pres bool := pbind (gval_path g) (fun k => POk (path_exists (fs k))).
Definition open_gval (g : gval) : pres string := pbind (gval_path g) (fun k => open_read (fs k)).
Definition open_write (append : bool) (g : gval) (w : cworld) : sres cworld unit :=
  match pbind (gval_path g) (fun k => open_for_write (fs k) wenv) with
  | POk _ => (POk tt, set_file (if append then WAppended "" else WCreated "") w)
  | PRaise e => (PRaise e, w)
  end.
Definition file_write (s : string) (w : cworld) : sres cworld unit :=
  match write_step (we_write wenv) with
  | POk _ => (POk tt, set_file (match w_file w with
                                | WNothing => WNothing
                                | WAppended t => WAppended (t ++ s)
                                | WCreated t => WCreated (t ++ s)
                                end) w)
  | PRaise e => (PRaise e, w)
  end.
"""

# ------------------------------------------------------------------------------------------------ trusted tables
# message text (None = a formatted hole) -> (warning constructor, does it take the hole as its argument)
MESSAGES = {
    ("WARNING: expecting integer value for config variable '", None, "'."): ("WInt", True),
    ("WARNING: expecting non-negative value for config variable '", None, "'."): ("WNeg", True),
    ("WARNING: value too large for config variable '", None, "'."): ("WRange", True),
    ("WARNING: expecting boolean value (true/false) for config variable '", None, "'."): ("WBool", True),
    ("WARNING: unknown config variable '", None, "'."): ("WUnknown", True),
    ("WARNING: couldn't read config file '", None, "'."): ("WConfigUnreadable", False),
    ("Failed to parse currency data, falling back to default...",): ("WCurrencyFallback", False),
    ("Failed to load history because: ", None): ("WHistoryLoad", False),
    ("Failed to save history because: ", None): ("WHistorySave", False),
}
LIST = lambda t: ("list", t)
OPT = lambda t: ("option", t)
# function -> declared signature.  mode: "state" (takes and returns the world) or "pure" (pres only)
SPECS = {
    "config.read_config_file": dict(file="config", sect=[], coq="g_read_config_file", mode="state", world="cworld",
                                    params=[("path", "pathkey"), ("error_out", "optstream")], ret="unit"),
    "config.read_config": dict(file="config", sect=[], coq="g_read_config", mode="state", world="cworld",
                               params=[("path", "pathkey"), ("error_out", "optstream")], ret="unit"),
    "config.get": dict(file="config", sect=[], coq="g_get", mode="state", world="cworld", params=[("prop", "cprop")], ret="gval"),
    "currency.parse_currency_data": dict(file="currency", sect=['pf'], coq="g_parse_currency_data", mode="pure", world=None,
                                         params=[("s", "string")], ret=OPT(LIST("cur"))),
    "currency.load_currency_data": dict(file="config", sect=[], coq="g_load_currency_data", mode="state", world="cworld", params=[],
                                        ret=OPT(LIST("cur"))),
    "units.has_currency": dict(file="currency", sect=[], coq="g_has_currency", mode="pure", world=None,
                               params=[("sym", "gval"), ("currency_data", LIST("cur"))], ret="bool"),
    "units.register_unit": dict(file="currency", sect=[], coq="g_register_unit", mode="state", world="uworld",
                                params=[("symbol", "string"), ("singular_name", "string"), ("quantities", "erased"),
                                        ("quantity_vector", "erased"), ("plural_name", OPT("string")),
                                        ("multiple", "Q"), ("offset", "Q")], ret="gunit"),
    "interpret.history_enabled": dict(file="config", sect=[], coq="g_history_enabled", mode="state", world="cworld", params=[], ret="gval"),
    "interpret.load_history": dict(file="config", sect=[], coq="g_load_history", mode="state", world="cworld", params=[], ret=LIST("string")),
    "interpret.save_history": dict(file="config", sect=[], coq="g_save_history", mode="state", world="cworld",
                                   params=[("history", LIST("string"))], ret="unit"),
}
ORDER = ["currency.parse_currency_data", "units.has_currency", "units.register_unit",
         "config.read_config_file", "config.read_config", "config.get", "currency.load_currency_data",
         "interpret.history_enabled", "interpret.load_history", "interpret.save_history"]
# functions defined inside a translated function
NESTED = {
    "printerr": dict(params=[("s", "warning")], ret="unit"),
    "taken": dict(params=[("sym", "string"), ("name", "string")], ret="bool"),
}
ERASED_NAMES = {"quantities", "quantity_vector", "QUANTITY_TO_QV", "QV_TO_QUANTITY", "q"}
ERASED_HELPERS = {"isinstance", "str", "QuantityVector"}
# world -> global name -> (field, kind)
WORLD_GLOBALS = {
    "cworld": {"CONFIG": ("w_CONFIG", "config"), "HAVE_READ": ("w_HAVE_READ", "bool")},
    "uworld": {"NAME_TO_UNIT": ("u_NAME_TO_UNIT", "keys"), "SYMBOL_TO_UNIT": ("u_SYMBOL_TO_UNIT", "keys"),
               "UNITS": ("u_UNITS", LIST("gunit"))},
}
T_COQ = {"string": "string", "Z": "Z", "Q": "Q", "bool": "bool", "unit": "unit", "warning": "warning",
         "pathkey": "pathkey", "gval": "gval", "cprop": "cprop", "cur": "cur", "gunit": "gunit", "pyexn": "pyexn",
         "rtext": "string", "wfile": "unit", "parent": "unit", "optstream": "bool"}
RESERVED = {"fun", "match", "end", "in", "let", "if", "then", "else", "at", "as", "fix", "forall", "exists", "with",
            "return", "using", "where", "Type", "Set", "Prop", "st", "o", "b", "fs", "pf", "nn", "wenv", "mem", "assoc",
            "find", "map", "filter", "strip", "contains", "cur", "config", "flow", "unit", "readlines", "split_on"}


def coqty(t):
    if isinstance(t, tuple):
        if t[0] == "list":
            return "(list %s)" % coqty(t[1])
        if t[0] == "option":
            return "(option %s)" % coqty(t[1])
        if t[0] == "tuple":
            return "(" + " * ".join(coqty(x) for x in t[1]) + ")"
        if t[0] == "dict":
            return "(list (string * %s))" % coqty(t[1])
    if t not in T_COQ:
        raise Untranslatable("no Gallina type for %r" % (t,))
    return T_COQ[t]


def cname(n):
    return n + "_" if n in RESERVED else n


def coq_string(s):
    """a Coq string literal with the UTF-8 bytes of s (Coq strings are byte strings; literals may span lines)"""
    if any((ord(c) < 32 and c != "\n") or ord(c) == 127 for c in s) or ("\n" in s and len(s) <= 3):
        return "(" + " ++ ".join(
            "(String (ascii_of_nat %d) EmptyString)" % b for b in s.encode("utf-8")) + ")" if s else '""'
    return '"' + s.replace('"', '""') + '"'


def coq_char(c):
    b = c.encode("utf-8")
    if len(b) != 1:
        raise Untranslatable("separator %r is not one byte" % c)
    if 33 <= b[0] <= 126 and c != '"':
        return '"%s"%%char' % c
    return "(ascii_of_nat %d)" % b[0]


def qlit(fr):
    fr = Fraction(fr)
    return "(%d # %d)" % (fr.numerator, fr.denominator) if fr >= 0 else "((%d) # %d)" % (fr.numerator, fr.denominator)


def is_name(e, n):
    return isinstance(e, ast.Name) and e.id == n


def attr_chain(e):
    """a.b.c -> ["a", "b", "c"], else None"""
    out = []
    while isinstance(e, ast.Attribute):
        out.append(e.attr)
        e = e.value
    if isinstance(e, ast.Name):
        out.append(e.id)
        return list(reversed(out))
    return None


def ty_eq(a, b):
    if a == b:
        return True
    if isinstance(a, tuple) and isinstance(b, tuple) and a[0] == b[0] and a[0] in ("list", "option"):
        return a[1] is None or b[1] is None or ty_eq(a[1], b[1])
    return False


class Val:
    def __init__(self, text, ty, lit=None):
        self.text, self.ty, self.lit = text, ty, lit


def coerce(v, want):
    if ty_eq(v.ty, want):
        return v.text
    if want == "gval" and v.ty == "string":
        return "(GStored (VStr %s))" % v.text
    if isinstance(want, tuple) and want[0] == "option":
        if v.ty == "none":
            return "None"
        return "(Some %s)" % coerce(v, want[1])
    if want == "Q" and v.ty == "Z" and v.lit is not None:
        return qlit(v.lit)
    if want == "optstream" and v.ty == "none":
        return "false"
    if want == "unit" and v.ty == "none":
        return "tt"
    if want == "cval":
        if v.ty == "string":
            return "(VStr %s)" % v.text
        if v.ty == "Z":
            return "(VInt %s)" % v.text
        if v.ty == "bool":
            return "(VBool %s)" % v.text
    raise Untranslatable("a %r where a %r is expected" % (v.ty, want))


# ------------------------------------------------------------------------------------------------ contexts
class TopCtx:
    """the body of a function (or nested function) with declared result type"""
    def __init__(self, F, ret):
        self.F, self.ret = F, ret

    def ret_val(self, v):
        return coerce(v, self.ret)

    def fall_val(self):
        if self.ret == "unit":
            return "tt"
        raise Untranslatable("fall-through (a path without return)")

    def cont_val(self):
        raise Untranslatable("continue outside a loop")

    brk_val = cont_val


class BlockCtx(TopCtx):
    """a run of module-level statements: the result is the tuple of the output variables"""
    def __init__(self, F, outputs):
        self.F, self.outputs = F, outputs
        self.ret = ("tuple", [t for _, t in outputs])

    def ret_val(self, v):
        raise Untranslatable("return at module level")

    def fall_val(self):
        if not self.outputs:
            return "tt"
        vals = []
        for n, t in self.outputs:
            if n not in self.F.env or self.F.env[n][0] is None:
                raise Untranslatable("output %s is not defined on every path" % n)
            vals.append(coerce(Val(*self.F.env[n]), t))
        return vals[0] if len(vals) == 1 else "(" + ", ".join(vals) + ")"


class LoopCtx:
    def __init__(self, F, outer, carried):
        self.F, self.outer = F, outer
        self.carried = [(n, F.env[n][0], F.env[n][1]) for n in carried]

    def tuple(self):
        for n, cn, t in self.carried:
            if n not in self.F.env or self.F.env[n][0] != cn or not ty_eq(self.F.env[n][1], t):
                raise Untranslatable("the type of %s changes inside the loop" % n)
            if self.F.env[n][1] != t and t[1] is None:
                pass
        names = [cn for _, cn, _ in self.carried]
        return "tt" if not names else names[0] if len(names) == 1 else "(" + ", ".join(names) + ")"

    def binder(self):
        names = [cn for _, cn, _ in self.carried]
        return "(_ : unit)" if not names else names[0] if len(names) == 1 else "'(" + ", ".join(names) + ")"

    def pattern(self):
        names = [cn for _, cn, _ in self.carried]
        return "_" if not names else names[0] if len(names) == 1 else "(" + ", ".join(names) + ")"

    def ret_val(self, v):
        return "(FReturn %s)" % self.outer.ret_val(v)

    def fall_val(self):
        return "(FNext %s)" % self.tuple()

    cont_val = fall_val

    def brk_val(self):
        return "(FBreak %s)" % self.tuple()


class TryCtx:
    def __init__(self, F, outer, names):
        self.F, self.outer, self.names = F, outer, names
        self.types = None

    def ret_val(self, v):
        return "(inr %s)" % self.outer.ret_val(v)

    def cont_val(self):
        return "(inr %s)" % self.outer.cont_val()

    def brk_val(self):
        return "(inr %s)" % self.outer.brk_val()

    def fall_val(self):
        vals, types = [], []
        for n in self.names:
            if n not in self.F.env or self.F.env[n][0] is None:
                raise Untranslatable("%s, used after the try statement, is not assigned on every path of its body" % n)
            vals.append(self.F.env[n][0])
            types.append(self.F.env[n][1])
        if self.types is not None and not all(ty_eq(a, b) for a, b in zip(self.types, types)):
            raise Untranslatable("a variable assigned in a try body has different types on different paths")
        self.types = types
        return "(inl %s)" % ("tt" if not vals else vals[0] if len(vals) == 1 else "(" + ", ".join(vals) + ")")


# ------------------------------------------------------------------------------------------------ one function
class Fn:
    def __init__(self, G, module, mode, world, fnode):
        self.G, self.module, self.mode, self.world, self.fnode = G, module, mode, world, fnode
        self.env = {}           # python local -> (coq name | None when erased, type)
        self.closures = {}      # nested function name -> NESTED entry
        self.globals_decl = set()
        self.binds = []         # pending (variable, "pure" | "state", text), evaluation order
        self.ntmp = 0

    # ---------------------------------------------------------------- plumbing
    def done(self, v):
        return "(POk %s, st)" % v if self.mode == "state" else "(POk %s)" % v

    def raise_(self, cls):
        return '(PRaise "%s", st)' % cls if self.mode == "state" else '(PRaise "%s")' % cls

    def tmp(self):
        self.ntmp += 1
        return "t%d" % self.ntmp

    def bind(self, kind, text, ty):
        if kind == "state" and self.mode != "state":
            raise Untranslatable("an operation on the global state in a function declared pure")
        t = self.tmp()
        self.binds.append((t, kind, text))
        return Val(t, ty)

    def take(self):
        b, self.binds = self.binds, []
        return b

    def wrap(self, binds, inner):
        for var, kind, text in reversed(binds):
            if self.mode == "state":
                comp = "slift (%s) st" % text if kind == "pure" else "%s st" % text
                inner = "(sbind (%s) (fun %s st =>\n  %s))" % (comp, var, inner)
            else:
                inner = "(pbind (%s) (fun %s =>\n  %s))" % (text, var, inner)
        return inner

    def no_binds(self, thunk, what):
        n = len(self.binds)
        r = thunk()
        if len(self.binds) != n:
            raise Untranslatable("an operation that can raise or touch the state inside " + what)
        return r

    def world_global(self, name):
        if self.world and name in WORLD_GLOBALS[self.world] and name not in self.env:
            return WORLD_GLOBALS[self.world][name]
        return None

    def scoped(self, var, ty, thunk):
        saved = dict(self.env)
        self.env[var] = (cname(var), ty)
        try:
            return thunk()
        finally:
            self.env = saved

    # ---------------------------------------------------------------- messages
    def message(self, e):
        parts, holes = [], []
        if isinstance(e, ast.JoinedStr):
            for p in e.values:
                if isinstance(p, ast.Constant) and isinstance(p.value, str):
                    parts.append(p.value)
                elif isinstance(p, ast.FormattedValue) and p.format_spec is None and p.conversion == -1 \
                        and isinstance(p.value, ast.Name):
                    parts.append(None)
                    holes.append(p.value)
                else:
                    raise Untranslatable("message format")
        elif isinstance(e, ast.Constant) and isinstance(e.value, str):
            parts.append(e.value)
        elif isinstance(e, ast.BinOp) and isinstance(e.op, ast.Add) and isinstance(e.left, ast.Constant) \
                and isinstance(e.left.value, str) and isinstance(e.right, ast.Call) and is_name(e.right.func, "str") \
                and len(e.right.args) == 1 and not e.right.keywords and isinstance(e.right.args[0], ast.Name):
            parts += [e.left.value, None]
            holes.append(e.right.args[0])
        elif isinstance(e, ast.Name) and e.id in self.env and self.env[e.id][1] == "warning":
            return Val(self.env[e.id][0], "warning")
        else:
            raise Untranslatable("message " + ast.dump(e)[:60])
        key = tuple(parts)
        if key not in MESSAGES:
            raise Untranslatable("a message that harness/props/c19.py does not know: %r" % (key,))
        ctor, takes = MESSAGES[key]
        for h in holes:
            if h.id not in self.env or self.env[h.id][0] is None:
                raise Untranslatable("message hole %s" % h.id)
        if takes:
            v = self.expr(holes[0])
            if v.ty != "string":
                raise Untranslatable("message hole of type %r" % (v.ty,))
            return Val("(%s %s)" % (ctor, v.text), "warning")
        return Val(ctor, "warning")

    # ---------------------------------------------------------------- comprehensions
    def comp_parts(self, e):
        """(elt, var, list Val (of the iterable), [conditions]) of a generator expression / list comprehension"""
        if len(e.generators) != 1:
            raise Untranslatable("nested comprehension")
        g = e.generators[0]
        if g.is_async or not isinstance(g.target, ast.Name):
            raise Untranslatable("comprehension target")
        it = self.no_binds(lambda: self.as_list(self.expr(g.iter)), "the iterable of a comprehension")
        return e.elt, g.target.id, it, g.ifs

    def as_list(self, v):
        if isinstance(v.ty, tuple) and v.ty[0] == "list":
            return v
        if isinstance(v.ty, tuple) and v.ty[0] == "option" and isinstance(v.ty[1], tuple) and v.ty[1][0] == "list":
            return self.bind("pure", "need_list %s" % v.text, v.ty[1])
        raise Untranslatable("iteration over a %r" % (v.ty,))

    def filtered(self, var, it, ifs):
        """the list `it` filtered by the conditions"""
        if not ifs:
            return it.text
        conds = self.scoped(var, it.ty[1], lambda: [self.no_binds(lambda c=c: self.cond(c), "a comprehension")
                                                     for c in ifs])
        return "(filter (fun %s => %s) %s)" % (cname(var), " && ".join(conds), it.text)

    def comprehension(self, e):
        elt, var, it, ifs = self.comp_parts(e)
        src = self.filtered(var, it, ifs)
        if is_name(elt, var):
            return Val(src, it.ty)
        v = self.scoped(var, it.ty[1], lambda: self.no_binds(lambda: self.expr(elt), "a comprehension"))
        return Val("(map (fun %s => %s) %s)" % (cname(var), v.text, src), LIST(v.ty))

    # ---------------------------------------------------------------- expressions
    def expr(self, e):
        if isinstance(e, ast.Constant):
            if isinstance(e.value, bool):
                return Val("true" if e.value else "false", "bool")
            if isinstance(e.value, int):
                return Val("%d%%Z" % e.value if e.value >= 0 else "(%d)%%Z" % e.value, "Z", lit=e.value)
            if isinstance(e.value, str):
                return Val(coq_string(e.value), "string", lit=e.value)
            if e.value is None:
                return Val("None", "none")
            raise Untranslatable("constant %r" % (e.value,))
        if isinstance(e, ast.Name):
            if e.id in self.env:
                n, t = self.env[e.id]
                if n is None:
                    raise Untranslatable("%s (%s) used as a value" % (e.id, t))
                return Val(n, t)
            g = self.world_global(e.id)
            if g is not None:
                if g[1] in ("config", "keys"):
                    raise Untranslatable("the dictionary %s used as a value" % e.id)
                return Val("(%s st)" % g[0], g[1])
            c = self.G.constant(self.module, e.id)
            if c is not None:
                return c
            raise Untranslatable("name %s" % e.id)
        if isinstance(e, ast.Attribute):
            chain = attr_chain(e)
            if chain and len(chain) == 2 and chain[0] not in self.env:
                c = self.G.class_constant(self.module, chain[0], chain[1])
                if c is not None:
                    return c
            v = self.expr(e.value)
            if v.ty == "cprop":
                if e.attr == "default":
                    return Val("(GDefault %s)" % v.text, "gval")
                proj = {"name": ("cp_name", "string"), "num": ("cp_num", "bool"), "boolean": ("cp_bool", "bool")}
                if e.attr in proj and self.G.class_ok("ConfigProperty"):
                    return Val("(%s %s)" % (proj[e.attr][0], v.text), proj[e.attr][1])
            if v.ty == "cur":
                proj = {"symbol": ("c_sym", "string"), "name": ("c_name", "string"), "dollar_rate": ("c_rate", "Q")}
                if e.attr in proj and self.G.class_ok("CurrencyData"):
                    return Val("(%s %s)" % (proj[e.attr][0], v.text), proj[e.attr][1])
            raise Untranslatable("attribute .%s of a %r" % (e.attr, v.ty))
        if isinstance(e, ast.BinOp):
            a = self.expr(e.left)
            b = self.expr(e.right)
            op = type(e.op)
            if op is ast.Add and a.ty == "string" and b.ty == "string":
                return Val("(%s ++ %s)%%string" % (a.text, b.text), "string")
            if a.ty == "Z" and b.ty == "Z":
                lit = None
                if op in (ast.Add, ast.Sub, ast.Mult):
                    sym = {ast.Add: "+", ast.Sub: "-", ast.Mult: "*"}[op]
                    return Val("(%s %s %s)%%Z" % (a.text, sym, b.text), "Z")
                if op is ast.Pow and b.lit is not None and b.lit >= 0:
                    return Val("(%s ^ %s)%%Z" % (a.text, b.text), "Z")
            if op is ast.Div and a.ty == "Q" and b.ty == "Q":
                return self.bind("pure", "pyfdiv %s %s" % (a.text, b.text), "Q")
            raise Untranslatable("operator %s on %r, %r" % (op.__name__, a.ty, b.ty))
        if isinstance(e, (ast.Compare, ast.BoolOp)) or (isinstance(e, ast.UnaryOp) and isinstance(e.op, ast.Not)):
            return Val(self.cond(e), "bool")
        if isinstance(e, ast.IfExp):
            c = self.cond(e.test)
            a = self.no_binds(lambda: self.expr(e.body), "a conditional expression")
            b = self.no_binds(lambda: self.expr(e.orelse), "a conditional expression")
            if not ty_eq(a.ty, b.ty):
                raise Untranslatable("conditional expression of types %r, %r" % (a.ty, b.ty))
            return Val("(if %s then %s else %s)" % (c, a.text, b.text), a.ty)
        if isinstance(e, ast.List) and not e.elts:
            return Val("[]", LIST(None))
        if isinstance(e, ast.ListComp):
            idiom = self.dir_idiom(e)
            return idiom if idiom is not None else self.comprehension(e)
        if isinstance(e, ast.GeneratorExp):
            return self.comprehension(e)
        if isinstance(e, ast.Subscript):
            idx = e.slice
            v = self.expr(e.value)
            if isinstance(v.ty, tuple) and v.ty[0] == "list" and isinstance(idx, ast.Constant) \
                    and type(idx.value) is int and idx.value >= 0:
                return self.bind("pure", "list_get %s %d%%nat" % (v.text, idx.value), v.ty[1])
            if isinstance(v.ty, tuple) and v.ty[0] == "dict":
                k = self.expr(idx)
                if k.ty != "string":
                    raise Untranslatable("dictionary key of type %r" % (k.ty,))
                return self.bind("pure", "dict_get %s %s" % (v.text, k.text), v.ty[1])
            raise Untranslatable("subscript of a %r" % (v.ty,))
        if isinstance(e, ast.Call):
            return self.call(e)
        raise Untranslatable("expression " + ast.dump(e)[:80])

    def dir_idiom(self, e):
        """[props_obj.__getattribute__(x) for x in dir(props_obj) if not x.startswith("_")]"""
        try:
            g = e.generators[0]
            x = g.target.id
            o = g.iter.args[0].id
            ok = (len(e.generators) == 1 and not g.is_async and is_name(g.iter.func, "dir") and len(g.iter.args) == 1
                  and not g.iter.keywords and self.env.get(o, (0, 0))[1] == "propsobj"
                  and isinstance(e.elt, ast.Call) and isinstance(e.elt.func, ast.Attribute)
                  and e.elt.func.attr == "__getattribute__" and is_name(e.elt.func.value, o)
                  and len(e.elt.args) == 1 and is_name(e.elt.args[0], x) and not e.elt.keywords
                  and len(g.ifs) == 1 and isinstance(g.ifs[0], ast.UnaryOp) and isinstance(g.ifs[0].op, ast.Not)
                  and isinstance(g.ifs[0].operand, ast.Call) and isinstance(g.ifs[0].operand.func, ast.Attribute)
                  and g.ifs[0].operand.func.attr == "startswith" and is_name(g.ifs[0].operand.func.value, x)
                  and len(g.ifs[0].operand.args) == 1 and isinstance(g.ifs[0].operand.args[0], ast.Constant)
                  and g.ifs[0].operand.args[0].value == "_" and not g.ifs[0].operand.keywords
                  and "dir" not in self.env)
        except (AttributeError, IndexError):
            return None
        if not ok:
            return None
        if not self.G.props_ok:
            raise Untranslatable("class ConfigProperties is not a list of NAME = ConfigProperty(..)")
        return Val("g_config_props", LIST("cprop"))

    # ---------------------------------------------------------------- calls
    def sep_char(self, e):
        if isinstance(e, ast.Constant) and isinstance(e.value, str) and len(e.value) == 1:
            return coq_char(e.value)
        raise Untranslatable("separator is not a one-character literal")

    def call(self, e):
        f = e.func
        chain = attr_chain(f)
        nargs = len(e.args)
        plain = not e.keywords
        free = lambda n: n not in self.env and self.G.is_builtin(self.module, n)
        # ---- builtins
        if isinstance(f, ast.Name) and free(f.id) and plain:
            if f.id == "len" and nargs == 1:
                v = self.expr(e.args[0])
                if v.ty == "string":
                    return Val("(Z.of_nat (String.length %s))" % v.text, "Z")
                if isinstance(v.ty, tuple) and v.ty[0] == "list":
                    return Val("(Z.of_nat (List.length %s))" % v.text, "Z")
                raise Untranslatable("len of a %r" % (v.ty,))
            if f.id == "int" and nargs == 1:
                v = self.expr(e.args[0])
                if v.ty != "string":
                    raise Untranslatable("int of a %r" % (v.ty,))
                return self.bind("pure", "py_int %s" % v.text, "Z")
            if f.id == "float" and nargs == 1:
                v = self.expr(e.args[0])
                if v.ty != "string":
                    raise Untranslatable("float of a %r" % (v.ty,))
                return self.bind("pure", "py_float pf %s" % v.text, "Q")
            if f.id == "map" and nargs == 2 and isinstance(e.args[0], ast.Lambda):
                lam = e.args[0]
                a = lam.args
                if len(a.args) != 1 or a.vararg or a.kwarg or a.kwonlyargs or a.defaults or a.posonlyargs:
                    raise Untranslatable("lambda signature")
                it = self.as_list(self.expr(e.args[1]))
                x = a.args[0].arg
                v = self.scoped(x, it.ty[1], lambda: self.no_binds(lambda: self.expr(lam.body), "a lambda"))
                return Val("(map (fun %s => %s) %s)" % (cname(x), v.text, it.text), LIST(v.ty))
            if f.id == "any" and nargs == 1 and isinstance(e.args[0], ast.GeneratorExp):
                elt, var, it, ifs = self.comp_parts(e.args[0])
                src = self.filtered(var, it, ifs)
                c = self.scoped(var, it.ty[1], lambda: self.no_binds(lambda: self.cond(elt), "a generator"))
                return Val("(existsb (fun %s => %s) %s)" % (cname(var), c, src), "bool")
            if f.id == "next" and nargs in (1, 2) and isinstance(e.args[0], ast.GeneratorExp):
                elt, var, it, ifs = self.comp_parts(e.args[0])
                if not is_name(elt, var):
                    raise Untranslatable("next() of a generator that transforms its elements")
                if nargs == 2:
                    if not (isinstance(e.args[1], ast.Constant) and e.args[1].value is None):
                        raise Untranslatable("next() with a default other than None")
                    if not ifs:
                        raise Untranslatable("next(.., None) without a condition")
                    conds = self.scoped(var, it.ty[1], lambda: [self.no_binds(lambda c=c: self.cond(c), "a generator")
                                                                 for c in ifs])
                    return Val("(find (fun %s => %s) %s)" % (cname(var), " && ".join(conds), it.text), OPT(it.ty[1]))
                return self.bind("pure", "py_next %s" % self.filtered(var, it, ifs), it.ty[1])
            if f.id == "open" and nargs in (1, 2):
                mode = "r"
                if nargs == 2:
                    if not (isinstance(e.args[1], ast.Constant) and e.args[1].value in ("r", "a", "w")):
                        raise Untranslatable("open mode")
                    mode = e.args[1].value
                p = self.expr(e.args[0])
                if mode == "r":
                    if p.ty == "pathkey":
                        return self.bind("pure", "open_read (fs %s)" % p.text, "rtext")
                    if p.ty == "gval":
                        return self.bind("pure", "open_gval %s" % p.text, "rtext")
                elif p.ty == "gval" and self.world == "cworld":
                    return self.bind("state", "open_write %s %s" % ("true" if mode == "a" else "false", p.text), "wfile")
                raise Untranslatable("open(%r, %r)" % (p.ty, mode))
            if f.id in NESTED and f.id in self.closures:
                pass    # handled below
        if isinstance(f, ast.Name) and f.id in self.closures and f.id not in self.env:
            spec = self.closures[f.id]
            if not plain or nargs != len(spec["params"]):
                raise Untranslatable("call of the nested function %s" % f.id)
            args = [self.arg(a, t) for a, (_, t) in zip(e.args, spec["params"])]
            return self.bind(self.mode, " ".join([cname(f.id)] + args), spec["ret"])
        # ---- os / os.path
        if chain in (["os", "path", "exists"], ["os", "path", "isfile"]) and plain and nargs == 1 \
                and self.G.imports(self.module, "os.path") and "os" not in self.env:
            p = self.expr(e.args[0])
            if p.ty == "pathkey":
                return Val("(%s (fs %s))" % ("path_exists" if chain[2] == "exists" else "path_isfile", p.text), "bool")
            if p.ty == "gval" and chain[2] == "exists":
                return self.bind("pure", "exists_gval %s" % p.text, "bool")
            if p.ty == "parent" and chain[2] == "exists":
                return Val("(we_parent_exists wenv)", "bool")
            raise Untranslatable("os.path.%s of a %r" % (chain[2], p.ty))
        if chain == ["os", "makedirs"] and plain and nargs == 1 and self.G.imports(self.module, "os") \
                and "os" not in self.env:
            p = self.expr(e.args[0])
            if p.ty != "parent":
                raise Untranslatable("os.makedirs of a %r" % (p.ty,))
            return self.bind("pure", "os_step (we_makedirs wenv)", "unit")
        # ---- methods
        if isinstance(f, ast.Attribute) and plain:
            cname_idiom = self.cname_idiom(e)
            if cname_idiom is not None:
                return cname_idiom
            if chain == ["QSPACE", "get_basis_vector"] and nargs == 1 and isinstance(e.args[0], ast.Name) \
                    and self.module == "units":
                return Val(None, "erased")
            if f.attr == "get" and nargs == 2 and isinstance(f.value, ast.Name):
                g = self.world_global(f.value.id)
                if g is not None and g[1] == "config":
                    k = self.expr(e.args[0])
                    d = self.expr(e.args[1])
                    if k.ty != "string":
                        raise Untranslatable("CONFIG key of type %r" % (k.ty,))
                    return Val("(config_get (%s st) %s %s)" % (g[0], k.text, coerce(d, "gval")), "gval")
            recv_is_module = chain is not None and chain[0] not in self.env and self.world_global(chain[0]) is None \
                and self.G.constant(self.module, chain[0]) is None
            if not recv_is_module:
                r = self.expr(f.value)
                if r.ty == "string":
                    if f.attr == "strip" and nargs == 0:
                        return Val("(strip %s)" % r.text, "string")
                    if f.attr == "split" and nargs == 1:
                        return Val("(split_on %s %s)" % (self.sep_char(e.args[0]), r.text), LIST("string"))
                    if f.attr == "split" and nargs == 2 and isinstance(e.args[1], ast.Constant) \
                            and e.args[1].value == 1 and type(e.args[1].value) is int:
                        return Val("(split_max1 %s %s)" % (self.sep_char(e.args[0]), r.text), LIST("string"))
                    if f.attr == "join" and nargs == 1:
                        l = self.expr(e.args[0])
                        if not ty_eq(l.ty, LIST("string")):
                            raise Untranslatable("join of a %r" % (l.ty,))
                        return Val("(String.concat %s %s)" % (r.text, l.text), "string")
                if r.ty == "rtext" and nargs == 0 and f.attr == "read":
                    return Val(r.text, "string")
                if r.ty == "rtext" and nargs == 0 and f.attr == "readlines":
                    return Val("(readlines %s)" % r.text, LIST("string"))
                if r.ty == "wfile" and nargs == 1 and f.attr == "write":
                    s = self.expr(e.args[0])
                    if s.ty != "string":
                        raise Untranslatable("write of a %r" % (s.ty,))
                    return self.bind("state", "file_write %s" % s.text, "unit")
                raise Untranslatable("method .%s of a %r" % (f.attr, r.ty))
        # ---- classes and translated functions
        target = self.G.resolve(self.module, chain) if chain else None
        if target is not None and target[0] == "class":
            return self.construct(target[1], e)
        if target is not None and target[0] == "function":
            return self.call_user(target[1], e)
        raise Untranslatable("call " + ast.dump(e)[:80])

    def cname_idiom(self, e):
        """"".join(ch for ch in unicodedata.normalize("NFKD", X) if ch.isascii() and ch.isalnum())"""
        try:
            f = e.func
            g = e.args[0].generators[0]
            ch = g.target.id
            cond = g.ifs[0]
            ok = (isinstance(f.value, ast.Constant) and f.value.value == "" and f.attr == "join" and len(e.args) == 1
                  and isinstance(e.args[0], ast.GeneratorExp) and len(e.args[0].generators) == 1 and not g.is_async
                  and is_name(e.args[0].elt, ch) and attr_chain(g.iter.func) == ["unicodedata", "normalize"]
                  and len(g.iter.args) == 2 and not g.iter.keywords and isinstance(g.iter.args[0], ast.Constant)
                  and g.iter.args[0].value == "NFKD" and len(g.ifs) == 1 and isinstance(cond, ast.BoolOp)
                  and isinstance(cond.op, ast.And) and len(cond.values) == 2
                  and all(isinstance(c, ast.Call) and not c.args and not c.keywords and isinstance(c.func, ast.Attribute)
                          and is_name(c.func.value, ch) for c in cond.values)
                  and [c.func.attr for c in cond.values] == ["isascii", "isalnum"]
                  and self.G.imports(self.module, "unicodedata") and "unicodedata" not in self.env)
        except (AttributeError, IndexError):
            return None
        if not ok:
            return None
        v = self.expr(g.iter.args[1])
        if v.ty != "string":
            raise Untranslatable("normalisation of a %r" % (v.ty,))
        return Val("(nn %s)" % v.text, "string")

    def arg(self, a, t):
        """an argument expression for a parameter of type t"""
        if t == "warning":
            return self.message(a).text
        if t == "erased":
            if isinstance(a, ast.Constant) or (isinstance(a, ast.Name) and self.env.get(a.id, (0, 0))[1] == "erased") \
                    or (isinstance(a, ast.Name) and a.id in ERASED_NAMES):
                return None
            raise Untranslatable("an argument for an erased parameter that is not a constant or an erased name")
        v = self.expr(a)
        if isinstance(t, tuple) and t[0] == "list" and isinstance(v.ty, tuple) and v.ty[0] == "option":
            v = self.as_list(v)         # None where a list is iterated: TypeError
        return coerce(v, t)

    def call_user(self, qual, e):
        spec = self.G.funcs.get(qual)
        if spec is None:
            raise Untranslatable("call of %s, which is not translated" % qual)
        if spec["mode"] == "state" and spec["world"] != self.world:
            raise Untranslatable("call of %s from a function on another state" % qual)
        params = spec["params"]
        defaults = spec["defaults"]         # name -> ast expression
        if len(e.args) > len(params) or any(isinstance(a, ast.Starred) for a in e.args):
            raise Untranslatable("arity of %s" % qual)
        given = {}
        for a, (n, _) in zip(e.args, params):
            given[n] = a
        for k in e.keywords:
            if k.arg is None or k.arg in given or k.arg not in dict(params):
                raise Untranslatable("keyword argument of %s" % qual)
            given[k.arg] = k.value
        # evaluation order of Python: positional, then keywords in the order written; defaults are constants
        order = [n for n, _ in params[:len(e.args)]] + [k.arg for k in e.keywords]
        texts = {}
        for n in order:
            texts[n] = self.arg(given[n], dict(params)[n])
        for n, t in params:
            if n not in texts:
                if n not in defaults:
                    raise Untranslatable("missing argument %s of %s" % (n, qual))
                d = defaults[n]
                if not isinstance(d, ast.Constant):
                    raise Untranslatable("default of %s is not a constant" % n)
                texts[n] = None if t == "erased" else coerce(self.expr(d), t)
        args = [texts[n] for n, t in params if t != "erased"]
        sect = spec["sect"] if spec["file"] != self.G.current_file else []    # defined in the other file: its section is closed
        return self.bind(spec["mode"], " ".join([spec["coq"]] + sect + args), spec["ret"])

    def construct(self, cls, e):
        if cls == "ConfigProperties" and not e.args and not e.keywords:
            return Val(None, "propsobj")
        fields = self.G.class_fields(cls)
        if fields is None or e.keywords or len(e.args) != len(fields):
            raise Untranslatable("constructor call of %s" % cls)
        if cls == "CurrencyData":
            if fields != ["symbol", "name", "dollar_rate"]:
                raise Untranslatable("fields of CurrencyData: %s" % fields)
            vals = [coerce(self.expr(a), t) for a, t in zip(e.args, ["string", "string", "Q"])]
            return Val("(%s)" % ", ".join(vals), "cur")
        if cls == "Unit":
            if fields != ["symbol", "singular_name", "plural_name", "quantities", "quantity_vector", "multiple", "offset"]:
                raise Untranslatable("fields of Unit: %s" % fields)
            types = ["string", "string", "string", "erased", "erased", "Q", "Q"]
            vals = [self.arg(a, t) for a, t in zip(e.args, types)]
            return Val("(mk_gunit %s)" % " ".join(v for v in vals if v is not None), "gunit")
        raise Untranslatable("constructor of %s" % cls)

    # ---------------------------------------------------------------- conditions
    def truthy(self, v):
        t = v.ty
        if t in ("bool", "optstream"):
            return v.text
        if t == "gval":
            return "(gval_truthy %s)" % v.text
        if t == "string":
            return "(str_truthy %s)" % v.text
        if t == "none":
            return "false"
        if isinstance(t, tuple) and t[0] == "option" and isinstance(t[1], tuple) and t[1][0] == "list":
            return "(optlist_truthy %s)" % v.text
        if isinstance(t, tuple) and t[0] == "option" and t[1] in ("cprop", "cur", "gunit") \
                and self.G.class_always_true(t[1]):
            return "(match %s with Some _ => true | None => false end)" % v.text
        raise Untranslatable("truth value of a %r" % (t,))

    def cond(self, e):
        if isinstance(e, ast.BoolOp):
            first = self.cond(e.values[0])
            others = [self.no_binds(lambda x=x: self.cond(x), "the second operand of and / or") for x in e.values[1:]]
            return "(" + (" && " if isinstance(e.op, ast.And) else " || ").join([first] + others) + ")"
        if isinstance(e, ast.UnaryOp) and isinstance(e.op, ast.Not):
            return "(negb %s)" % self.cond(e.operand)
        if isinstance(e, ast.Compare):
            if len(e.ops) != 1:
                raise Untranslatable("chained comparison")
            return self.compare(e.left, e.ops[0], e.comparators[0])
        return self.truthy(self.expr(e))

    def compare(self, l, op, r):
        T = type(op)
        if T in (ast.In, ast.NotIn):
            neg = (lambda x: "(negb %s)" % x) if T is ast.NotIn else (lambda x: x)
            if isinstance(r, ast.Name):
                g = self.world_global(r.id)
                if g is not None and g[1] == "keys":
                    a = self.expr(l)
                    if a.ty != "string":
                        raise Untranslatable("a %r as a key" % (a.ty,))
                    return neg("(mem %s (%s st))" % (a.text, g[0]))
            b = self.expr(r)
            if isinstance(b.ty, tuple) and b.ty[0] == "dict":
                a = self.expr(l)
                if a.ty != "string":
                    raise Untranslatable("a %r as a key" % (a.ty,))
                return neg("(has_key %s %s)" % (a.text, b.text))
            if b.ty == "string" and isinstance(l, ast.Constant) and isinstance(l.value, str) and len(l.value) == 1:
                return neg("(contains %s %s)" % (coq_char(l.value), b.text))
            raise Untranslatable("membership in a %r" % (b.ty,))
        if T in (ast.Is, ast.IsNot) and isinstance(r, ast.Constant) and r.value is None:
            a = self.expr(l)
            if isinstance(a.ty, tuple) and a.ty[0] == "option":
                return "(match %s with None => %s | Some _ => %s end)" % (
                    a.text, "true" if T is ast.Is else "false", "false" if T is ast.Is else "true")
            raise Untranslatable("`is None` on a %r" % (a.ty,))
        a = self.expr(l)
        b = self.expr(r)
        if T in (ast.Eq, ast.NotEq):
            neg = (lambda x: "(negb %s)" % x) if T is ast.NotEq else (lambda x: x)
            if a.ty == "string" and b.ty == "string":
                return neg("(String.eqb %s %s)" % (a.text, b.text))
            if a.ty == "string" and b.ty == "gval":
                return neg("(gval_eq_str %s %s)" % (b.text, a.text))
            if a.ty == "gval" and b.ty == "string":
                return neg("(gval_eq_str %s %s)" % (a.text, b.text))
            if a.ty == "Z" and b.ty == "Z":
                return neg("(%s =? %s)%%Z" % (a.text, b.text))
            if {a.ty, b.ty} == {"Z", "string"}:
                return neg("false")         # an int never equals a str
            raise Untranslatable("equality of %r, %r" % (a.ty, b.ty))
        sym = {ast.Lt: "<?", ast.LtE: "<=?", ast.Gt: ">?", ast.GtE: ">=?"}.get(T)
        if sym is None:
            raise Untranslatable("comparison %s" % T.__name__)
        if a.ty == "Z" and b.ty == "Z":
            return "(%s %s %s)%%Z" % (a.text, sym, b.text)
        if a.ty in ("Q", "Z") and b.ty in ("Q", "Z"):
            x, y = coerce(a, "Q"), coerce(b, "Q")
            return {ast.Lt: "(Qgtb %s %s)" % (y, x), ast.Gt: "(Qgtb %s %s)" % (x, y),
                    ast.LtE: "(Qle_bool %s %s)" % (x, y), ast.GtE: "(Qle_bool %s %s)" % (y, x)}[T]
        raise Untranslatable("comparison of %r, %r" % (a.ty, b.ty))

    # ---------------------------------------------------------------- statements
    def terminates(self, stmts):
        if not stmts:
            return False
        last = stmts[-1]
        if isinstance(last, (ast.Return, ast.Raise, ast.Break, ast.Continue)):
            return True
        if isinstance(last, ast.If):
            return self.terminates(last.body) and bool(last.orelse) and self.terminates(last.orelse)
        return False

    def assigned_names(self, stmts):
        out = []

        def add(n):
            if n not in out:
                out.append(n)

        def walk(node):
            if isinstance(node, (ast.FunctionDef, ast.Lambda, ast.ClassDef)):
                return
            if isinstance(node, ast.Name) and isinstance(node.ctx, ast.Store):
                add(node.id)
            if isinstance(node, ast.Call) and isinstance(node.func, ast.Attribute) and node.func.attr == "append" \
                    and isinstance(node.func.value, ast.Name):
                add(node.func.value.id)
            if isinstance(node, ast.ExceptHandler) and node.name:
                add(node.name)
            for c in ast.iter_child_nodes(node):
                walk(c)
        for s in stmts:
            walk(s)
        return out

    def loaded_outside(self, name, inner_stmts):
        inside = set()
        for s in inner_stmts:
            for n in ast.walk(s):
                inside.add(id(n))
        for n in ast.walk(self.fnode):
            if isinstance(n, ast.Name) and n.id == name and isinstance(n.ctx, ast.Load) and id(n) not in inside:
                return True
        return False

    def is_erased_stmt(self, s):
        if self.module != "units":
            return False
        names = [n.id for n in ast.walk(s) if isinstance(n, ast.Name)]
        if not any(n in ERASED_NAMES for n in names):
            return False
        if any(isinstance(n, (ast.Return, ast.Continue, ast.Break, ast.Raise, ast.Global, ast.FunctionDef))
               for n in ast.walk(s)):
            return False
        return all(n in ERASED_NAMES or n in ERASED_HELPERS for n in names) \
            and not any(n in self.env and self.env[n][0] is not None for n in names)

    def let(self, name, v, rest, ctx):
        """bind a local and go on"""
        binds = self.take()
        if v.ty in ("erased", "propsobj"):
            self.env[name] = (None, v.ty)
            return self.wrap(binds, self.block(rest, ctx))
        if v.ty == "none":
            self.env[name] = ("None", "none")
            return self.wrap(binds, self.block(rest, ctx))
        if self.world_global(name) is not None or name in self.closures:
            raise Untranslatable("a local named like the global %s" % name)
        cn = cname(name)
        self.env[name] = (cn, v.ty)
        return self.wrap(binds, "(let %s := %s in\n  %s)" % (cn, v.text, self.block(rest, ctx)))

    def set_global(self, name, text, rest, ctx):
        binds = self.take()
        return self.wrap(binds, "(let st := set_%s %s st in\n  %s)" % (name, text, self.block(rest, ctx)))

    def block(self, stmts, ctx):
        if self.binds:
            raise Untranslatable("internal: pending operations at a statement boundary")
        if not stmts:
            return self.done(ctx.fall_val())
        s, rest = stmts[0], list(stmts[1:])
        if isinstance(s, ast.Expr) and isinstance(s.value, ast.Constant) and isinstance(s.value.value, str):
            return self.block(rest, ctx)            # docstring
        if isinstance(s, ast.Pass):
            return self.block(rest, ctx)
        if isinstance(s, ast.Global):
            for n in s.names:
                if n in self.env:
                    raise Untranslatable("global %s after a local of that name" % n)
                self.globals_decl.add(n)
            return self.block(rest, ctx)
        if self.is_erased_stmt(s):
            return self.block(rest, ctx)
        if isinstance(s, ast.Return):
            v = self.expr(s.value) if s.value is not None else Val("None", "none")
            val = ctx.ret_val(v)
            return self.wrap(self.take(), self.done(val))
        if isinstance(s, ast.Continue):
            return self.done(ctx.cont_val())
        if isinstance(s, ast.Break):
            return self.done(ctx.brk_val())
        if isinstance(s, ast.Assert):
            if s.msg is not None:
                raise Untranslatable("assert with a message")
            c = self.cond(s.test)
            binds = self.take()
            return self.wrap(binds, "(if %s\n  then %s\n  else %s)" % (c, self.block(rest, ctx),
                                                                       self.raise_("AssertionError")))
        if isinstance(s, ast.If):
            then = list(s.body) + ([] if self.terminates(s.body) else rest)
            els = list(s.orelse) + ([] if s.orelse and self.terminates(s.orelse) else rest)
            return self.branch(s.test, then, els, ctx)
        if isinstance(s, ast.Assign) and len(s.targets) == 1:
            return self.assign(s.targets[0], s.value, rest, ctx)
        if isinstance(s, ast.Expr) and isinstance(s.value, ast.Call):
            return self.call_stmt(s.value, rest, ctx)
        if isinstance(s, ast.For):
            return self.for_loop(s, rest, ctx)
        if isinstance(s, ast.Try):
            return self.try_stmt(s, rest, ctx)
        if isinstance(s, ast.With):
            if len(s.items) != 1 or not isinstance(s.items[0].optional_vars, ast.Name):
                raise Untranslatable("with statement shape")
            v = self.expr(s.items[0].context_expr)
            if v.ty not in ("rtext", "wfile"):
                raise Untranslatable("with on a %r" % (v.ty,))
            return self.let(s.items[0].optional_vars.id, v, list(s.body) + rest, ctx)
        if isinstance(s, ast.FunctionDef):
            return self.nested_def(s, rest, ctx)
        raise Untranslatable("statement " + type(s).__name__)

    def branch(self, test, then, els, ctx):
        if isinstance(test, ast.UnaryOp) and isinstance(test.op, ast.Not):
            return self.branch(test.operand, els, then, ctx)
        var = None
        if isinstance(test, ast.Compare) and len(test.ops) == 1 and isinstance(test.left, ast.Name) \
                and isinstance(test.comparators[0], ast.Constant) and test.comparators[0].value is None \
                and isinstance(test.ops[0], (ast.Is, ast.IsNot)):
            var, some_first = test.left.id, isinstance(test.ops[0], ast.IsNot)
        elif isinstance(test, ast.Name) and test.id in self.env:
            t = self.env[test.id][1]
            if isinstance(t, tuple) and t[0] == "option" and t[1] in ("cprop", "cur", "gunit") \
                    and self.G.class_always_true(t[1]):
                var, some_first = test.id, True
        if var is not None and var in self.env and isinstance(self.env[var][1], tuple) \
                and self.env[var][1][0] == "option" and self.env[var][0] is not None:
            cn, ty = self.env[var]
            some, none = (then, els) if some_first else (els, then)
            saved = dict(self.env), dict(self.closures)
            self.env[var] = (cn, ty[1])
            a = self.block(some, ctx)
            self.env, self.closures = dict(saved[0]), dict(saved[1])
            b = self.block(none, ctx)
            self.env, self.closures = saved
            return "(match %s with\n  | Some %s => %s\n  | None => %s\n  end)" % (cn, cn, a, b)
        c = self.cond(test)
        binds = self.take()
        saved = dict(self.env), dict(self.closures)
        a = self.block(then, ctx)
        self.env, self.closures = dict(saved[0]), dict(saved[1])
        b = self.block(els, ctx)
        self.env, self.closures = saved
        return self.wrap(binds, "(if %s\n  then %s\n  else %s)" % (c, a, b))

    def assign(self, target, value, rest, ctx):
        if isinstance(target, ast.Name):
            name = target.id
            g = self.world_global(name)
            if name in self.globals_decl or (g is not None and self.is_block):
                if g is None or g[1] in ("config", "keys"):
                    raise Untranslatable("assignment to the global %s" % name)
                v = self.expr(value)
                return self.set_global(name, coerce(v, g[1]), rest, ctx)
            if g is not None:
                raise Untranslatable("%s assigned without a global declaration" % name)
            return self.let(name, self.expr(value), rest, ctx)
        if isinstance(target, ast.Tuple) and len(target.elts) == 2 and all(isinstance(t, ast.Name) for t in target.elts):
            a, b = target.elts[0].id, target.elts[1].id
            if self.world_global(a) is not None or self.world_global(b) is not None or a == b:
                raise Untranslatable("tuple assignment to a global")
            if isinstance(value, ast.Call) and attr_chain(value.func) == ["os", "path", "split"] \
                    and len(value.args) == 1 and not value.keywords and self.G.imports(self.module, "os.path") \
                    and "os" not in self.env:
                p = self.expr(value.args[0])
                if p.ty != "gval":
                    raise Untranslatable("os.path.split of a %r" % (p.ty,))
                binds = self.take()
                self.env[a] = ("tt", "parent")
                self.env[b] = (None, "erased")
                return self.wrap(binds, self.block(rest, ctx))
            v = self.expr(value)
            if not (isinstance(v.ty, tuple) and v.ty[0] == "list"):
                raise Untranslatable("unpacking of a %r" % (v.ty,))
            t = self.bind("pure", "unpack2 %s" % v.text, ("tuple", [v.ty[1], v.ty[1]]))
            binds = self.take()
            self.env[a] = (cname(a), v.ty[1])
            self.env[b] = (cname(b), v.ty[1])
            return self.wrap(binds, "(let '(%s, %s) := %s in\n  %s)" % (cname(a), cname(b), t.text,
                                                                        self.block(rest, ctx)))
        if isinstance(target, ast.Subscript) and isinstance(target.value, ast.Name):
            g = self.world_global(target.value.id)
            if g is not None and g[1] in ("config", "keys"):
                k = self.expr(target.slice)
                if k.ty != "string":
                    raise Untranslatable("a %r as a key" % (k.ty,))
                v = self.expr(value)
                if g[1] == "config":
                    item = "(%s, %s)" % (k.text, coerce(v, "cval"))
                else:
                    if v.ty != "gunit":
                        raise Untranslatable("a %r stored in %s" % (v.ty, target.value.id))
                    item = k.text
                return self.set_global(target.value.id, "(%s :: %s st)" % (item, g[0]), rest, ctx)
        raise Untranslatable("assignment target " + ast.dump(target)[:60])

    def call_stmt(self, call, rest, ctx):
        f = call.func
        if is_name(f, "print") and "print" not in self.env and self.G.is_builtin(self.module, "print") \
                and self.world == "cworld":
            if len(call.args) != 1 or len(call.keywords) != 1 or call.keywords[0].arg != "file":
                raise Untranslatable("print call shape")
            m = self.message(call.args[0])
            stream = call.keywords[0].value
            if attr_chain(stream) == ["sys", "stderr"] and "sys" not in self.env and self.G.imports(self.module, "sys"):
                text = "print_stderr %s" % m.text
            else:
                sv = self.expr(stream)
                if sv.ty != "optstream":
                    raise Untranslatable("print to a %r" % (sv.ty,))
                text = "print_stream %s %s" % (sv.text, m.text)
            binds = self.take()
            return self.wrap(binds, "(let st := %s st in\n  %s)" % (text, self.block(rest, ctx)))
        if isinstance(f, ast.Attribute) and f.attr == "append" and isinstance(f.value, ast.Name) \
                and len(call.args) == 1 and not call.keywords:
            name = f.value.id
            g = self.world_global(name)
            v = self.expr(call.args[0])
            if g is not None:
                if not (isinstance(g[1], tuple) and g[1][0] == "list" and ty_eq(g[1][1], v.ty)):
                    raise Untranslatable("append of a %r to %s" % (v.ty, name))
                return self.set_global(name, "(%s st ++ [%s])%%list" % (g[0], v.text), rest, ctx)
            if name in self.env and isinstance(self.env[name][1], tuple) and self.env[name][1][0] == "list" \
                    and self.env[name][0] is not None:
                cn, t = self.env[name]
                if t[1] is not None and not ty_eq(t[1], v.ty):
                    raise Untranslatable("append of a %r to a list of %r" % (v.ty, t[1]))
                binds = self.take()
                self.env[name] = (cn, LIST(v.ty))
                return self.wrap(binds, "(let %s := (%s ++ [%s])%%list in\n  %s)" % (cn, cn, v.text, self.block(rest, ctx)))
            raise Untranslatable("append to %s" % name)
        self.expr(call)             # value discarded; the operation stays bound
        binds = self.take()
        if not binds:
            raise Untranslatable("an expression statement without effect: " + ast.dump(call)[:60])
        return self.wrap(binds, self.block(rest, ctx))

    def for_loop(self, s, rest, ctx):
        if s.orelse or not isinstance(s.target, ast.Name):
            raise Untranslatable("for loop shape")
        it = self.as_list(self.expr(s.iter))
        binds = self.take()
        var = s.target.id
        if var in self.env or self.world_global(var) is not None:
            raise Untranslatable("loop variable %s shadows a live name" % var)
        carried = [n for n in self.assigned_names(s.body)
                   if n in self.env and self.env[n][0] is not None and n != var]
        # a list created empty gets its element type from the first append
        for n in carried:
            t = self.env[n][1]
            if isinstance(t, tuple) and t[0] == "list" and t[1] is None:
                et = self.list_elem_type(n, s.body, var, it.ty[1])
                self.env[n] = (self.env[n][0], LIST(et))
        saved = dict(self.env), dict(self.closures)
        lctx = LoopCtx(self, ctx, carried)
        init = lctx.tuple()
        self.env[var] = (cname(var), it.ty[1])
        body = self.block(list(s.body), lctx)
        self.env, self.closures = saved
        after = self.block(rest, ctx)
        if self.mode == "state":
            text = ("(sbind (sfor (fun %s %s st =>\n  %s)\n  %s %s st) (fun o st =>\n  match o with\n"
                    "  | FReturn b => (POk b, st)\n  | FNext %s | FBreak %s =>\n  %s\n  end))") % (
                cname(var), lctx.binder(), body, it.text, init, lctx.pattern(), lctx.pattern(), after)
        else:
            text = ("(pbind (pfor (fun %s %s =>\n  %s)\n  %s %s) (fun o =>\n  match o with\n"
                    "  | FReturn b => (POk b)\n  | FNext %s | FBreak %s =>\n  %s\n  end))") % (
                cname(var), lctx.binder(), body, it.text, init, lctx.pattern(), lctx.pattern(), after)
        return self.wrap(binds, text)

    def list_elem_type(self, name, body, var, vty):
        """element type of the first `name.append(e)` in the loop body (translated in a scratch copy of the state)"""
        for n in ast.walk(ast.Module(body=list(body), type_ignores=[])):
            if isinstance(n, ast.Call) and isinstance(n.func, ast.Attribute) and n.func.attr == "append" \
                    and is_name(n.func.value, name) and len(n.args) == 1:
                a = n.args[0]
                if isinstance(a, ast.Call) and isinstance(a.func, ast.Name):
                    tgt = self.G.resolve(self.module, [a.func.id])
                    if tgt is not None and tgt[0] == "class" and tgt[1] == "CurrencyData":
                        return "cur"
                raise Untranslatable("element type of the list %s" % name)
        raise Untranslatable("element type of the list %s" % name)

    def try_stmt(self, s, rest, ctx):
        if len(s.handlers) != 1 or s.orelse or s.finalbody:
            raise Untranslatable("try statement shape (one handler, no else / finally)")
        h = s.handlers[0]
        if h.type is None:
            raise Untranslatable("bare except")
        types = h.type.elts if isinstance(h.type, ast.Tuple) else [h.type]
        classes = []
        for t in types:
            if not isinstance(t, ast.Name) or t.id in self.env or not self.G.is_builtin(self.module, t.id):
                raise Untranslatable("exception class " + ast.dump(t)[:40])
            classes.append(t.id)
        names = [n for n in self.assigned_names(s.body) if self.loaded_outside(n, s.body)
                 and self.world_global(n) is None]
        saved = dict(self.env), dict(self.closures)
        tctx = TryCtx(self, ctx, names)
        body = self.block(list(s.body), tctx)
        self.env, self.closures = dict(saved[0]), dict(saved[1])
        hv = "e"
        if h.name:
            self.env[h.name] = ("e", "pyexn")
        handler = self.block(list(h.body) + ([] if self.terminates(h.body) else rest), ctx)
        self.env, self.closures = dict(saved[0]), dict(saved[1])
        for n, t in zip(names, tctx.types or []):
            self.env[n] = (cname(n), t)
        if names and tctx.types is None:
            raise Untranslatable("a try body that assigns %s but never falls through" % names)
        else:
            after = self.block(rest, ctx)
        self.env, self.closures = saved
        cn = [cname(n) for n in names]
        pat = "_" if not cn else cn[0] if len(cn) == 1 else "(" + ", ".join(cn) + ")"
        cls = "[" + "; ".join('"%s"' % c for c in classes) + "]"
        if self.mode == "state":
            return ("(stry (%s)\n  %s\n  (fun %s st =>\n  %s)\n  (fun o st =>\n  match o with\n  | inl %s =>\n  %s\n"
                    "  | inr b => (POk b, st)\n  end))") % (body, cls, hv, handler, pat, after)
        return ("(ptry (%s)\n  %s\n  (fun %s =>\n  %s)\n  (fun o =>\n  match o with\n  | inl %s =>\n  %s\n"
                "  | inr b => (POk b)\n  end))") % (body, cls, hv, handler, pat, after)

    def nested_def(self, s, rest, ctx):
        if s.name not in NESTED or s.decorator_list:
            raise Untranslatable("nested function %s is not declared in NESTED" % s.name)
        spec = NESTED[s.name]
        a = s.args
        if a.vararg or a.kwarg or a.kwonlyargs or a.defaults or a.posonlyargs \
                or [x.arg for x in a.args] != [n for n, _ in spec["params"]]:
            raise Untranslatable("signature of the nested function %s" % s.name)
        if s.name in self.env or self.world_global(s.name) is not None:
            raise Untranslatable("nested function %s shadows a name" % s.name)
        saved = dict(self.env), dict(self.closures), set(self.globals_decl)
        for n, t in spec["params"]:
            self.env[n] = (cname(n), t)
        body = self.block(list(s.body), TopCtx(self, spec["ret"]))
        self.env, self.closures, self.globals_decl = saved
        binders = " ".join("(%s : %s)" % (cname(n), coqty(t)) for n, t in spec["params"])
        if self.mode == "state":
            binders += " (st : %s)" % self.world
        self.closures[s.name] = spec
        return "(let %s := fun %s =>\n  %s in\n  %s)" % (cname(s.name), binders, body, self.block(rest, ctx))

    is_block = False


# ------------------------------------------------------------------------------------------------ the file
BUILTINS = {"len", "int", "float", "map", "any", "next", "open", "print", "dir", "isinstance", "str",
            "OSError", "UnicodeDecodeError", "ValueError", "Exception"}


class Gen:
    def __init__(self):
        self.trees = {}
        for m in ("config", "currency", "units", "interpret"):
            self.trees[m] = ast.parse(open(os.path.join(C.SRC, "ka", m + ".py")).read())
        self.funcs = {}
        self.out = []
        self.props = None           # [(attr, name, default text, num, boolean)]
        self.props_ok = False
        self._consts = {}
        self.current_file = None

    # ---- module-level bindings
    def bound_at_module_level(self, module, name):
        """the statements of the module that bind `name` at top level (def, class, import, assignment)"""
        hits = []
        for s in self.trees[module].body:
            if isinstance(s, (ast.FunctionDef, ast.ClassDef)) and s.name == name:
                hits.append(s)
            elif isinstance(s, (ast.Import, ast.ImportFrom)):
                for a in s.names:
                    if (a.asname or a.name.split(".")[0]) == name:
                        hits.append(s)
            else:
                for n in ast.walk(s):
                    if isinstance(n, (ast.FunctionDef, ast.Lambda, ast.ClassDef)):
                        continue
                    if isinstance(n, ast.Name) and isinstance(n.ctx, ast.Store) and n.id == name:
                        hits.append(s)
        return hits

    def is_builtin(self, module, name):
        return name in BUILTINS and not self.bound_at_module_level(module, name)

    def imports(self, module, dotted):
        """`import a.b` (or `import a` for a one-part name) at module level, and nothing else binds `a`"""
        top = dotted.split(".")[0]
        hits = self.bound_at_module_level(module, top)
        if not hits or not all(isinstance(h, ast.Import) for h in hits):
            return False
        names = [a.name for h in hits for a in h.names if a.asname is None]
        if dotted == "os.path":
            return "os.path" in names or "os" in names
        return dotted in names

    def resolve(self, module, chain):
        """what a called name denotes: ("function", qualified) | ("class", name) | None"""
        if chain == ["ka", "config", "get"] and self.imports(module, "ka.config"):
            return ("function", "config.get")
        if len(chain) != 1:
            return None
        name = chain[0]
        hits = self.bound_at_module_level(module, name)
        if len(hits) != 1:
            return None
        h = hits[0]
        if isinstance(h, ast.FunctionDef):
            return ("function", "%s.%s" % (module, name))
        if isinstance(h, ast.ClassDef):
            return ("class", name)
        if isinstance(h, ast.ImportFrom) and h.level == 1 and h.module in self.trees:
            for a in h.names:
                if (a.asname or a.name) == name:
                    return self.resolve(h.module, [a.name])
        return None

    def class_node(self, cls):
        for m in ("config", "currency", "units"):
            for s in self.trees[m].body:
                if isinstance(s, ast.ClassDef) and s.name == cls:
                    return s
        return None

    def class_fields(self, cls):
        """__init__(self, f1, .., fn) whose body is exactly self.fi = fi for the fields in order -> [f1..fn]"""
        c = self.class_node(cls)
        if c is None:
            return None
        init = [s for s in c.body if isinstance(s, ast.FunctionDef) and s.name == "__init__"]
        if len(init) != 1:
            return None
        a = init[0].args
        if a.vararg or a.kwarg or a.kwonlyargs or a.posonlyargs or init[0].decorator_list:
            return None
        names = [x.arg for x in a.args]
        fields = names[1:]
        body = [s for s in init[0].body if not (isinstance(s, ast.Expr) and isinstance(s.value, ast.Constant))]
        if len(body) != len(fields):
            return None
        for s, f in zip(body, fields):
            if not (isinstance(s, ast.Assign) and len(s.targets) == 1 and isinstance(s.targets[0], ast.Attribute)
                    and is_name(s.targets[0].value, names[0]) and s.targets[0].attr == f and is_name(s.value, f)):
                return None
        return fields

    def class_always_true(self, ty):
        cls = {"cprop": "ConfigProperty", "cur": "CurrencyData", "gunit": "Unit"}[ty]
        c = self.class_node(cls)
        return c is not None and not c.bases and not any(
            isinstance(s, ast.FunctionDef) and s.name in ("__bool__", "__len__") for s in c.body)

    def class_ok(self, cls):
        want = {"ConfigProperty": ["name", "default", "num", "boolean"],
                "CurrencyData": ["symbol", "name", "dollar_rate"]}[cls]
        c = self.class_node(cls)
        return self.class_fields(cls) == want and c is not None and not any(
            isinstance(s, ast.FunctionDef) and s.name in ("__getattr__", "__getattribute__") for s in c.body)

    # ---- constants
    def module_assign(self, module, name):
        hits = self.bound_at_module_level(module, name)
        if len(hits) == 1 and isinstance(hits[0], ast.Assign) and len(hits[0].targets) == 1 \
                and is_name(hits[0].targets[0], name):
            return hits[0].value
        return None

    def is_system_path(self, module, name):
        v = self.module_assign(module, name)
        return isinstance(v, ast.Call) and attr_chain(v.func) == ["SYSTEM_CONFIG_DIR", "joinpath"] \
            and all(isinstance(a, ast.Constant) and isinstance(a.value, str) for a in v.args) and not v.keywords

    def constant(self, module, name):
        key = (module, name)
        if key in self._consts:
            return self._consts[key]
        out = None
        v = self.module_assign(module, name)
        if module == "config" and name == "CONFIG_PATH" and self.is_system_path(module, name):
            out = Val("PConfig", "pathkey")
        elif module == "currency" and name == "DEFAULT_CURRENCY_DATA" and isinstance(v, ast.Constant) \
                and isinstance(v.value, str):
            out = Val("g_DEFAULT_CURRENCY_DATA", "string")
        elif module == "units" and name in ("SPECIAL_NAMES", "SPECIAL_CURRENCY_SYMBOLS") and self.str_dict(v) is not None:
            out = Val("g_" + name, ("dict", "string"))
        self._consts[key] = out
        return out

    def str_dict(self, v):
        if not isinstance(v, ast.Dict):
            return None
        items = []
        for k, x in zip(v.keys, v.values):
            if not (isinstance(k, ast.Constant) and isinstance(k.value, str) and isinstance(x, ast.Constant)
                    and isinstance(x.value, str)):
                return None
            items.append((k.value, x.value))
        if len(set(k for k, _ in items)) != len(items):
            return None
        return items

    def class_constant(self, module, cls, attr):
        tgt = self.resolve(module, [cls])
        if tgt != ("class", cls):
            return None
        if cls == "ConfigProperties" and self.props_ok and any(p[0] == attr for p in self.props):
            return Val("g_prop_" + attr, "cprop")
        if cls == "Unit" and attr == "NO_PLURAL":
            c = self.class_node("Unit")
            vals = [s.value for s in c.body if isinstance(s, ast.Assign) and len(s.targets) == 1
                    and is_name(s.targets[0], "NO_PLURAL")]
            if len(vals) == 1 and isinstance(vals[0], ast.Constant) and isinstance(vals[0].value, str):
                return Val("g_Unit_NO_PLURAL", "string")
        return None

    # ---- static tables
    def config_properties(self):
        c = self.class_node("ConfigProperties")
        if c is None or self.class_fields("ConfigProperty") != ["name", "default", "num", "boolean"]:
            raise Untranslatable("classes ConfigProperty / ConfigProperties")
        init = [s for s in self.class_node("ConfigProperty").body if isinstance(s, ast.FunctionDef)][0]
        d = init.args.defaults
        if len(d) != 2 or not all(isinstance(x, ast.Constant) and x.value is False for x in d):
            raise Untranslatable("defaults of ConfigProperty.__init__ (num=False, boolean=False expected)")
        if c.bases or c.decorator_list:
            raise Untranslatable("bases of ConfigProperties")
        props = []
        for s in c.body:
            if isinstance(s, ast.Expr) and isinstance(s.value, ast.Constant):
                continue
            if not (isinstance(s, ast.Assign) and len(s.targets) == 1 and isinstance(s.targets[0], ast.Name)
                    and isinstance(s.value, ast.Call) and is_name(s.value.func, "ConfigProperty")
                    and len(s.value.args) == 2 and isinstance(s.value.args[0], ast.Constant)
                    and isinstance(s.value.args[0].value, str)):
                raise Untranslatable("a member of ConfigProperties that is not NAME = ConfigProperty(name, default, ..)")
            kw = {}
            for k in s.value.keywords:
                if k.arg not in ("num", "boolean") or not isinstance(k.value, ast.Constant) \
                        or not isinstance(k.value.value, bool):
                    raise Untranslatable("keyword of ConfigProperty(..)")
                kw[k.arg] = k.value.value
            dflt = s.value.args[1]
            if isinstance(dflt, ast.Constant) and isinstance(dflt.value, (str, int, bool)):
                text = str(dflt.value)
            elif isinstance(dflt, ast.Name) and self.is_system_path("config", dflt.id):
                text = "<path>"
            else:
                raise Untranslatable("default of %s" % s.targets[0].id)
            props.append((s.targets[0].id, s.value.args[0].value, text, kw.get("num", False), kw.get("boolean", False)))
        if len(set(p[0] for p in props)) != len(props):
            raise Untranslatable("an attribute of ConfigProperties bound twice")
        self.props = props
        self.props_ok = True

    def prop_text(self, p):
        return "(%s, %s, %s, %s)" % (coq_string(p[1]), coq_string(p[2]), "true" if p[3] else "false",
                                     "true" if p[4] else "false")

    # ---- translation of one declared function
    def translate(self, qual):
        spec = SPECS[qual]
        module, name = qual.split(".")
        try:
            hits = self.bound_at_module_level(module, name)
            if len(hits) != 1 or not isinstance(hits[0], ast.FunctionDef):
                raise Untranslatable("%s is not defined exactly once at module level" % qual)
            fn = hits[0]
            a = fn.args
            if a.vararg or a.kwarg or a.kwonlyargs or a.posonlyargs or fn.decorator_list:
                raise Untranslatable("signature of %s" % qual)
            names = [x.arg for x in a.args]
            if names != [n for n, _ in spec["params"]]:
                raise Untranslatable("parameters of %s are %s" % (qual, names))
            defaults = dict(zip(names[len(names) - len(a.defaults):], a.defaults))
            F = Fn(self, module, spec["mode"], spec["world"], fn)
            for n, t in spec["params"]:
                F.env[n] = (None, "erased") if t == "erased" else (cname(n), t)
            body = F.block(list(fn.body), TopCtx(F, spec["ret"]))
            binders = "".join(" (%s : %s)" % (cname(n), coqty(t)) for n, t in spec["params"] if t != "erased")
            if spec["mode"] == "state":
                binders += " (st : %s)" % spec["world"]
                rty = "sres %s %s" % (spec["world"], coqty(spec["ret"]))
            else:
                rty = "pres %s" % coqty(spec["ret"])
            self.out.append("(* %s.py: %s *)\nDefinition %s%s : %s :=\n  %s.\n" % (module, name, spec["coq"], binders, rty, body))
            self.funcs[qual] = dict(spec, defaults=defaults)
        except Untranslatable as x:
            self.out.append("(* UNTRANSLATABLE %s (%s): %s *)\n" % (spec["coq"], qual, str(x).replace("*)", "* )")))

    def translate_block(self, coq, module, stmts, inputs, outputs, mode, world, what):
        try:
            F = Fn(self, module, mode, world, ast.Module(body=list(stmts), type_ignores=[]))
            F.is_block = True
            for n, t in inputs:
                F.env[n] = (cname(n), t)
            ctx = BlockCtx(F, outputs)
            body = F.block(list(stmts), ctx)
            binders = "".join(" (%s : %s)" % (cname(n), coqty(t)) for n, t in inputs)
            rt = "unit" if not outputs else coqty(outputs[0][1]) if len(outputs) == 1 else coqty(ctx.ret)
            if mode == "state":
                binders += " (st : %s)" % world
                rty = "sres %s %s" % (world, rt)
            else:
                rty = "pres %s" % rt
            self.out.append("(* %s *)\nDefinition %s%s : %s :=\n  %s.\n" % (what, coq, binders, rty, body))
        except Untranslatable as x:
            self.out.append("(* UNTRANSLATABLE %s: %s *)\n" % (coq, str(x).replace("*)", "* )")))


def stores(node, names):
    """does the statement bind one of the names (assignment, loop target, def, global declaration)"""
    for n in ast.walk(node):
        if isinstance(n, ast.Name) and isinstance(n.ctx, (ast.Store, ast.Del)) and n.id in names:
            return True
        if isinstance(n, ast.Global) and set(n.names) & set(names):
            return True
        if isinstance(n, (ast.FunctionDef, ast.ClassDef)) and n.name in names:
            return True
    return False


def units_blocks(G):
    """the two runs of module-level statements of units.py (see MAPPING: blocks)"""
    body = G.trees["units"].body
    watched = ["BASE_CURRENCY", "CURRENCY_DATA", "DEFAULT_BASE_CURRENCY", "SPECIAL_NAMES", "SPECIAL_CURRENCY_SYMBOLS",
               "NAME_TO_UNIT", "SYMBOL_TO_UNIT", "UNITS"]
    i0 = [i for i, s in enumerate(body) if isinstance(s, ast.Assign) and len(s.targets) == 1
          and is_name(s.targets[0], "DEFAULT_BASE_CURRENCY")]
    i1 = [i for i, s in enumerate(body) if isinstance(s, ast.If)
          and any(is_name(n, "has_currency") for n in ast.walk(s.test))]
    i2 = [i for i, s in enumerate(body) if isinstance(s, ast.If) and isinstance(s.test, ast.Compare)
          and is_name(s.test.left, "BASE_CURRENCY") and any(isinstance(n, ast.For) for n in ast.walk(s))]
    if len(i0) != 1 or len(i1) != 1 or len(i2) != 1 or not i0[0] < i1[0] < i2[0]:
        raise Untranslatable("the currency statements of units.py are not where they are expected")
    base_block = [s for s in body[i0[0]:i1[0] + 1]
                  if not (isinstance(s, ast.FunctionDef) and s.name == "has_currency")]
    reg_block = [body[i2[0]]]
    # between the blocks and after them nothing else may bind the variables of the blocks; the dictionaries are
    # bound once (their creation) and otherwise only changed through register_unit
    for i, s in enumerate(body):
        if i0[0] <= i <= i1[0] or i == i2[0]:
            continue
        if isinstance(s, ast.FunctionDef):
            inner = [x for x in s.body]
            if any(stores(x, watched[:5]) for x in inner):
                raise Untranslatable("function %s assigns a currency variable of units.py" % s.name)
            continue
        if stores(s, watched[:5]) and not (isinstance(s, ast.Assign) and len(s.targets) == 1
                                           and isinstance(s.targets[0], ast.Name)
                                           and s.targets[0].id in ("SPECIAL_NAMES", "SPECIAL_CURRENCY_SYMBOLS")
                                           and isinstance(s.value, ast.Dict)):
            raise Untranslatable("a statement outside the translated blocks assigns a currency variable (line %d)" % s.lineno)
        if i > i1[0] and stores(s, watched[5:]):
            raise Untranslatable("NAME_TO_UNIT / SYMBOL_TO_UNIT / UNITS rebound after the currency table is loaded (line %d)" % s.lineno)
    return base_block, reg_block


def default_floats(text):
    out, seen = [], set()
    for line in text.split("\n"):
        if not line.strip():
            continue
        f = line.split(",")
        if len(f) < 3 or f[2] in seen:
            continue
        seen.add(f[2])
        try:
            x = float(f[2])
        except ValueError:
            continue
        if x != x or x in (float("inf"), float("-inf")):
            continue
        out.append((f[2], Fraction(x)))
    return out


def header(what):
    return ("(* GENERATED by harness/trans_config.py from %s by AST\n   translation — do not edit.\n" % what) + MAPPING + "*)\n"


_CACHE = {}


def build():
    """both generated files in one pass (the config file calls functions of the currency file)"""
    key = os.path.realpath(C.SRC)
    if key in _CACHE:
        return _CACHE[key]
    G = Gen()
    out = G.out
    # ================================================================ GenCurrencySrc.v
    G.current_file = "currency"
    v = G.module_assign("currency", "DEFAULT_CURRENCY_DATA")
    if G.constant("currency", "DEFAULT_CURRENCY_DATA") is not None:
        out.append("(* currency.py: DEFAULT_CURRENCY_DATA; float() of its third fields *)")
        out.append("Definition g_DEFAULT_CURRENCY_DATA : string :=\n%s.\n" % coq_string(v.value))
        out.append("Definition g_default_floats : list (string * Q) := [\n  %s\n].\n" % ";\n  ".join(
            "(%s, %s)" % (coq_string(k), qlit(q)) for k, q in default_floats(v.value)))
    else:
        out.append("(* UNTRANSLATABLE g_DEFAULT_CURRENCY_DATA: not a string constant bound once *)\n")
    for name in ("SPECIAL_CURRENCY_SYMBOLS", "SPECIAL_NAMES"):
        if G.constant("units", name) is not None:
            items = G.str_dict(G.module_assign("units", name))
            out.append("Definition g_%s : list (string * string) := [%s]." % (
                name, "; ".join("(%s, %s)" % (coq_string(k), coq_string(x)) for k, x in items)))
        else:
            out.append("(* UNTRANSLATABLE g_%s: not a dictionary of string constants bound once *)" % name)
    if G.class_constant("units", "Unit", "NO_PLURAL") is not None:
        c = G.class_node("Unit")
        val = [s.value for s in c.body if isinstance(s, ast.Assign) and is_name(s.targets[0], "NO_PLURAL")][0].value
        out.append("Definition g_Unit_NO_PLURAL : string := %s." % coq_string(val))
    else:
        out.append("(* UNTRANSLATABLE g_Unit_NO_PLURAL *)")
    dbc = G.module_assign("units", "DEFAULT_BASE_CURRENCY")
    if isinstance(dbc, ast.Constant) and isinstance(dbc.value, str):
        out.append("Definition g_DEFAULT_BASE_CURRENCY : string := %s." % coq_string(dbc.value))
    else:
        out.append("(* UNTRANSLATABLE g_DEFAULT_BASE_CURRENCY *)")
    out.append("")
    for q in ORDER:
        if SPECS[q]["file"] == "currency":
            G.translate(q)
    blocks = None
    try:
        blocks = units_blocks(G)
        G.translate_block("g_select_base", "units", [blocks[0][-1]],
                          [("DEFAULT_BASE_CURRENCY", "string"), ("BASE_CURRENCY", "gval"), ("CURRENCY_DATA", LIST("cur"))],
                          [("BASE_CURRENCY", OPT("gval"))], "pure", None,
                          "units.py: if not has_currency(BASE_CURRENCY, CURRENCY_DATA): .. (the statement alone)")
        G.translate_block("g_units_register_block", "units", blocks[1],
                          [("BASE_CURRENCY", OPT("gval")), ("CURRENCY_DATA", LIST("cur"))], [], "state", "uworld",
                          "units.py: if BASE_CURRENCY is not None: .. the registration loop")
    except Untranslatable as x:
        out.append("(* UNTRANSLATABLE g_units_register_block: %s *)\n" % str(x).replace("*)", "* )"))
    currency = (header("src/ka/currency.py (parse_currency_data, DEFAULT_CURRENCY_DATA), src/ka/units.py (has_currency,\n"
                       "   register_unit, the currency registration loop, SPECIAL_NAMES, SPECIAL_CURRENCY_SYMBOLS)")
                + PRELUDE + "\nSection SrcCurrency.\nVariable pf : pyfloat_t.\nVariable nn : namenorm_t.\n\n"
                + "\n".join(out) + "\nEnd SrcCurrency.\n")
    # ================================================================ GenConfigSrc.v
    G.current_file = "config"
    del out[:]
    try:
        G.config_properties()
        props = sorted((p for p in G.props if not p[0].startswith("_")), key=lambda p: p[0])
        out.append("(* config.py: class ConfigProperties, public attributes in dir() order *)")
        out.append("Definition g_config_props : list cprop := [\n  %s\n].\n" % ";\n  ".join(G.prop_text(p) for p in props))
        for p in G.props:
            out.append("Definition g_prop_%s : cprop := %s." % (p[0], G.prop_text(p)))
        out.append("")
    except Untranslatable as x:
        out.append("(* UNTRANSLATABLE g_config_props: %s *)\n" % str(x).replace("*)", "* )"))
    for q in ORDER:
        if SPECS[q]["file"] == "config":
            G.translate(q)
    try:
        if blocks is None:
            units_blocks(G)
        if "units.has_currency" not in G.funcs:
            raise Untranslatable("has_currency is not translated")
        G.translate_block("g_units_base_block", "units", blocks[0], [],
                          [("CURRENCY_DATA", OPT(LIST("cur"))), ("BASE_CURRENCY", OPT("gval"))], "state", "cworld",
                          "units.py: DEFAULT_BASE_CURRENCY = .. ; CURRENCY_DATA = .. ; BASE_CURRENCY = .. ; if not has_currency(..): ..")
    except Untranslatable as x:
        out.append("(* UNTRANSLATABLE g_units_base_block: %s *)\n" % str(x).replace("*)", "* )"))
    config = (header("src/ka/config.py, src/ka/currency.py (load_currency_data), src/ka/interpret.py (history_enabled,\n"
                     "   load_history, save_history), src/ka/units.py (the statements that load the table and choose the base currency)")
              + "\nFrom Coq Require Import List String ZArith QArith Ascii Bool.\nFrom Ka Require Import Model.Config.\n"
                "From Ka Require Export Gen.GenCurrencySrc.\nImport ListNotations.\nLocal Open Scope string_scope.\n\n"
                "Section SrcConfig.\nVariable fs : filesys.\nVariable pf : pyfloat_t.\nVariable wenv : write_env.\n\n"
              + ENV_HELPERS + "\n" + "\n".join(out) + "\nEnd SrcConfig.\n")
    _CACHE[key] = {"GenCurrencySrc.v": currency, "GenConfigSrc.v": config}
    return _CACHE[key]


GENERATES = {"GenCurrencySrc.v": lambda dump: build()["GenCurrencySrc.v"],
             "GenConfigSrc.v": lambda dump: build()["GenConfigSrc.v"]}

if __name__ == "__main__":
    sys.stdout.write(build()[sys.argv[1]])
