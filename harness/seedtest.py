"""Confirm a seeded change and run the property's check against it.
usage: /venv/bin/python harness/seedtest.py <seed dir with patch.diff, demo.py, meta.json> [--tier quick] [--props C01,C06]
Works in a scratch copy of /repo under /tmp (removed afterwards); /repo itself is never touched."""
import sys, os, json, subprocess, shutil, tempfile, time
V = os.path.dirname(os.path.dirname(os.path.abspath(__file__)))


def sh(cmd, **kw):
    return subprocess.run(cmd, shell=True, stdout=subprocess.PIPE, stderr=subprocess.STDOUT, text=True, **kw)


def main():
    d = os.path.abspath(sys.argv[1])
    tier = "quick"
    props = None
    for i, a in enumerate(sys.argv):
        if a == "--tier": tier = sys.argv[i + 1]
        if a == "--props": props = sys.argv[i + 1].split(",")
    benign = "--benign" in sys.argv     # a behaviour-preserving change: demo.py prints a battery of observations, identical with and without
    meta = json.load(open(os.path.join(d, "meta.json")))
    props = props or [meta["property"]]
    tmp = tempfile.mkdtemp(prefix="seedtest-", dir="/tmp")
    res = dict(seed=d, property=meta["property"])
    try:
        repo = os.path.join(tmp, "repo")
        sh("git -C /repo worktree add -q --detach %s HEAD" % repo)
        home = os.path.join(tmp, "home"); os.makedirs(home)
        env = "PYTHONPATH=%s/src HOME=%s PYTHONHASHSEED=0" % (repo, home)
        demo = os.path.join(d, "demo.py")
        r0 = sh("cd %s && %s /venv/bin/python %s" % (tmp, env, demo))
        res["demo_pristine_exit"] = r0.returncode
        a = sh("git -C %s apply %s" % (repo, os.path.join(d, "patch.diff")))
        if a.returncode != 0:
            a = sh("git -C %s apply --3way %s" % (repo, os.path.join(d, "patch.diff")))
        res["patch_applies"] = a.returncode == 0
        if a.returncode != 0:
            res["apply_output"] = a.stdout[-500:]
        t = sh("cd %s && %s /venv/bin/python -m pytest -q -p no:cacheprovider tst 2>&1 | tail -1" % (repo, env))
        res["tests"] = t.stdout.strip()
        r1 = sh("cd %s && %s /venv/bin/python %s" % (tmp, env, demo))
        res["demo_patched_exit"] = r1.returncode
        res["demo_patched_output"] = r1.stdout[-400:]
        res["confirmed"] = bool(res["patch_applies"] and "72 passed" in res["tests"] and r0.returncode == 0 and r1.returncode != 0)
        if benign:
            res["benign"] = True
            cut = lambda t: t.split("=== NEW FEATURE ===")[0]      # a feature addition may show its new feature after this marker
            res["demo_output_identical"] = cut(r0.stdout) == cut(r1.stdout)
            res["confirmed"] = bool(res["patch_applies"] and "72 passed" in res["tests"] and r0.returncode == 0 and r1.returncode == 0
                                    and cut(r0.stdout) == cut(r1.stdout))
        res["checks"] = {}
        # a private copy of the Coq development and a private build directory: no lock shared with runs on /repo
        priv = "--shared" not in sys.argv
        envp = ""
        if priv:
            shutil.copytree(os.path.join(V, "coq"), os.path.join(tmp, "coq"), symlinks=True)
            os.makedirs(os.path.join(tmp, "build"))
            envp = "KA_COQ_DIR=%s KA_BUILD_DIR=%s " % (os.path.join(tmp, "coq"), os.path.join(tmp, "build"))
        for p in props:
            t0 = time.time()
            c = sh("cd %s && %sKA_REPO=%s ./check %s --tier %s" % (V, envp, repo, p, tier))
            lines = [l for l in c.stdout.splitlines() if l.startswith("VIOLATION") or l.startswith("  ->")]
            res["checks"][p] = dict(exit=c.returncode, detected=c.returncode == 1 and any(l.startswith("VIOLATION") for l in lines),
                                    no_failing_input_only=all("no-failing-input-found" in l for l in lines if l.startswith("VIOLATION")) if lines else None,
                                    lines=[l[:300] for l in lines[:6]], wall_s=round(time.time() - t0, 1))
    finally:
        sh("git -C /repo worktree remove --force %s" % os.path.join(tmp, "repo"))
        shutil.rmtree(tmp, ignore_errors=True)
        if "--shared" in sys.argv:      # restore coq/Gen to /repo's tables
            sh("cd %s && /venv/bin/python harness/translate.py" % V)
    print(json.dumps(res, indent=1))


if __name__ == "__main__":
    main()
