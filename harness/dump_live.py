"""Runs inside a fresh interpreter with PYTHONPATH=/repo/src and an empty HOME: imports the live
ka modules and prints one JSON document describing every table the Coq development regenerates."""
import sys, json, inspect, types, math, ast, os
from fractions import Fraction


def impl_key(f, depth=0):
    if depth > 3:
        return "..."
    if isinstance(f, (types.BuiltinFunctionType, types.BuiltinMethodType)):
        return "%s.%s" % (getattr(f, "__module__", "?"), f.__name__)
    if isinstance(f, type):
        return "class:%s.%s" % (f.__module__, f.__qualname__)
    if isinstance(f, types.MethodType):
        return "method:%s.%s" % (type(f.__self__).__name__, f.__name__)
    if isinstance(f, types.FunctionType):
        k = "%s.%s" % (f.__module__, f.__qualname__)
        if f.__closure__:
            cells = []
            for name, cell in zip(f.__code__.co_freevars, f.__closure__):
                try:
                    v = cell.cell_contents
                except ValueError:
                    cells.append("%s=<empty>" % name)
                    continue
                if callable(v):
                    cells.append("%s=%s" % (name, impl_key(v, depth + 1)))
                elif isinstance(v, (str, int, bool, type(None))):
                    cells.append("%s=%r" % (name, v))
                else:
                    cells.append("%s=<%s>" % (name, type(v).__name__))
            k += "[" + ",".join(cells) + "]"
        if f.__name__ == "<lambda>":
            try:
                src = inspect.getsource(f).strip()
            except Exception:
                src = "?"
            k += "{%s}" % " ".join(src.split())[:160]
        return k
    return "obj:%s" % type(f).__name__


def num_json(x):
    if isinstance(x, bool):
        return {"k": "bool", "v": bool(x)}
    if isinstance(x, int):
        return {"k": "int", "n": str(x), "d": "1"}
    if isinstance(x, Fraction):
        return {"k": "frac", "n": str(x.numerator), "d": str(x.denominator)}
    if isinstance(x, float):
        n, d = x.as_integer_ratio() if math.isfinite(x) else (0, 1)
        return {"k": "float", "n": str(n), "d": str(d), "hex": x.hex()}
    return {"k": type(x).__name__}


def make_reps():
    """one representative value per runtime class the evaluator can produce"""
    import ka.types as T
    import ka.units as U
    import ka.probability as P
    import ka.plot as PL
    from datetime import datetime
    zero = U.QSPACE.get_zero()
    reps = [
        ("int", 1), ("bool", True), ("float", 1.5), ("Fraction", Fraction(1, 2)),
        ("Combinatoric", T.Combinatoric(ns=[T.IntRange(2, 3)])),
        ("Quantity", T.Quantity(1, zero)), ("Array", T.Array([1])), ("Interval", T.Interval(0, 1)),
        ("Instant", T.Instant(datetime(2024, 1, 1))), ("str", "s"),
        ("Binomial", P.Binomial(3, Fraction(1, 2))), ("Poisson", P.Poisson(2)),
        ("Geometric", P.Geometric(Fraction(1, 2))), ("Bernoulli", P.Bernoulli(Fraction(1, 2))),
        ("UniformInt", P.UniformInt(1, 3)), ("Exponential", P.Exponential(1)),
        ("Uniform", P.Uniform(0, 1)), ("Gaussian", P.Gaussian(0, 1)),
        ("Event", P.Event("<", P.Uniform(0, 1), 1)),
        ("DoubleEvent", P.DoubleEvent("<", "<", 0, P.Uniform(0, 1), 1)),
        ("PlotDrawing", PL.PlotDrawing(lambda: None, {})), ("NoneType", None),
    ]
    try:
        reps.append(("PlotOptions", PL.options()))
    except Exception:
        pass
    return reps


def main():
    import ka.functions as F
    import ka.types as T
    import ka.units as U
    import ka.tokens as K
    import ka.eval as E
    import ka.probability as P
    import ka.plot as PL
    import ka.config as CFG
    import ka.currency as CUR
    import ka.interpret as I
    from datetime import datetime
    out = {}

    # ---- function registry and class lattice
    def tname(t):
        return T.get_type_as_string(t)
    sig_types = []
    def note(t):
        if t is not None and all(t is not u for u in sig_types):
            sig_types.append(t)
    reg = []
    for name, headers in F.FUNCTIONS.items():
        hs = []
        for h in headers:
            for t in h.sig.args:
                note(t)
            note(h.sig.vararg)
            for t in h.sig.kw_args.values():
                note(t)
            hs.append(dict(impl=impl_key(h.f), args=[tname(t) for t in h.sig.args],
                           vararg=tname(h.sig.vararg) if h.sig.vararg is not None else None,
                           kws=[[k, tname(t)] for k, t in h.sig.kw_args.items()]))
        reg.append(dict(name=name, sigs=hs))
    out["registry"] = reg
    names = [tname(t) for t in sig_types]
    assert len(set(names)) == len(names), names
    out["sig_types"] = names
    out["subclass"] = [[1 if F.type_below(a, b) else 0 for b in sig_types] for a in sig_types]
    reps = make_reps()
    out["kinds"] = [k for k, _ in reps]
    out["isinstance"] = [[1 if T.is_type(v, t) else 0 for t in sig_types] for _, v in reps]

    # ---- tokens
    out["const_tokens"] = list(K.CONST_TOKENS)
    out["alpha_tokens"] = sorted(K.ALPHA_TOKENS)
    out["var_regex"] = K.VAR_REGEX.pattern
    out["based_int_regex"] = K.BASED_INT_REGEX.pattern
    out["num_regex"] = K.NUM_REGEX.pattern
    out["num_regex_flags"] = int(K.NUM_REGEX.flags)
    out["token_tags"] = {k: v for k, v in vars(K.Tokens).items() if not k.startswith("_")}

    # ---- units
    out["base_units"] = list(U.QSPACE.base_units)
    out["base_currency"] = U.BASE_CURRENCY
    out["prefixes"] = [dict(name=p.name_prefix, symbol=p.symbol_prefix, mult=num_json(p.multiplier),
                            exp=p.exponent, base=p.base) for p in U.PREFIXES]
    idx = {id(u): i for i, u in enumerate(U.UNITS)}
    out["units"] = [dict(symbol=u.symbol, singular=u.singular_name, plural=u.plural_name,
                         quantities=list(u.quantities), dim=list(u.quantity_vector.v.xs),
                         mult=num_json(u.multiple), offset=num_json(u.offset)) for u in U.UNITS]
    out["name_to_unit"] = [[k, idx[id(v)]] for k, v in U.NAME_TO_UNIT.items()]
    out["symbol_to_unit"] = [[k, idx[id(v)]] for k, v in U.SYMBOL_TO_UNIT.items()]

    # ---- constants
    out["constants"] = [[k, num_json(v)] for k, v in E.CONSTANTS.items()]

    # ---- currency
    out["currency_data"] = [[c.symbol, c.name, num_json(c.dollar_rate)] for c in U.CURRENCY_DATA]
    out["special_currency_symbols"] = dict(U.SPECIAL_CURRENCY_SYMBOLS)
    out["special_names"] = dict(U.SPECIAL_NAMES)
    out["default_base_currency"] = U.DEFAULT_BASE_CURRENCY

    # ---- config
    props = []
    po = CFG.ConfigProperties()
    for x in dir(po):
        if not x.startswith("_"):
            p = getattr(po, x)
            props.append(dict(attr=x, name=p.name, default=str(p.default), num=bool(p.num), boolean=bool(p.boolean)))
    out["config_props"] = props

    # ---- interpreter: except lists by AST, command table live
    def class_names(expr, module):
        """the classes an except clause names: the expression is evaluated in the live module's namespace (so a
        module constant holding a tuple of classes, or a dotted name, resolves to the classes themselves);
        anything that does not evaluate to classes is kept as its source text (the Coq side will not know it)"""
        try:
            v = eval(compile(ast.Expression(expr), "<except>", "eval"), dict(vars(module)))
        except Exception:
            v = None
        vs = list(v) if isinstance(v, tuple) else [v]
        if vs and all(isinstance(c, type) and issubclass(c, BaseException) for c in vs):
            return [c.__name__ for c in vs]
        return [ast.unparse(e) for e in expr.elts] if isinstance(expr, ast.Tuple) else [ast.unparse(expr)]

    def except_lists(path, funcs):
        import importlib
        module = importlib.import_module("ka." + os.path.basename(path)[:-3])
        tree = ast.parse(open(path).read())
        res = {}
        defs = {n.name: n for n in tree.body if isinstance(n, ast.FunctionDef)}

        def reach(name, seen):
            """the function and the same-module helpers it calls by name (a try statement moved into an extracted
            helper still guards the same operation)"""
            if name in seen or name not in defs:
                return
            seen.append(name)
            for c in ast.walk(defs[name]):
                if isinstance(c, ast.Call) and isinstance(c.func, ast.Name) and c.func.id not in funcs:
                    reach(c.func.id, seen)
        for node in tree.body:
            if isinstance(node, ast.FunctionDef) and node.name in funcs:
                tries = []
                group = []
                reach(node.name, group)
                for t in [n for g in group for n in ast.walk(defs[g]) if isinstance(n, ast.Try)]:
                    hs = []
                    for h in t.handlers:
                        if h.type is None:
                            names_ = ["<bare>"]
                        else:
                            names_ = class_names(h.type, module)
                        rets = [ast.unparse(n.value) if n.value is not None else "None" for n in ast.walk(h) if isinstance(n, ast.Return)]
                        raises = [ast.unparse(n.exc) if n.exc is not None else "<reraise>" for n in ast.walk(h) if isinstance(n, ast.Raise)]
                        hs.append(dict(classes=names_, returns=rets, raises=raises, line=h.lineno))
                    tries.append(dict(line=t.lineno, handlers=hs))
                tries.sort(key=lambda d: d["line"])
                res[node.name] = tries
        return res
    base = os.path.dirname(I.__file__)
    out["except_lists"] = {
        "interpret": except_lists(os.path.join(base, "interpret.py"), ["execute", "load_history", "save_history", "execute_plot", "print_unit_info", "execute_interpreter_command", "run_interpreter", "readline_load_history"]),
        "eval": except_lists(os.path.join(base, "eval.py"), ["eval_parse_tree", "compose_units"]),
        "currency": except_lists(os.path.join(base, "currency.py"), ["load_currency_data"]),
        "types": except_lists(os.path.join(base, "types.py"), ["instant_from_iso"]),
        "tokens": except_lists(os.path.join(base, "tokens.py"), ["read_num_token"]),
        "config": except_lists(os.path.join(base, "config.py"), ["read_config", "read_config_file"]),
    }
    out["commands"] = [dict(names=list(n) if isinstance(n, tuple) else [n], nargs=c.nargs, impl=impl_key(c.f))
                       for n, c in I.INTERPRETER_COMMANDS]
    out["error_context_size"] = I.ERROR_CONTEXT_SIZE
    out["indent"] = I.INDENT
    json.dump(out, sys.stdout)


if __name__ == "__main__":
    main()
