"""C05 — lazy combinatorics never changes a value.
Theorems: coq/Properties/C05.v (lazy evaluation = eager evaluation for every tree, by induction;
range subtraction, the cancellation loop with termination, resolve()).
Tie: trees through execute() vs the Gallina ceval_top in the Coq VM vs an independent eager oracle."""
import random, math
from fractions import Fraction
import common as C

ID = "C05"
COQ_TARGETS = ["Properties/C05.vo", "GenFacts/ResolutionFacts.vo", "GenFacts/CombSrcFacts.vo"]
EXTRA_OBLIGATIONS = ["resolution_facts_true"]
MODEL_TARGETS = ["Model/Comb.vo"]
IMPORTS = "From Ka Require Import Model.Num Model.Comb.\nOpen Scope string_scope.\n"

CMP = {"CLt": "<", "CLe": "<=", "CEq": "==", "CNe": "!=", "CGt": ">", "CGe": ">="}
UN = {"UNeg": "-", "UPos": "+", "UAbs": "abs", "UFloor": "floor", "UCeil": "ceil", "URound": "round", "UInt": "int"}


def ka_text(t):
    k = t[0]
    if k == "fact":
        return "%d!" % t[1] if t[1] >= 0 else "(0-%d)!" % -t[1]
    if k == "choose":
        return "C(%d, %d)" % (t[1], t[2])
    if k == "int":
        return str(t[1]) if t[1] >= 0 else "(-%d)" % -t[1]
    if k in ("mul", "div", "add", "sub"):
        return "(%s %s %s)" % (ka_text(t[1]), {"mul": "*", "div": "/", "add": "+", "sub": "-"}[k], ka_text(t[2]))
    if k == "cmp":
        return "(%s %s %s)" % (ka_text(t[2]), CMP[t[1]], ka_text(t[3]))
    op = t[1]
    if op in ("UNeg", "UPos"):
        return "(%s(%s))" % (UN[op], ka_text(t[2]))
    return "%s(%s)" % (UN[op], ka_text(t[2]))


def coq_term(t):
    k = t[0]
    if k == "fact":
        return "CFact %s" % C.coq_Z(t[1])
    if k == "choose":
        return "CChoose %s %s" % (C.coq_Z(t[1]), C.coq_Z(t[2]))
    if k == "int":
        return "CInt %s" % C.coq_Z(t[1])
    if k in ("mul", "div", "add", "sub"):
        return "C%s (%s) (%s)" % (k.capitalize(), coq_term(t[1]), coq_term(t[2]))
    if k == "cmp":
        return "CCmp %s (%s) (%s)" % (t[1], coq_term(t[2]), coq_term(t[3]))
    return "CUn %s (%s)" % (t[1], coq_term(t[2]))


def eager(t):
    """independent oracle: Fraction | 'DivZero'"""
    k = t[0]
    if k == "fact":
        return Fraction(math.factorial(t[1]) if t[1] >= 2 else 1)
    if k == "choose":
        n, kk = t[1], t[2]
        return Fraction(0 if (kk > n or n < 0 or kk < 0) else math.comb(n, kk))
    if k == "int":
        return Fraction(t[1])
    if k in ("mul", "div", "add", "sub"):
        a = eager(t[1])
        if a == "DivZero": return a
        b = eager(t[2])
        if b == "DivZero": return b
        if k == "mul": return a * b
        if k == "add": return a + b
        if k == "sub": return a - b
        return "DivZero" if b == 0 else a / b
    if k == "cmp":
        a = eager(t[2])
        if a == "DivZero": return a
        b = eager(t[3])
        if b == "DivZero": return b
        op = t[1]
        r = {"CLt": a < b, "CLe": a <= b, "CEq": a == b, "CNe": a != b, "CGt": a > b, "CGe": a >= b}[op]
        return Fraction(1 if r else 0)
    a = eager(t[2])
    if a == "DivZero": return a
    op = t[1]
    return {"UNeg": lambda: -a, "UPos": lambda: a, "UAbs": lambda: abs(a), "UFloor": lambda: Fraction(math.floor(a)),
            "UCeil": lambda: Fraction(math.ceil(a)), "URound": lambda: Fraction(round(a)), "UInt": lambda: Fraction(int(a))}[op]()


def enc(sp):
    if sp == "DivZero":
        return "E:ZeroDivisionError"
    return "I:%d" % sp.numerator if sp.denominator == 1 else "F:%d/%d" % (sp.numerator, sp.denominator)


ATOMS = [("fact", 0), ("fact", 1), ("fact", 2), ("fact", 4), ("fact", 7), ("choose", 5, 2), ("choose", 4, 7),
         ("int", -3), ("int", 0), ("int", 2), ("div", ("int", 3), ("int", 4))]


def range_expr(a, b):
    """product a..b as a ratio of factorials: b!/(a-1)!"""
    return ("div", ("fact", b), ("fact", a - 1))


def exhaustive():
    out = []
    for a in range(1, 8):
        for b in range(1, 8):
            for c in range(1, 8):
                for d in range(1, 8):
                    out.append(("div", range_expr(a, b), range_expr(c, d)))
    d1 = []
    for x in ATOMS:
        for y in ATOMS:
            d1.append(("mul", x, y))
            d1.append(("div", x, y))
    return out, ATOMS + d1


def rand_tree(rng, depth):
    if depth == 0 or rng.random() < 0.2:
        r = rng.random()
        if r < 0.45:
            return ("fact", rng.choice([0, 1, 2, 3, 4, 5, 6, 8, 10, 12, 20, 30, rng.randrange(40), -2]))
        if r < 0.7:
            n = rng.randrange(-1, 25)
            return ("choose", n, rng.randrange(-1, max(1, n) + 3))
        if r < 0.9:
            return ("int", rng.choice([-6, -3, -2, -1, 0, 0, 1, 2, 3, 5, 6, 10, 24, 120, rng.randrange(1000)]))
        return ("div", ("int", rng.randrange(-9, 10)), ("int", rng.choice([2, 3, 4, 7, -5])))
    r = rng.random()
    if r < 0.75:
        return (rng.choice(["mul", "div"]), rand_tree(rng, depth - 1), rand_tree(rng, depth - 1))
    if r < 0.85:
        return (rng.choice(["add", "sub"]), rand_tree(rng, depth - 1), rand_tree(rng, depth - 1))
    if r < 0.93:
        return ("cmp", rng.choice(list(CMP)), rand_tree(rng, depth - 1), rand_tree(rng, depth - 1))
    return ("un", rng.choice(list(UN)), rand_tree(rng, depth - 1))


def impl_case(text):
    return C.observe(text)


def impl_ctx(text):
    """a lazy value used in other positions: tagged with a unit, inside an array, under sqrt"""
    return [C.observe("(%s) m" % text), C.observe("{%s}" % text), C.observe("x = %s; x + 0" % text),
            # a value that was already resolved once (used as a plain number) is used lazily again
            C.observe("x = %s; y = x + 1; (x * 2) / 2" % text), C.observe("x = %s; y = x < 1; z = {x}; (6 / x) * x / 6" % text)]


def totuple(x):
    return tuple(totuple(y) if isinstance(y, list) else y for y in x)


def has_lazy(t):
    return t[0] in ("fact", "choose") or any(has_lazy(x) for x in t[1:] if isinstance(x, tuple))


CORPUS = [("div", ("div", ("fact", 10), ("fact", 4)), ("div", ("fact", 7), ("fact", 2))),
          ("div", ("mul", ("int", -3), ("fact", 5)), ("int", -6)),
          ("div", ("mul", ("int", 0), ("fact", 5)), ("mul", ("int", 0), ("fact", 3))),
          ("div", ("fact", 5), ("mul", ("int", 0), ("fact", 3))),
          ("div", ("fact", 5), ("int", 0)),
          ("div", ("int", 0), ("fact", 5)),
          ("div", ("div", ("int", 0), ("fact", 3)), ("div", ("int", 0), ("fact", 3))),
          ("div", ("fact", 5), ("div", ("int", 0), ("fact", 3))),
          ("div", ("int", 1), ("div", ("int", 0), ("fact", 5))),
          ("div", ("div", ("choose", 2, 5), ("fact", 4)), ("div", ("choose", 1, 3), ("choose", 4, 2)))]


def float_pairs():
    """a lazy value next to a float behaves as its eager value does ('(L + 0)' is L resolved): same value, same kind, or the same error"""
    out = []
    for f in ("0.1", "0.5", "2.5", "1.5e-300", "(0-0.1)", "1.5e300"):
        for L in ("5!", "200!", "C(10,3)", "(20!/18!)", "(5!/7!)", "0!"):
            for pat in ("%s * %s", "%s / %s", "%s + %s", "%s - %s", "%s < %s", "%s == %s"):
                out.append((pat % (f, L), pat % (f, "(%s + 0)" % L)))
                out.append((pat % (L, f), pat % ("(%s + 0)" % L, f)))
    # ... and where a whole number is expected (range bounds and steps, counts): the lazy value is accepted or refused
    # exactly as its eager value is
    for L in ("3!", "(5!/7)", "(4!/3!)", "C(5,2)", "(C(5,2)/4)", "(3!/4!)", "0!"):
        for pat in ("1..%s", "%s..20", "range(%s, 9)", "range(1, %s)", "range(1, 30, %s)", "size(1..%s)", "sum(1..%s)"):
            out.append((pat % L, pat % ("(%s + 0)" % L)))
    return out


def run(ctx):
    C.expect_sessions(ctx["report"], ctx["rundir"], "C05",
                      [(["x = 6!", "1/x"], "F:1/720", "the reciprocal of a lazy value that was displayed before"),
                       (["b = C(6,2)", "seen = b == 15", "1/b"], "F:1/15", "the reciprocal of a lazy value that was compared before"),
                       (["x = 6!", "x", "x*x/4!"], "I:21600", "a displayed lazy value times itself, divided"),
                       (["x = 6!; x*x/4!"], "I:21600", "a lazy variable times itself, divided"), (["b = C(6,2); b*b"], "I:225", "a lazy variable times itself"),
                       (["{x*x/2 : x in {5!}}"], "A:[I:7200]", "a lazy element times itself"), (["5! * -1 * -1 == 5!"], "I:1", "two negative unit factors"),
                       (["(-1*3!)*(-1*4!) == 3!*4!"], "I:1", "negative factors on both operands"), (["C(6,2) in {-1*C(6,4)*-1}"], "I:1", "membership with negative unit factors")])
    C.config_matrix(ctx["report"], ctx["rundir"], "C05", ["5!/3!", "C(10,3) * 7 / 7", "200!/198!", "(5!/7!) * 7!", "3!*3! - 3!", "{{3!}}", "sqrt(4!/6)", "x = 6!; 1/x", "x = 6!; x*x/4!", "b = C(6,2); b*b", "5! * -1 * -1 == 5!"])
    _fp = float_pairs()
    _fo = C.run_impl(impl_case, [a for a, _ in _fp] + [b for _, b in _fp], ctx["rundir"], limit=10.0)
    for (a, b), oa, ob in zip(_fp, _fo[:len(_fp)], _fo[len(_fp):]):
        ga = oa.get("raw") if not oa.get("hung") else "HUNG"
        gb = ob.get("raw") if not ob.get("hung") else "HUNG"
        if ga != gb and (ga or "").startswith("E:") and (gb or "").startswith("E:") and oa.get("status") == ob.get("status") == 1:
            continue        # both refused with a diagnosed error: which signature is named in it may differ
        if ga != gb or oa.get("status") != ob.get("status"):
            ctx["report"].violation(dict(kind="lazy-vs-eager-next-to-a-float", op=(a.split(" ") + ["whole-number position"] * 2)[1]),
                                    "C05 fails on the implementation: %s gives %s but the eager %s gives %s" % (a, ga, b, gb),
                                    dict(text=a, eager_text=b, impl=ga, expected=gb))
    # a lazy value next to a quantity, inside nested arrays, under aggregates, used twice: as its eager value
    C.seam_check(ctx["report"], ctx["rundir"], "C05",
                 texts=["3!", "C(5,2)", "5!/3!", "(10!/4!)/(7!/2!)", "0!", "C(3,5)", "5!/7!", "3!*3! - 3!", "4!/(2!*2!) + 4!/(2!*2!*2!)", "5!/(0*3!)",
                        "8!*8!/8!", "C(4,2)*C(4,2) - C(4,2)", "(5!*5!)/(5!)", "3! + 4! + 3!*4!"],
                 wrappers=C.SEAM_WRAPPERS + [C.SEAM_CONDITION, ("{{%s, 4}, {1}}", lambda v: "A:[A:[%s;I:4];A:[I:1]]" % v),
                                             ("zz = {%s, 5}; {zz, zz}", lambda v: "A:[A:[%s;I:5];A:[%s;I:5]]" % (v, v)),
                                             ("zz = %s; zy = zz*zz; zy - zz*zz + zz", lambda v: v)],
                 templates=[("%s! / 3!", ["3", "4", "5"]), ("C(6, %s)", ["0", "2", "7"]), ("%s! * %s! - %s!".replace("%s", "%s", 1).replace("%s!", "ZZ!", 2).replace("ZZ", "3"), ["3", "4"]),
                            ("{C(zq2, %s) : zq2 in 0..3}", ["0", "1", "2"])],
                 pairs=[("4!/(2 s)", "(4!+0)/(2 s)"), ("4!*(2 s)", "(4!+0)*(2 s)"), ("(48 s)/4!", "(48 s)/(4!+0)"), ("C(4,2)/(4 m^2)", "(C(4,2)+0)/(4 m^2)"),
                        ("(2 s)*4!", "(2 s)*(4!+0)"), ("3!*3! - 3!", "30"), ("a = 5!; b = a*a; b - a", "14280"), ("8!*8! / 8! - 8!", "0"),
                        ("x = 4!; d = 2 s; x/d", "(4!+0)/(2 s)"), ("max({3!, 4!})", "24"), ("sum({3!, 4!, 1/2})", "30 + 1/2"), ("prod({3!, 0, 4!})", "0"),
                        ("{{C(n,k) : k in 0..n} : n in 0..3}", "{{1}, {1, 1}, {1, 2, 1}, {1, 3, 3, 1}}"), ("a = C(10,3); x = 7*a; y = 8*a; x < y", "1"),
                        ("a = C(10,3); x = 7*a; y = 8*a; x > y", "0"), ("a = C(10,3); {7*a == 840, 7*a != 840}", "{1, 0}")])
    rep, tier, seed = ctx["report"], ctx["tier"], ctx["seed"]
    rng = random.Random(seed * 104729 + 5)
    pairs, small = exhaustive()
    trees = list(CORPUS) + pairs + small
    n_exh = len(trees)
    n_rand = 2500 if tier == "quick" else 40000
    if ctx.get("replay"):
        import json
        r = json.load(open(ctx["replay"]))
        trees = [totuple(x["tree"]) for x in [r["replay"]] + r.get("more", []) if "tree" in x]
        n_exh, n_rand = len(trees), 0
    seen = set(ka_text(t) for t in trees)
    tries = 0
    while len(trees) < n_exh + n_rand and tries < n_rand * 5:
        tries += 1
        t = rand_tree(rng, rng.choice([2, 3, 4, 5, 6]))
        s = ka_text(t)
        if s in seen or len(s) > 400:
            continue
        sp = eager(t)
        if isinstance(sp, Fraction) and (sp.numerator.bit_length() > 600 or sp.denominator.bit_length() > 600):
            continue
        seen.add(s)
        trees.append(t)
    texts = [ka_text(t) for t in trees]
    obs = C.run_impl(impl_case, texts, ctx["rundir"], limit=10.0)
    ctx_sample = [i for i in range(len(trees)) if i < len(CORPUS) or i % 7 == 0]
    ctx_obs = C.run_impl(impl_ctx, [texts[i] for i in ctx_sample], ctx["rundir"], limit=10.0)
    model = None
    if ctx["model_ok"]:
        model = C.run_model(ctx["rundir"], "c05", IMPORTS, "fun e => show_res show_num (ceval_top e)",
                            ["(%s)" % coq_term(t) for t in trees], shard=300)
    nontrivial = set()
    samples = []
    hist = {}
    disagreements = 0
    for i, (t, s, o) in enumerate(zip(trees, texts, obs)):
        sp = eager(t)
        exp = enc(sp)
        hist[exp[:1] + (":lazy" if has_lazy(t) else ":plain")] = hist.get(exp[:1] + (":lazy" if has_lazy(t) else ":plain"), 0) + 1
        if has_lazy(t) and t[0] not in ("fact", "choose"):
            nontrivial.add(s)
        m = model[i] if model else None
        if len(samples) < 6 and i % 811 == 3:
            samples.append(dict(input=s, impl=o.get("raw"), model=m, eager=exp))
        got = "HUNG" if o.get("hung") else o.get("raw")
        if got == "E:ZeroDivisionError" and o.get("status") != 1:
            got = "E:ZeroDivisionError escaped (status %r, escaped %r)" % (o.get("status"), o.get("escaped"))
        elif got and not got.startswith("E:") and o.get("value") != got:
            got = "%s but execute() delivered %r (escaped %r)" % (got, o.get("value"), o.get("escaped"))
        if m is not None and m != exp:
            rep.violation(dict(kind="model-vs-spec"), "Gallina ceval_top disagrees with the eager oracle on %s: %s vs %s" % (s, m, exp),
                          dict(tree=t, text=s, model=m, oracle=exp), found_input=False)
        if got != exp:
            disagreements += 1
            rep.violation(dict(kind="wrong-value", top=t[0], exp_kind=exp[:2], got_kind=(got or "")[:2]),
                          "C05 fails on the implementation: %s gives %s, eager arithmetic gives %s" % (s, got, exp),
                          dict(tree=t, text=s, impl=got, expected=exp, spec="ceval_eager (Coq) / math.factorial+Fraction oracle"))
    for i, os_ in zip(ctx_sample, ctx_obs):
        t, s = trees[i], texts[i]
        sp = eager(t)
        exp = enc(sp)
        names = ["tagged with a unit", "inside an array", "assigned then used", "resolved, then multiplied", "resolved, then divided by"]
        for o, nm in zip(os_, names):
            ok, why = C.well_formed_outcome(o)
            if not ok:
                rep.violation(dict(kind="lazy-position-crash", position=nm), "lazy value %s: %s: %s" % (nm, o.get("text"), why),
                              dict(text=o.get("text"), outcome=why))
                continue
            if sp == "DivZero":
                if o["status"] != 1:
                    rep.violation(dict(kind="lazy-position-value", position=nm), "%s should be a division-by-zero error" % o.get("text"),
                                  dict(text=o.get("text"), impl=o.get("value")))
                continue
            if nm == "resolved, then divided by" and sp == 0:
                continue          # 6 / 0: a division by zero is the right answer there
            if o["status"] != 0:
                rep.violation(dict(kind="lazy-position-value", position=nm), "%s failed: %s" % (o.get("text"), o.get("err", "")[:80]),
                              dict(text=o.get("text"), err=o.get("err")))
                continue
            v = o["value"]
            if nm == "resolved, then divided by":
                if sp == 0:
                    continue
                exp_here = "I:1"
            else:
                exp_here = exp
            want = {"tagged with a unit": "Q:%s|" % exp, "inside an array": "A:[%s]" % exp}.get(nm, exp_here)
            if not v.startswith(want):
                rep.violation(dict(kind="lazy-position-value", position=nm), "%s delivers %s, expected %s…" % (o.get("text"), v, want),
                              dict(text=o.get("text"), impl=v, expected=want))
            # displayed text must not leak the internal representation
            if "Combinatoric" in o["out"]:
                rep.violation(dict(kind="lazy-display", position=nm), "%s displays the internal form: %s" % (o.get("text"), o["out"].strip()),
                              dict(text=o.get("text"), out=o["out"]))
    rep.coverage.update(dict(
        evaluations=len(trees) + 5 * len(ctx_sample), distinct_nontrivial=len(nontrivial),
        rule="exhaustive: every pair of integer ranges with endpoints 1..7 written as (b!/(a-1)!)/(d!/(c-1)!) (2401, all overlap cases of IntRange.difference) and all * and / of 11 atoms (0!,1!,2!,4!,7!,C(5,2),C(4,7),-3,0,2,3/4); plus %d seeded random trees (depth<=6, zero/negative factors, + - comparisons and numeric functions at the boundary); each 7th also tagged with a unit, inside an array and through a variable; non-trivial = contains a lazy value under at least one operator; distinct by text" % (len(trees) - n_exh),
        exhaustive=False, samples=samples, outcome_histogram=hist, traces_validated_against_impl=len(trees),
        disagreements=disagreements, kernel_lane_cases=len(model) if model else 0))
    rep.assumptions += ["positions that require an Integral (e.g. (3!)!) reject lazy values with a diagnosed error: outside C05's equality",
                        "CPython int/Fraction arithmetic is external (tied by correspondence)"]
