"""C13 — unit names resolve uniquely, prefixes scale exactly, sizes match definitions.
Theorems: coq/Properties/C13.v over the regenerated registry (Gen/GenUnits.v) and the hand-written
reference table (Proofs/UnitSpec.v).
Tie: live ka.units.lookup_unit on every unit x spelling x {no prefix, every prefix} (exhaustive) plus case
variants and mutated spellings, against the Gallina lookup_unit evaluated in the Coq VM; `1 <spelling> to
<base units>` through execute() for every unprefixed spelling and a seeded sample (thorough: all) of the
prefixed ones against the model's multiple; the checkers behind the computed theorems evaluated item by item
(so a changed unit is named and turned into a Ka conversion that shows the failure); the property's own
relations on the live objects, for the built-in currency table and (thorough) generated ones."""
import json, os, random, re, time
from fractions import Fraction
import common as C

ID = "C13"
COQ_TARGETS = ["Properties/C13.vo", "GenFacts/UnitsLookupSrcFacts.vo"]
MODEL_TARGETS = ["Model/Units.vo", "Proofs/UnitSpec.vo"]
IMPORTS = "From Ka Require Import Model.Units.\nOpen Scope string_scope.\n"
IMPORTS_SPEC = "From Ka Require Import Model.Units Proofs.UnitSpec.\nOpen Scope string_scope.\n"
NOPLURAL = "noplural"
TOL = Fraction(1, 10 ** 12)

# regression corpus (run first): input, expectation
REGRESSION = [("2 pt to qt", ("value", Fraction(1))), ("1 kilodegC", ("diagnosed", None)),
              ("12 inches to ft", ("value", Fraction(1))), ("1 kilometre to m", ("value", Fraction(1000))),
              ("1 KiB to b", ("value", Fraction(8192))), ("1 Metre", ("diagnosed", None))]

DIAG_DEFS = r'''
Definition show_spec (u : gunit) : string :=
  match spec_get (u_symbol u) unit_spec with
  | Some e => String.concat "," (map show_Z (se_dim e)) ++ ";" ++ show_Q (Qred (se_size e)) ++ ";" ++ show_Q (Qred (se_offset e))
  | None => "nospec"
  end.
Definition bad_spellings (iu : nat * gunit) : string :=
  String.concat "," (flat_map (fun ksp => if resolves_plain live (fst iu) (snd iu) (fst (snd ksp)) && in_own_dict live (fst iu) (snd ksp)
                                          then [] else [show_nat (fst ksp)]) (index_from 0 (spellings (snd iu)))).
Definition diag_unit (i : nat) : string :=
  match nth_error units i with
  | None => "?"
  | Some u =>
      show_bool (unit_three_spellings live (i, u)) ++ show_bool (unit_offset_refused live (i, u))
      ++ show_bool (unit_dim_ok unit_spec u) ++ show_bool (unit_size_ok unit_spec u)
      ++ show_bool (unit_offset_ok unit_spec u) ++ show_bool (unit_case_ok live u)
      ++ ";" ++ show_spec u ++ ";" ++ bad_spellings (i, u)
  end.
Definition all_ratios := (map (fun r => (0%nat, r)) definitional_ratios ++ map (fun r => (1%nat, r)) rounded_ratios)%list.
Definition diag_ratio (k : nat) : string :=
  match nth_error all_ratios k with
  | None => "?"
  | Some (kind, r) =>
      show_nat kind ++ ";" ++ show_bool (if Nat.eqb kind 0 then ratio_holds live tol12 r else ratio_within live (2 # 100) r)
      ++ show_bool (ratio_dims_ok live r) ++ ";" ++ rt_a r ++ ";" ++ rt_b r ++ ";" ++ show_Z (rt_pow r) ++ ";" ++ show_Q (Qred (rt_factor r))
  end.
Definition diag_prefix (k : nat) : string :=
  match nth_error prefixes k with None => "?" | Some p => show_bool (prefix_ok p) end.
Definition diag_variant (k : nat) : string :=
  match nth_error case_variants k with
  | None => "?"
  | Some c => show_bool (distinct_reading live c) ++ ";" ++ fst c ++ ";" ++ snd c
  end.
Definition diag_global (k : nat) : string :=
  show_bool (registry_wf live) ++ show_bool base_units_ok ++ show_bool (has_offset_unit live)
  ++ ";" ++ show_nat (List.length all_ratios) ++ ";" ++ show_nat (List.length case_variants).
'''


# ------------------------------------------------------------------ the registry as dumped, and the
# property's definitions in Python (independent oracle; also used when the model does not build)
def qv(j):
    return Fraction(int(j["n"]), int(j["d"]))


class Reg:
    def __init__(self, d):
        self.prefixes = d["prefixes"]
        self.units = d["units"]
        self.names = {k: v for k, v in d["name_to_unit"]}
        self.symbols = {k: v for k, v in d["symbol_to_unit"]}
        self.base_units = d["base_units"]
        self.var_regex = d.get("var_regex", r"[a-zA-Z][_a-zA-Z0-9]*")

    def spellings(self, u):
        out = [(u["symbol"], True), (u["singular"], False)]
        if u["plural"] != NOPLURAL:
            out.append((u["plural"], False))
        return out

    def plain(self, i):
        u = self.units[i]
        return ("U", i, None, qv(u["mult"]), u["mult"]["k"] != "float")

    def apply(self, pi, i):
        u, p = self.units[i], self.prefixes[pi]
        if qv(u["offset"]) != 0:
            return ("P",)
        return ("U", i, pi, qv(p["mult"]) * qv(u["mult"]), p["mult"]["k"] != "float" and u["mult"]["k"] != "float")

    def splits(self, pi, w):
        p = self.prefixes[pi]
        out = [None, None]
        if w.startswith(p["name"]) and w[len(p["name"]):] in self.names:
            out[0] = self.names[w[len(p["name"]):]]
        if w.startswith(p["symbol"]) and w[len(p["symbol"]):] in self.symbols:
            out[1] = self.symbols[w[len(p["symbol"]):]]
        return out

    def lookup(self, w):
        """the specification of lookup_unit: names, then symbols, then prefixes in table order"""
        if w in self.names:
            return self.plain(self.names[w])
        if w in self.symbols:
            return self.plain(self.symbols[w])
        for pi in range(len(self.prefixes)):
            a, b = self.splits(pi, w)
            if a is not None:
                return self.apply(pi, a)
            if b is not None:
                return self.apply(pi, b)
        return ("N",)

    def registered(self, w):
        return w in self.names or w in self.symbols

    def no_other_reading(self, by_symbol, pi, i, w):
        want = self.apply(pi, i)
        if self.registered(w):
            return False
        for qi in range(pi):
            for j in self.splits(qi, w):
                if j is not None and not same_reading(self.apply(qi, j), want):
                    return False
        if by_symbol:
            j = self.splits(pi, w)[0]
            if j is not None and not same_reading(self.apply(pi, j), want):
                return False
        return True

    def property_expectation(self, w):
        """What C13 itself demands of lookup_unit(w): ('U', i, mult, exact) / ('P',) / None (silent)."""
        if w in self.names:
            return self.plain(self.names[w])
        if w in self.symbols:
            return self.plain(self.symbols[w])
        has_split = False
        for pi, p in enumerate(self.prefixes):
            for by_symbol, txt, table in ((False, p["name"], self.names), (True, p["symbol"], self.symbols)):
                if w.startswith(txt) and w[len(txt):] in table:
                    has_split = True
                    i = table[w[len(txt):]]
                    if self.no_other_reading(by_symbol, pi, i, w):
                        return self.apply(pi, i)
        # "Unit names are case-sensitive": a word that has no reading of its own but equals a registered
        # spelling up to letter case must NOT resolve
        if not hasattr(self, "_lower"):
            self._lower = set(k.lower() for k in list(self.names) + list(self.symbols))
        if w.lower() in self._lower and not has_split:
            return ("N",)
        return None

    def base_text(self, dim):
        """spelling of the base-unit signature of a dimension vector, None for dimension zero"""
        pos = [(n, e) for n, e in zip(self.base_units, dim) if e > 0]
        neg = [(n, -e) for n, e in zip(self.base_units, dim) if e < 0]
        f = lambda n, e: n if e == 1 else "%s^%d" % (n, e)
        if pos and neg:
            return " ".join(f(n, e) for n, e in pos) + " | " + " ".join(f(n, e) for n, e in neg)
        if pos:
            return " ".join(f(n, e) for n, e in pos)
        if neg:
            return " ".join("%s^-%d" % (n, e) for n, e in neg)
        return None

    def pure_number_unit(self):
        """a dimensionless unit of size exactly 1 to convert dimensionless units to (rad)"""
        for u in self.units:
            if not any(u["dim"]) and u["mult"]["k"] != "float" and qv(u["mult"]) == 1 and qv(u["offset"]) == 0:
                return u["symbol"]
        return None

    def target_text(self, i):
        b = self.base_text(self.units[i]["dim"])
        return b if b is not None else self.pure_number_unit()


def same_reading(a, b):
    if a[0] != b[0]:
        return False
    if a[0] != "U":
        return True
    return a[1] == b[1] and a[3] == b[3] and a[4] == b[4]


def parse_model(s):
    if s in ("N", "P", "M"):
        return (s,)
    t = s.split(":")
    n, dd = t[3].split("/")
    return ("U", int(t[1]), None if t[2] == "-" else int(t[2]), Fraction(int(n), int(dd)), t[4] == "1")


def parse_impl(s):
    if s in ("N", "P"):
        return (s,)
    if s.startswith("E:") or s.startswith("U:?"):
        return ("X", s)
    t = s.split(":")
    n, dd = t[3].split("/")
    return ("U", int(t[1]), None if t[2] == "-" else -1, Fraction(int(n), int(dd)), t[4] == "1")


def agree(impl, want):
    """implementation result against a model/specification result"""
    if impl[0] != want[0]:
        return False
    if want[0] != "U":
        return True
    if impl[1] != want[1] or impl[4] != want[4] or (impl[2] is None) != (want[2] is None):
        return False
    if want[4] or want[2] is None:
        return impl[3] == want[3]          # exact kinds, and unscaled floats (the same float object)
    return abs(impl[3] - want[3]) <= TOL * abs(want[3])


def res_class(r):
    if r is None:
        return "silent"
    if r[0] == "U":
        return ("plain" if r[2] is None else "prefixed") + ("" if r[4] else "-float")
    return {"N": "none", "P": "refused", "M": "malformed", "X": "error"}.get(r[0], r[0])


def differs(a, b):
    if a is None or b is None or a[0] != "U" or b[0] != "U":
        return "outcome"
    if a[1] != b[1]:
        return "unit"
    if (a[2] is None) != (b[2] is None):
        return "scaled-or-not"
    if a[4] != b[4]:
        return "exactness"
    return "multiple"


def show_res(r):
    if r is None:
        return "(property silent)"
    if r[0] == "U":
        return "unit #%d x %s%s%s" % (r[1], r[3] if r[3].denominator < 10 ** 9 else float(r[3]),
                                      "" if r[4] else " (float)", "" if r[2] is None else " [prefixed]")
    return {"N": "None (unknown unit)", "P": "InvalidPrefixError", "M": "malformed registry"}.get(r[0], repr(r))


def value_of(enc):
    if enc is None:
        return None
    if enc.startswith("I:"):
        return Fraction(int(enc[2:])), True
    if enc.startswith("F:"):
        n, dd = enc[2:].split("/")
        return Fraction(int(n), int(dd)), True
    if enc.startswith("X:"):
        try:
            return Fraction(float.fromhex(enc[2:])), False
        except (ValueError, OverflowError):
            return None
    return None


# ------------------------------------------------------------------ worker side
def impl_lookup_chunk(words):
    import ka.units as U
    by_id = {id(u): i for i, u in enumerate(U.UNITS)}
    by_sym = {u.symbol: i for i, u in enumerate(U.UNITS)}
    out = []
    for w in words:
        try:
            u = U.lookup_unit(w)
        except U.InvalidPrefixError:
            out.append("P")
            continue
        except Exception as x:
            out.append("E:" + type(x).__name__)
            continue
        if u is None:
            out.append("N")
            continue
        i = by_id.get(id(u))
        reg = i is not None
        if i is None:
            i = by_sym.get(u.symbol)
            if i is None or U.UNITS[i].singular_name != u.singular_name or U.UNITS[i].quantity_vector != u.quantity_vector:
                out.append("U:?")
                continue
        m = u.multiple
        exact = isinstance(m, (int, Fraction)) and not isinstance(m, bool)
        try:
            fr = Fraction(m)
        except Exception:
            out.append("U:?nonfinite")
            continue
        out.append("U:%d:%s:%d/%d:%d" % (i, "-" if reg else "+", fr.numerator, fr.denominator, 1 if exact else 0))
    return out


def impl_text(text):
    return C.observe(text)


def impl_property(arg):
    """The property's relations on the live objects of whatever registry this worker loaded
    (built-in or generated currency table), with the definitions re-stated on the live dicts."""
    import io
    import ka.units as U
    from ka.interpret import execute
    from ka.eval import EvalEnvironment
    bad = []
    n = dict(units=len(U.UNITS), plain=0, prefixed=0, no_other=0, refused=0, cash=0)
    names, symbols = U.NAME_TO_UNIT, U.SYMBOL_TO_UNIT

    def spell(u):
        s = [(u.symbol, True), (u.singular_name, False)]
        if u.plural_name != U.Unit.NO_PLURAL:
            s.append((u.plural_name, False))
        return s

    def splits(p, w):
        a = names.get(w[len(p.name_prefix):]) if w.startswith(p.name_prefix) else None
        b = symbols.get(w[len(p.symbol_prefix):]) if w.startswith(p.symbol_prefix) else None
        return a, b

    def means(p, u):
        return ("P",) if u.offset != 0 else (id(u), p.multiplier * u.multiple)

    for p in U.PREFIXES:
        if not isinstance(p.multiplier, (int, Fraction)) or Fraction(p.multiplier) != Fraction(p.base) ** p.exponent \
                or p.base not in (10, 2):
            bad.append(dict(op="prefix-multiplier", name=p.name_prefix, got=str(p.multiplier)))
    for u in U.UNITS:
        n["cash"] += "cash" in u.quantities
        for w, is_sym in spell(u):
            n["plain"] += 1
            try:
                r = U.lookup_unit(w)
            except Exception as x:
                r = x
            if r is not u:
                bad.append(dict(op="spelling-not-this-unit", unit=u.symbol, name=w,
                                got=getattr(r, "symbol", repr(r))))
            for pi, p in enumerate(U.PREFIXES):
                word = (p.symbol_prefix if is_sym else p.name_prefix) + w
                n["prefixed"] += 1
                want = means(p, u)
                other = word in names or word in symbols
                if not other:
                    for q in U.PREFIXES[:pi]:
                        for v in splits(q, word):
                            if v is not None and means(q, v) != want:
                                other = True
                    if is_sym:
                        v = splits(p, word)[0]
                        if v is not None and means(p, v) != want:
                            other = True
                if other:
                    continue
                n["no_other"] += 1
                try:
                    r = U.lookup_unit(word)
                    got = None if r is None else (id(names.get(r.singular_name)), r.multiple)
                except U.InvalidPrefixError:
                    got = ("P",)
                except Exception as x:
                    got = ("E", type(x).__name__)
                if got == ("P",):
                    n["refused"] += 1
                ok = (got == want)
                if not ok and got and want != ("P",) and len(got) == 2 and got[0] == want[0] \
                        and isinstance(got[1], float) and want[1] != 0:
                    ok = abs(Fraction(got[1]) - Fraction(want[1])) <= Fraction(1, 10 ** 12) * abs(Fraction(want[1]))
                if not ok:
                    bad.append(dict(op="prefix-scaling", unit=u.symbol, name=word, prefix=p.name_prefix,
                                    got=repr(got[1:] if got else got), want=repr(want[1:])))
    return dict(bad=bad[:40], nbad=len(bad), counts=n, base_units=list(U.QSPACE.base_units))


# ------------------------------------------------------------------ case generation
def nominal_cases(reg):
    """(prefix index or None, unit index, spelling number, by_symbol, word) — exhaustive"""
    out = []
    for ui, u in enumerate(reg.units):
        for k, (sp, is_sym) in enumerate(reg.spellings(u)):
            out.append((None, ui, k, is_sym, sp))
            for pi, p in enumerate(reg.prefixes):
                out.append((pi, ui, k, is_sym, (p["symbol"] if is_sym else p["name"]) + sp))
    return out


def swapcase_at(s, i):
    return s[:i] + s[i].swapcase() + s[i + 1:]


def variant_words(reg, rng, n_mut):
    ws = ["", "k", "K", "kilo", "m", "M", "KG", "Kg", "kG", "Metre", "METRE", "mm", "Mm", "mM", "MM", "kkm", "kilokilometre",
          "millimin", "hz", "HZ", "USD", "Usd", "EUR", "degc", "DEGC", "kilodegC", "mdegF", "millidegC", "Kin", "Kidr",
          "min", "cd", "pt", "ft", "yd", "dam", "daam", "da", "Ki", "Kib", "KiB", "kib", "metrekilo", "kilo metre",
          "kilometres", "kilometress", "hertzs", "μ", "μm", "microm", "micrometre", "um", "noplural", "kilonoplural"]
    for u in reg.units:
        for sp, _ in reg.spellings(u):
            ws += [sp.upper(), sp.lower(), sp.capitalize(), sp.swapcase()]
    alls = sorted(set(list(reg.names) + list(reg.symbols)))
    pre = [p["name"] for p in reg.prefixes] + [p["symbol"] for p in reg.prefixes]
    for _ in range(n_mut):
        s = rng.choice(alls)
        r = rng.random()
        if r < 0.25 and s:
            s = swapcase_at(s, rng.randrange(len(s)))
        elif r < 0.4 and len(s) > 1:
            i = rng.randrange(len(s))
            s = s[:i] + s[i + 1:]
        elif r < 0.6:
            s = rng.choice(pre) + rng.choice(pre) + s          # two prefixes
        elif r < 0.8:
            s = rng.choice(pre) + s                              # name-prefix on symbol and the like
            if rng.random() < 0.5 and s:
                s = swapcase_at(s, rng.randrange(len(s)))
        else:
            s = s + rng.choice(["s", "es", "S", " ", "_", "2"])
        ws.append(s)
    return ws


def lexable(reg, w):
    try:
        return re.fullmatch(reg.var_regex, w) is not None
    except re.error:
        return True


def first_bad_char(reg, w):
    m = re.match(reg.var_regex, w)
    k = m.end() if m else 0
    return w[k] if k < len(w) else w[-1:]


def unusable_signature(reg, w, prefix_txt=None):
    """root cause of a spelling that lookup_unit knows but Ka source text cannot express"""
    if not lexable(reg, w):
        return dict(op="unit-spelling-unlexable", char=first_bad_char(reg, w))
    if prefix_txt is not None and not lexable(reg, prefix_txt):
        return dict(op="unit-spelling-unlexable", char=first_bad_char(reg, prefix_txt))
    return dict(op="unit-spelling-unusable", name=w)


def gen_currency_table(d, rng, k):
    """a generated currency table: a random part of the shipped one with perturbed rates, plus
    entries whose names/symbols collide with units, prefixed readings and each other"""
    rows = [r for r in d.get("currency_data", []) if isinstance(r, (list, tuple)) and len(r) == 3]
    keep = [r for r in rows if r[0] in ("usd", "eur", "gbp", "jpy") or rng.random() < 0.5]
    out = []
    for sym, name, rate in keep:
        rate = float.fromhex(rate["hex"]) if isinstance(rate, dict) and "hex" in rate else 1.0
        if sym != "usd":
            rate *= rng.uniform(0.5, 2.0)
        out.append((sym, name, rate))
    adversarial = [("km", "kilometre", 3.0), ("min", "minicoin", 7.5), ("mm", "pound", 2.25), ("kg", "kilocoin", 0.125),
                   ("xq%d" % k, "metre", 11.0), ("zz%d" % k, "zedcoin", 1e-3), ("da", "dacoin", 5.0), ("dam", "damcoin", 6.0),
                   ("kilozz%d" % k, "kilozedcoin", 4.0), ("Ki", "kicoin", 9.0), ("mol", "molecoin", 2.0)]
    rng.shuffle(adversarial)
    out += adversarial[: 6 + k]
    rng.shuffle(out)
    return "".join("%s,%s,%r\n" % row for row in out)


def readme_claims(path):
    """the documented unit list `name (symbol)` and prefix list `name (sym[/sym], base^exp)`"""
    units, prefixes = [], []
    try:
        txt = open(path, encoding="utf-8").read()
    except OSError:
        return None, None
    for line in txt.splitlines():
        if line.startswith("* second (s)"):
            units = re.findall(r"([^\s,()*]+) \(([^()]+)\)", line)
        if line.startswith("* yotta (Y"):
            for name, syms, base, exp in re.findall(r"([^\s,()*]+) \(([^(),]+), (\d+)\^(-?\d+)\)", line):
                for sym in syms.split("/"):
                    prefixes.append((name, sym, int(base), int(exp)))
    return units, prefixes


# ------------------------------------------------------------------ the check
def impl_unit_info(word):
    """what the interpreter says about a spelling: `%u <word>` and `ka --unit <word>` share print_unit_info"""
    import io, contextlib
    import ka.interpret as I
    buf = io.StringIO()
    try:
        with contextlib.redirect_stdout(buf):
            I.execute_interpreter_command("%u " + word)
        a = buf.getvalue()
        buf2 = io.StringIO()
        with contextlib.redirect_stdout(buf2):
            I.print_unit_info(word)
        return dict(word=word, cmd=a, direct=buf2.getvalue())
    except C.CaseTimeout:
        raise
    except BaseException as x:
        return dict(word=word, escaped=type(x).__name__)


def impl_unit_names(_):
    """the live registry's spellings per unit (symbol, singular, plural) with the unit's own description"""
    import ka.units as U
    import ka.interpret as I
    return [(u.symbol, u.singular_name, u.plural_name, I.format_unit_info(u)) for u in U.UNITS]


def unit_info_lane(ctx):
    """A spelling that is itself a registered unit always means that unit — also where the interpreter describes it:
    `%u` / `--unit` under the symbol, the singular and the plural name print the description of that very unit
    (seven registered spellings also read as prefix + another unit: min, pt, ft, cd, yd, ...)."""
    rep = ctx["report"]
    names = C.run_impl(impl_unit_names, [0], ctx["rundir"], limit=60.0)[0]
    if not isinstance(names, list):
        return 0
    words, want = [], {}
    for sym, sing, plur, desc in names:
        for w in (sym, sing, plur):
            if w and " " not in w and w not in want and w != NOPLURAL:
                want[w] = desc
                words.append(w)
    n = 0
    for o in C.run_impl(impl_unit_info, words, ctx["rundir"], limit=20.0):
        n += 1
        w = o.get("word")
        if o.get("hung") or w is None:
            continue
        if o.get("escaped"):
            continue            # C06's business
        for how, got in (("%u", o.get("cmd")), ("--unit", o.get("direct"))):
            if (got or "").strip() != want[w].strip():
                rep.violation(dict(kind="unit-info", word=w), "C13 fails: `%s %s` describes %r, but `%s` is the registered unit %r"
                              % (how, w, (got or "").strip().split("\n")[0][:60], w, want[w].split("\n")[0][:60]),
                              dict(text="%s %s" % (how, w), word=w, impl=(got or "")[:300], expected=want[w][:300]))
                break
    return n


def run(ctx):
    unit_info_lane(ctx)
    C.seam_check(ctx["report"], ctx["rundir"], "C13", wrappers=[],
                 pairs=[("ms = 3; 5 ms", "5 ms"), ("kg = 70; 2 kg", "2 kg"), ("{1 km : km in {7, 8}}", "{1 km, 1 km}"), ("m = 3; 2 m", "2 m"), ("min = 3; 2 min", "2 min"),
                        ("(1 km | m) == 1000", "1"), ("(1 mg | kg) * 1000000 == 1", "1"), ("1 km m", "1000 m^2"), ("(1 m^2) to km m", "1/1000"), ("(3 km | m) == 3000", "1"),
                        ("(7 kg m | g s^2) to m | s^2", "7000"), ("(1 KiB | B) == 1024", "1"), ("(1 Mm | km) == 1000", "1"), ("1 km | h to m | h", "1000")])
    C.config_matrix(ctx["report"], ctx["rundir"], "C13", ["1 eur to usd", "1 gbp to eur", "1 keur to eur", "1 meur to eur", "1 kiloeuro to euros", "1 € to eur", "1 km to m", "1 KiB to B", "1 km | m", "1 mg | kg", "1 km m to m^2", "(1 m^2) to km m", "ms = 3; 5 ms to s", "kg = 70; 2 kg to g", "{1 km to m : km in {7, 8}}", "1 kdegC", "1 usd to usd", "100 jpy to usd"])
    C.seam_check(ctx["report"], ctx["rundir"], "C13",
                 texts=["1 kB to b", "1 MB to kB", "180 deg to rad", "3 dozen to dozen", "1 km to m", "1 fm to m", "1 kdegC", "1 Kin to inch", "1 dau to astronomicalunit",
                        "1 eV to J", "1 Da to kg", "1 μm to m", "1 KiB to B"],
                 templates=[("%s kB to B", ["1", "2", "3"]), ("%s km to m", ["1", "2"]), ("%s deg to rad", ["90", "180"])],
                 pairs=[("mean({1 kB, 3 kB}) to B", "2000"), ("(1 MB / 2) to kB", "500"), ("x = 3 dozen; y = x / 2; y to dozen", "3/2"),
                        ("(1 MB / 2 + 1 kB) to kB", "501"), ("sum({1 kB, 1 B}) to B", "1001"), ("(6 dozen) / (2 dozen)", "(72) / (24) + 0 dozen"),
                        ("(1 km / 2) to m", "500"), ("(3 kB * 2) to B", "6000"), ("max({1 kB, 1 KiB}) to B", "1024")])
    rep, tier, seed = ctx["report"], ctx["tier"], ctx["seed"]
    rng = random.Random(seed * 104729 + 13)
    d = json.load(open(C.BUILD + "/dump.json"))
    reg = Reg(d)
    model_ok = ctx["model_ok"]
    replay_words, replay_texts = None, None
    if ctx.get("replay"):
        r = json.load(open(ctx["replay"]))
        items = [r["replay"]] + r.get("more", [])
        replay_words = [x["word"] for x in items if isinstance(x, dict) and x.get("word") is not None]
        replay_texts = [x["text"] for x in items if isinstance(x, dict) and x.get("text")]

    t0 = time.time()
    stage = lambda name: C.log("  [C13] %-28s %.1fs" % (name, time.time() - t0))
    # ---- (A) regression corpus, first
    texts = [t for t, _ in REGRESSION] + (replay_texts or [])
    obs = C.run_impl(impl_text, texts, ctx["rundir"], limit=10.0)
    for (t, (kind, want)), o in zip(REGRESSION, obs):
        wf, why = C.well_formed_outcome(o)
        if kind == "value":
            v = value_of(o.get("value"))
            ok = wf and o.get("status") == 0 and v is not None and abs(v[0] - want) <= TOL * abs(want)
            exp = "the value %s" % want
        else:
            ok = wf and o.get("status") == 1
            exp = "a diagnosed error (status 1, message on the error stream)"
        if not ok:
            rep.violation(dict(op="regression", input=t),
                          "C13 regression input %r: expected %s, got status %r value %r out %r err %r %s"
                          % (t, exp, o.get("status"), o.get("value"), o.get("out"), (o.get("err") or "")[:80], why),
                          dict(text=t, observed=o))
    if replay_texts:
        for t, o in zip(replay_texts, obs[len(REGRESSION):]):
            C.log("replay %r -> status %r value %r out %r err %r escaped %r" % (
                t, o.get("status"), o.get("value"), o.get("out"), (o.get("err") or "")[:120], o.get("escaped")))

    stage("regression corpus")
    # ---- (B) words
    nominal = nominal_cases(reg)
    n_mut = 1500 if tier == "quick" else 12000
    variants = variant_words(reg, rng, n_mut)
    if replay_words is not None:
        nominal = [c for c in nominal if c[4] in set(replay_words)]
        variants = list(replay_words)
    words = []
    seen = set()
    for w in [c[4] for c in nominal] + variants:
        if w not in seen and "\n" not in w and "\r" not in w:
            seen.add(w)
            words.append(w)

    # ---- (C) live lookup_unit and the model's
    chunks = [words[i:i + 400] for i in range(0, len(words), 400)]
    live = {}
    for ch, res in zip(chunks, C.run_impl(impl_lookup_chunk, chunks, ctx["rundir"], limit=60.0, chunksize=1)):
        if isinstance(res, dict) and res.get("hung"):
            res = ["E:hung"] * len(ch)
        for w, r in zip(ch, res):
            live[w] = parse_impl(r)
    model = {}
    if model_ok:
        outs = C.run_model(ctx["rundir"], "c13", IMPORTS, "fun w => show_lookup (lookup_unit w)",
                           [C.coq_str(w) for w in words], shard=400)
        for w, o in zip(words, outs):
            model[w] = parse_model(o)
    stage("lookups: live + model")
    spec = {w: reg.lookup(w) for w in words}
    want_of = model if model_ok else spec

    # ---- (D) compare
    disagreements = 0
    hist = {}
    for w in words:
        if model_ok and not same_reading(model[w], spec[w]):
            rep.violation(dict(kind="model-vs-spec", family="lookup"),
                          "Gallina lookup_unit and the Python statement of the lookup disagree on %r: %s vs %s"
                          % (w, show_res(model[w]), show_res(spec[w])), dict(word=w), found_input=False)
        wnt = want_of[w]
        cls = wnt[0] + ("" if wnt[0] != "U" else ("-plain" if wnt[2] is None else "-prefixed") + ("" if wnt[4] else "-float"))
        hist[cls] = hist.get(cls, 0) + 1
        if agree(live[w], wnt):
            continue
        disagreements += 1
        pe = reg.property_expectation(w)
        prop_fails = pe is not None and not agree(live[w], pe)
        txt = None
        if pe is not None and pe[0] == "U":
            tgt = reg.target_text(pe[1])
            txt = "1 %s to %s" % (w, tgt) if tgt else None
        elif pe is not None:
            txt = "1 %s" % w
        rep.violation(dict(op="lookup", want=res_class(pe if prop_fails else wnt), got=res_class(live[w]),
                           differs=differs(live[w], pe if prop_fails else wnt)),
                      "lookup_unit(%r): implementation gives %s, %s" % (
                          w, show_res(live[w]) if live[w][0] != "X" else live[w][1],
                          ("C13 demands %s" % show_res(pe)) if prop_fails else ("the model gives %s (property %s)" % (show_res(wnt), show_res(pe)))),
                      dict(word=w, text=txt, impl=repr(live[w]), model=repr(wnt), property=repr(pe)),
                      found_input=prop_fails)

    stage("comparison")
    # ---- (E) through execute(): 1 <spelling> to <base units>
    plain_cases = [c for c in nominal if c[0] is None]
    pref_cases = [c for c in nominal if c[0] is not None]
    if tier == "quick" and replay_words is None:
        rng2 = random.Random(seed * 31 + 5)
        pref_cases = rng2.sample(pref_cases, min(3000, len(pref_cases)))
    ex_cases = []
    skipped_dimless = 0
    for c in plain_cases + pref_cases:
        w = c[4]
        wnt = want_of[w]
        if wnt[0] == "U":
            tgt = reg.target_text(wnt[1])
            if tgt is None:
                skipped_dimless += 1
                continue
            off = qv(reg.units[wnt[1]]["offset"]) if wnt[2] is None else Fraction(0)
            oexact = reg.units[wnt[1]]["offset"]["k"] != "float"
            ex_cases.append((c, "1 %s to %s" % (w, tgt), ("value", wnt[3] + off, wnt[4] and oexact)))
        elif wnt[0] == "P":
            ex_cases.append((c, "1 %s" % w, ("diagnosed", None, None)))
        else:
            ex_cases.append((c, "1 %s" % w, ("diagnosed", None, None)))
    eobs = C.run_impl(impl_text, [t for _, t, _ in ex_cases], ctx["rundir"], limit=10.0)
    n_exec_ok = 0
    unusable = {}
    for (c, t, (kind, val, exact)), o in zip(ex_cases, eobs):
        pi, ui, k, is_sym, w = c
        wf, why = C.well_formed_outcome(o)
        if kind == "value":
            v = value_of(o.get("value"))
            ok = wf and o.get("status") == 0 and v is not None and (
                (v[0] == val and v[1]) if exact else (abs(v[0] - val) <= TOL * abs(val)))
        else:
            ok = wf and o.get("status") == 1
        if ok:
            n_exec_ok += 1
            continue
        if kind == "value" and agree(live[w], want_of[w]) and (o.get("status") != 0 or not wf):
            # lookup_unit knows the spelling, the language cannot express it
            ptxt = None if pi is None else (reg.prefixes[pi]["symbol"] if is_sym else reg.prefixes[pi]["name"])
            base = reg.spellings(reg.units[ui])[k][0]
            sig = unusable_signature(reg, base, ptxt)
            if sig["op"] == "unit-spelling-unusable":
                sig["name"] = w
            unusable.setdefault(json.dumps(sig, sort_keys=True, ensure_ascii=False), []).append((w, t, o))
            continue
        sigd = dict(op="conversion", kind=kind, got=("status%r" % o.get("status")) if not o.get("escaped") else o.get("escaped"))
        rep.violation(sigd, "C13 fails on the implementation: %r gives status %r value %r (%s%s), expected %s"
                      % (t, o.get("status"), o.get("value"), (o.get("err") or o.get("out") or "").strip()[:80], why,
                         ("%s%s" % (val if val.denominator < 10 ** 9 else float(val), "" if exact else " within 1e-12")) if kind == "value" else "a diagnosed error"),
                      dict(word=w, text=t, observed=o, expected=str(val)))
    for key, lst in unusable.items():
        sig = json.loads(key)
        w, t, o = lst[0]
        rep.violation(sig, "C13: the spelling %r is known to lookup_unit but cannot be used in Ka source: %r -> %s (%d spelling(s) with this cause, e.g. %s)"
                      % (w, t, (o.get("err") or "").strip().replace("\n", " ")[:90] or ("escaped " + str(o.get("escaped"))),
                         len(lst), ", ".join(repr(x[0]) for x in lst[:6])),
                      dict(word=w, text=t, observed=o, all=[x[0] for x in lst][:50]))

    stage("conversions through execute")
    # ---- (F) the checkers behind the computed theorems, item by item
    failing_items = []
    n_items = 0
    if model_ok:
        failing_items, n_items = diagnose(ctx, rep, reg)

    stage("checker items")
    # ---- (G) the property's relations on the live objects
    gen_runs = []
    if replay_words is None:
        pr = C.run_impl(impl_property, [0], ctx["rundir"], limit=300.0, procs=1)[0]
        gen_runs.append(("built-in", pr))
        if tier != "quick":
            for k in range(3):
                sub = os.path.join(ctx["rundir"], "gen%d" % k)
                cfg = os.path.join(sub, "home", ".config", "ka")
                os.makedirs(cfg, exist_ok=True)
                open(os.path.join(cfg, "currency"), "w", encoding="utf-8").write(gen_currency_table(d, random.Random(seed * 7 + k), k))
                gen_runs.append(("generated-%d" % k, C.run_impl(impl_property, [k], sub, limit=300.0, procs=1)[0]))
        for tag, pr in gen_runs:
            if pr.get("hung"):
                rep.violation(dict(op="property-relations", table=tag, kind="hung"), "the live-object sweep did not finish", dict(table=tag), found_input=False)
                continue
            seen_sig = set()
            for b in pr["bad"]:
                sig = dict(op=b["op"], table=tag)
                if b["op"] == "spelling-not-this-unit":
                    sig["unit"] = b.get("unit")
                key = json.dumps(sig, sort_keys=True)
                if key in seen_sig:
                    continue
                seen_sig.add(key)
                nm = b.get("name")
                rep.violation(sig, "C13 fails on the live registry (%s currency table): %s for %r: got %s%s" % (
                    tag, b["op"], nm, b.get("got"), (", want %s" % b["want"]) if b.get("want") else ""),
                    dict(word=nm, text=("1 %s" % nm) if nm else None, detail=b, table=tag))

    # ---- (H) the documented list (README.md): every `name (symbol)` names one unit, every prefix its power
    doc_units, doc_prefixes = readme_claims(os.path.join(C.REPO, "README.md"))
    doc_checked = 0
    if doc_units is not None:
        if not doc_units or not doc_prefixes:
            rep.notes.append("README.md: documented unit/prefix list not found (format changed); documentation clause not checked")
        for name, sym in doc_units or []:
            doc_checked += 1
            a_, b_ = reg.lookup(name), reg.lookup(sym)
            if a_[0] != "U" or b_[0] != "U" or a_[1] != b_[1] or a_[2] is not None or b_[2] is not None:
                culprit = sym if b_[0] != "U" or b_[2] is not None else name
                rep.violation(dict(op="readme-unit-unresolved", name=culprit),
                              "README.md documents the unit %s (%s), but %r %s (registered symbol of %s: %r)" % (
                                  name, sym, culprit, "is not a unit" if reg.lookup(culprit)[0] != "U" else "is another unit",
                                  name, reg.units[a_[1]]["symbol"] if a_[0] == "U" else None),
                              dict(word=culprit, text="1 %s" % culprit, documented="%s (%s)" % (name, sym)))
        tbl = {(p["name"], p["symbol"]): (p["base"], p["exp"]) for p in reg.prefixes}
        for name, sym, base, exp in doc_prefixes or []:
            doc_checked += 1
            if tbl.get((name, sym)) != (base, exp):
                rep.violation(dict(op="readme-prefix-mismatch", name=name),
                              "README.md documents the prefix %s (%s, %d^%d), the table has %r" % (name, sym, base, exp, tbl.get((name, sym))),
                              dict(word=name + "metre", text="1 %smetre to metre" % name))
        for (name, sym) in tbl:
            if (name, sym) not in {(n, s_) for n, s_, _, _ in doc_prefixes or []} and doc_prefixes:
                rep.violation(dict(op="readme-prefix-undocumented", name=name), "prefix %s (%s) is not in README.md's list" % (name, sym),
                              dict(word=name), found_input=False)
    stage("live-object sweeps, README")
    # ---- coverage
    samples = []
    for c, t, e in ex_cases[:: max(1, len(ex_cases) // 5)][:5]:
        samples.append(dict(input=t, expected=str(e[1]) if e[1] is not None else e[0], impl_lookup=repr(live[c[4]]), model_lookup=repr(want_of[c[4]])))
    shadowed = sum(1 for c in nominal if c[0] is not None and not reg.no_other_reading(c[3], c[0], c[1], c[4])) if replay_words is None else None
    nontrivial = sum(1 for w in words if want_of[w][0] != "N")
    rep.coverage.update(dict(
        evaluations=len(words) + len(ex_cases) + n_items,
        distinct_nontrivial=nontrivial + sum(1 for x in ex_cases if x[2][0] == "value"),
        rule="lookup_unit on every unit x (symbol, singular, plural) x {no prefix, each of %d prefixes by name on names / by symbol on symbols} = %d nominal spellings (exhaustive, distinct words), plus upper/lower/capitalised/swapped-case variants of every spelling and %d seeded mutations; live vs the model in the Coq VM; `1 <spelling> to <base units>` through execute() for all %d unprefixed spellings and %s prefixed ones; non-trivial = the word resolves to a unit or is refused (not None); distinct by word / input text"
             % (len(reg.prefixes), len(nominal), n_mut, len(plain_cases), len(pref_cases)),
        exhaustive=True, samples=samples, outcome_histogram=hist,
        traces_validated_against_impl=len(words) + len(ex_cases), disagreements=disagreements,
        kernel_lane_cases=len(model), executed_conversions=len(ex_cases), executed_ok=n_exec_ok,
        dimensionless_skipped=skipped_dimless,
        combined_spellings_with_other_reading=shadowed,
        unusable_spellings={k: [x[0] for x in v][:12] for k, v in unusable.items()},
        checker_items=n_items, failing_items=failing_items[:20],
        documented_items_checked=doc_checked,
        units=len(reg.units), cash_units=sum(1 for u in reg.units if "cash" in u["quantities"]),
        prefixes=len(reg.prefixes), names=len(reg.names), symbols=len(reg.symbols),
        live_object_sweeps={tag: (pr.get("counts"), pr.get("nbad")) for tag, pr in gen_runs}))
    rep.assumptions += [
        "floats are idealised as their exact rational values; products with a float are compared within relative 1e-12",
        "Python str startswith/slicing acts on code points, the model on UTF-8 bytes (same cut for valid UTF-8)",
        "the reference sizes in Proofs/UnitSpec.v are the physical definitions as understood by the author (imperial capacity measures, metric horsepower, Julian year, IT calorie, CODATA 2018 dalton)",
        "currency part: the table built into /repo (quick) and three generated tables (thorough, live-object sweep only)",
        "dimensionless units are converted to the pure-number unit %r" % reg.pure_number_unit()]
    if not model_ok:
        rep.notes.append("model did not build: lookups compared against the Python statement of the lookup instead")


def diagnose(ctx, rep, reg):
    """Evaluate the GenFacts checkers per item in the Coq VM; every failing item becomes a Ka conversion."""
    nu, npf = len(reg.units), len(reg.prefixes)
    from concurrent.futures import ThreadPoolExecutor
    g = C.run_model(ctx["rundir"], "c13g", IMPORTS_SPEC, "diag_global", ["0%nat"], extra_defs=DIAG_DEFS)[0]
    flags, nr, nv = g.split(";")
    nr, nv = int(nr), int(nv)
    jobs = [("c13u", "diag_unit", nu, max(10, min(100, (nu + C.NCPU - 1) // C.NCPU))), ("c13r", "diag_ratio", nr, 400),
            ("c13p", "diag_prefix", npf, 400), ("c13v", "diag_variant", nv, 400)]
    with ThreadPoolExecutor(4) as ex:
        uo, ro, po, vo = list(ex.map(lambda j: C.run_model(ctx["rundir"], j[0], IMPORTS_SPEC, j[1], ["%d%%nat" % i for i in range(j[2])],
                                                           shard=j[3], extra_defs=DIAG_DEFS), jobs))
    items = []     # (signature, description, ka text or None, judge(observation) -> (fails, detail))
    failing = []

    def dim_text(dim7):
        return reg.base_text(list(dim7) + [0] * (len(reg.base_units) - 7))

    def judge_value(expected, tol):
        def j(o):
            v = value_of(o.get("value"))
            if o.get("status") != 0 or v is None:
                return True, "status %r %s" % (o.get("status"), (o.get("err") or "").strip()[:80])
            return (abs(v[0] - expected) > tol * abs(expected)), "value %s" % (v[0] if v[0].denominator < 10 ** 6 else float(v[0]))
        return j

    def judge_error(o):
        return o.get("status") != 1, "status %r value %r" % (o.get("status"), o.get("value"))

    if flags[0] != "1":
        items.append((dict(op="registry-malformed"), "NAME_TO_UNIT/SYMBOL_TO_UNIT have duplicate keys, disagree on a common key, or point outside UNITS", None, None))
    if flags[1] != "1":
        items.append((dict(op="base-units"), "the quantity space is not kg m s A K mol cd (+ base currency): %r" % reg.base_units, None, None))
    if flags[2] != "1":
        items.append((dict(op="no-offset-unit"), "no unit with an offset is registered any more (degC/degF)", "1 degC to K", judge_value(Fraction(27415, 100), TOL)))
    for i, o in enumerate(uo):
        u = reg.units[i]
        fl, sdim, ssize, soff, badsp = (o.split(";") + ["", "", "", ""])[:5] if "nospec" not in o else (o.split(";")[0], None, None, None, o.split(";")[-1])
        sym = u["symbol"]
        cash = "cash" in u["quantities"]
        if fl[0] != "1":
            for k in [int(x) for x in badsp.split(",") if x]:
                w = reg.spellings(u)[k][0]
                tgt = reg.target_text(i)
                items.append((dict(op="spelling-not-this-unit", unit=sym, name=w),
                              "spelling %r of unit %s does not resolve to it unscaled" % (w, sym),
                              ("1 %s to %s" % (w, tgt)) if tgt else None,
                              judge_value(qv(u["mult"]) + qv(u["offset"]), TOL)))
        if fl[1] != "1":
            p = reg.prefixes[7 if npf > 7 else 0]
            items.append((dict(op="prefix-on-offset-unit", unit=sym), "a prefix on the offset unit %s is not refused" % sym,
                          "1 %s%s" % (p["name"], u["singular"]), judge_error))
        if sdim is None and not cash:
            items.append((dict(op="unit-without-reference", unit=sym),
                          "unit %s (%s) has no entry in Proofs/UnitSpec.v: its dimension and size are unverified" % (sym, u["singular"]), None, None))
            continue
        if cash:
            if fl[2] != "1":
                items.append((dict(op="dimension", unit=sym), "cash unit %s does not have the pure currency dimension: %r" % (sym, u["dim"]),
                              "1 %s to %s" % (sym, reg.base_units[-1]), judge_value(qv(u["mult"]), TOL)))
            continue
        dim7 = [int(x) for x in sdim.split(",")]
        n_, d_ = ssize.split("/")
        size = Fraction(int(n_), int(d_))
        n_, d_ = soff.split("/")
        off = Fraction(int(n_), int(d_))
        tgt = dim_text(dim7) or reg.pure_number_unit()
        if fl[2] != "1":
            items.append((dict(op="dimension", unit=sym), "unit %s has dimension %r, its SI definition has %r" % (sym, u["dim"][:7], dim7),
                          "1 %s to %s" % (u["singular"], tgt), judge_value(size + off, Fraction(1, 100))))
        if fl[3] != "1":
            items.append((dict(op="size", unit=sym), "unit %s has size %s, its definition is %s (more than 1%% apart)" % (sym, float(qv(u["mult"])), float(size)),
                          "1 %s to %s" % (u["singular"], tgt), judge_value(size + off, Fraction(1, 100))))
        if fl[4] != "1":
            items.append((dict(op="offset", unit=sym), "unit %s has offset %s, its definition is %s" % (sym, float(qv(u["offset"])), float(off)),
                          "0 %s to %s" % (u["singular"], tgt), judge_value(off, TOL) if off != 0 else (lambda o: (value_of(o.get("value")) is None or value_of(o.get("value"))[0] != 0, "value %r" % o.get("value")))))
        if fl[5] != "1":
            for w, _ in reg.spellings(u):
                for v in (w.upper(), w.lower()):
                    if v != w and not reg.registered(v) and same_reading(reg.lookup(v), reg.lookup(w)):
                        items.append((dict(op="case-insensitive", unit=sym, name=v), "the case variant %r reads like %r" % (v, w), "1 %s" % v, judge_error))
    for k, o in enumerate(ro):
        kind, fl, a, b, pw, fac = o.split(";")
        n_, d_ = fac.split("/")
        fac = Fraction(int(n_), int(d_))
        if fl != "11":
            tol = TOL if kind == "0" else Fraction(2, 100)
            bt = b if pw == "1" else "%s^%s" % (b, pw)
            items.append((dict(op="ratio", a=a, b=b), "definitional ratio 1 %s = %s %s does not hold%s" % (a, fac if fac.denominator < 10 ** 6 else float(fac), bt, "" if fl[1] == "1" else " (dimensions differ)"),
                          "1 %s to %s" % (a, bt) if lexable(reg, a) and lexable(reg, b) else None, judge_value(fac, tol)))
    for k, o in enumerate(po):
        if o != "1":
            p = reg.prefixes[k]
            items.append((dict(op="prefix-multiplier", name=p["name"]), "prefix %s (%s) is not exactly %d^%d" % (p["name"], p["symbol"], p["base"], p["exp"]),
                          "1 %smetre to metre" % p["name"], judge_value(Fraction(p["base"]) ** p["exp"], Fraction(0))))
    for k, o in enumerate(vo):
        fl, v, w = o.split(";")
        if fl != "1":
            items.append((dict(op="case-insensitive", name=v), "the case variant %r reads like %r" % (v, w), "1 %s" % v if lexable(reg, v) else None, judge_error))
    n_items = len(uo) * 6 + len(ro) + len(po) + len(vo) + 3
    texts = [t for _, _, t, _ in items if t]
    obs = iter(C.run_impl(impl_text, texts, ctx["rundir"], limit=10.0)) if texts else iter([])
    for sig, what, t, judge in items:
        failing.append(dict(sig=sig, input=t))
        if t is None:
            rep.violation(sig, "C13 checker fails on the regenerated registry: %s" % what, dict(detail=what), found_input=False)
            continue
        o = next(obs)
        fails, detail = judge(o)
        rep.violation(sig, "C13 %s on the implementation: %s; %r gives %s" % ("fails" if fails else "checker fails but the conversion passes", what, t, detail),
                      dict(text=t, observed=o, detail=what), found_input=bool(fails))
    return failing, n_items
