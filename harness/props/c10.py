"""C10 — overload resolution: unique most specific signature, order-independent.
Theorems: coq/Properties/C10.v over the regenerated registry (Gen/GenFunctions.v).
Tie: the live lookup_function/get_closest_match/dispatch on every (name, kind tuple) up to the
largest registered arity + 1, against the Gallina model evaluated in the Coq VM; plus the
property itself on the live objects (unique least, permutation stability, rejection before bodies)."""
import itertools, random, json
import common as C

ID = "C10"
COQ_TARGETS = ["Properties/C10.vo", "GenFacts/DispatchSrcFacts.vo"]
MODEL_TARGETS = ["Model/Dispatch.vo"]
IMPORTS = "From Ka Require Import Model.Dispatch.\nOpen Scope string_scope.\n"

EXTRA = r'''
Definition decisions_of (name : string) : string :=
  match sigs_of name with
  | None => "?"
  | Some sigs =>
      String.concat " "
        (flat_map (fun p => match closest_match (lookup sigs (snd p)) with
                            | None => []
                            | Some (j, _) => [show_nat (fst p) ++ ":" ++ show_nat j]
                            end)
                  (index_from 0 (tuples_upto (S (max_arity sigs)))))
  end.
Definition kwcase (c : string * list nat * list (string * nat)) : string :=
  show_decision (dispatch_decision (fst (fst c)) (snd (fst c)) (snd c)).
'''


def enum_tuples(K, maxlen):
    """same order as Coq's tuples_upto maxlen"""
    for n in range(maxlen, -1, -1):
        for t in itertools.product(range(K), repeat=n):
            yield t


# ------------------------------------------------------------------ worker side (live objects)
def _live():
    import ka.functions as F
    import dump_live
    reps = dump_live.make_reps()
    return F, reps


def impl_name(args):
    """For one function name: the chosen signature index for every kind tuple, plus the property
    checks on the live objects."""
    name, nperm, seed = args
    F, reps = _live()
    vals = [v for _, v in reps]
    K = len(vals)
    headers = list(F.FUNCTIONS[name])
    idx = {id(h): i for i, h in enumerate(headers)}
    maxar = max(len(h.sig.args) for h in headers)
    rng = random.Random(seed)
    perms = []
    for _ in range(nperm):
        p = headers[:]
        rng.shuffle(p)
        perms.append(p)
    perms.append(list(reversed(headers)))
    chosen = {}
    bad = []
    multi = 0
    pos = -1
    for t in enum_tuples(K, maxar + 1):
        pos += 1
        args_ = [vals[k] for k in t]
        ms = F.lookup_function(name, args_)
        if not ms:
            continue
        c = F.get_closest_match(ms)
        chosen[pos] = idx[id(c)]
        if len(ms) > 1:
            multi += 1
            # unique least on the live lattice
            least = [m for m in ms if all(F.types_below(m.sig, o.sig) for o in ms)
                     and all((not F.types_below(o.sig, m.sig)) or o is m for o in ms)]
            if len(least) != 1:
                bad.append(dict(kind="no-unique-least", name=name, kinds=[reps[k][0] for k in t],
                                matching=[str(m.sig) for m in ms], least=[str(m.sig) for m in least]))
            elif least[0] is not c:
                bad.append(dict(kind="not-most-specific", name=name, kinds=[reps[k][0] for k in t],
                                chosen=str(c.sig), least=str(least[0].sig)))
            for p in perms:
                ms2 = [h for h in p if h.sig_matches(args_)]
                c2 = F.get_closest_match(ms2)
                if c2 is not c:
                    bad.append(dict(kind="order-dependent", name=name, kinds=[reps[k][0] for k in t],
                                    registered_order_choice=str(c.sig), permuted_choice=str(c2.sig),
                                    permutation=[idx[id(h)] for h in p]))
                    break
    return dict(name=name, chosen=chosen, bad=bad[:5], nbad=len(bad), multi=multi, total=pos + 1)


def impl_reject(args):
    """dispatch() on rejected calls: the right error class, and no body runs."""
    name, kinds_tuples, kwcases = args
    F, reps = _live()
    vals = dict(reps)
    ran = []
    saved = {}
    for n, hs in F.FUNCTIONS.items():
        for h in hs:
            saved[id(h)] = h.f
            h.f = (lambda *a, _n=n, **k: ran.append(_n))
    out = []
    try:
        for t in kinds_tuples:
            del ran[:]
            try:
                F.dispatch(name, tuple(vals[k] for k in t))
                r = "R"
            except Exception as x:
                r = "E:" + type(x).__name__
            out.append((list(t), [], r, list(ran)))
        for t, kws in kwcases:
            del ran[:]
            try:
                F.dispatch(name, tuple(vals[k] for k in t), kw_args={k: vals[v] for k, v in kws})
                r = "R"
            except Exception as x:
                r = "E:" + type(x).__name__
            out.append((list(t), kws, r, list(ran)))
    finally:
        for n, hs in F.FUNCTIONS.items():
            for h in hs:
                h.f = saved[id(h)]
    return out


NARROW_POSITIONS = ["(%s)!", "C(%s, 2)", "C(6, %s)", "range(1, %s)", "range(%s, 9)", "1..%s", "%s..9", "sample(Bernoulli(1/2), %s)",
                    "Binomial(%s, 1/2)", "UniformInt(1, %s)", "UniformInt(%s, 9)", "Poisson(%s)", "#2024-01-01# + %s", "#2024-01-01# - %s"]
NON_INTEGERS = ["(1/2)", "2.5", "(7/2)", "(3!/4!)", "(5!/7)", "(C(5,2)/4)", "(0-7/2)", "1e-3",
                # floats one or two ulps from a whole number are not whole numbers
                "3.0000000000000004", "(0.1*3*10)", "2.9999999999999996", "(4.35*100)"]
# keyword arguments are validated whatever their value is (a falsy value is still a value)
BAD_KEYWORDS = ["cos(0, x: 0)", "cos(0, x: 1)", "sin(1, zz: \"\")", "options(title: 0)", "options(title: 1)", "vline(1, weight: \"\")",
                "vline(1, weight: \"a\")", "hline(2, style: 0)", "hline(2, style: 1 - 1)", "options(nosuch: 0)", "sqrt(4, k: false)",
                "max(1, 2, k: 0)", "x = 1 - 1; hline(2, style: x)"]
WIDER_OK = [("sqrt(3!+3)", "I:3"), ("abs(0-3!)", "I:6"), ("sqrt(4)", "I:2"), ("abs(3!)", "I:6"), ("1..(3!/2)", "A:[I:1;I:2;I:3]"),
            ("2.0 + 1", "I:3"), ("(4/2)!", "I:2"), ("floor(7/2) + 3!", "I:9")]


def narrowing_items():
    """'never silently narrowed (a non-integer where an integer is required is an error)', for every numeric kind of
    non-integer incl. lazy quotients; and a value of a narrower kind is accepted where a wider one is expected"""
    items = []
    for pat in NARROW_POSITIONS:
        for v in NON_INTEGERS:
            items.append(([pat % v], (lambda o: o.get("status") == 1 and not o.get("escaped") and (o.get("err") or "").strip() != ""
                                      and (o.get("out") or "") == ""),
                          "a non-integer where an integer is required is a diagnosed error"))
    for text in BAD_KEYWORDS:
        items.append(([text], (lambda o: o.get("status") == 1 and not o.get("escaped") and (o.get("err") or "").strip() != ""),
                      "an unknown keyword or a wrongly typed keyword value is rejected whatever the value is"))
    for text, want in WIDER_OK:
        items.append(([text], want, "a value of a narrower kind is accepted where a wider numeric kind is expected"))
    return items


def impl_cmd_then_call(spec):
    """an interpreter command first, then an expression in the same process"""
    import io, contextlib
    import ka.interpret as I
    cmds, text = spec
    buf = io.StringIO()
    for c in cmds:
        try:
            with contextlib.redirect_stdout(buf), contextlib.redirect_stderr(buf):
                I.execute_interpreter_command(c)
        except C.CaseTimeout:
            raise
        except BaseException:
            pass                # what a command may raise is C06's business
    o = C.observe(text)
    return dict(text=text, status=o.get("status"), err=(o.get("err") or "")[:200], value=o.get("value"), escaped=o.get("escaped"))


def run(ctx):
    # asking the interpreter about a name does not register it: the unknown-name errors stay what they are
    _specs = []
    for _n in ("lcm", "gcdx", "sine", "frobnicate", "Sqrt", "zz"):
        for _cmds in (["%%f %s" % _n], ["%%f %s" % _n, "%fs"], ["%%f %s" % _n] * 3, ["%%u %s" % _n, "%%f %s" % _n]):
            _specs.append((_cmds, "%s(4, 6)" % _n))
    _fresh = C.run_impl(impl_cmd_then_call, [([], t) for _, t in _specs], ctx["rundir"], limit=20.0)
    for (_cmds, _t), _o, _f in zip(_specs, C.run_impl(impl_cmd_then_call, _specs, ctx["rundir"], limit=20.0), _fresh):
        if _o.get("hung") or _f.get("hung"):
            continue
        if not (_f.get("err") or "").startswith("Unknown function"):
            continue            # the name is a function of this tree (a later version may well define it): nothing to compare
        if (_o.get("status"), _o.get("err")) != (_f.get("status"), _f.get("err")):
            ctx["report"].violation(dict(kind="command-then-call", name=_t.split("(")[0]),
                                    "C10 fails: after the interpreter commands %s, `%s` is answered with %r; in a fresh process with %r (an unknown function name is rejected as unknown)"
                                    % (_cmds, _t, (_o.get("err") or "").strip()[:100], (_f.get("err") or "").strip()[:100]),
                                    dict(text="%s ;; %s" % (" ;; ".join(_cmds), _t), commands=_cmds, input=_t, impl=_o.get("err"), expected=_f.get("err")))
    C.expect_sessions(ctx["report"], ctx["rundir"], "C10",
                      [(["Total(1, 2)", "total(1, 2)"], (lambda o: o.get("status") == 1 and "Unknown function" in (o.get("err") or "")), "an unknown name stays unknown after its capitalised spelling was tried"),
                       (["SQRT(2)", "sqrt(4)"], "I:2", "a known function after its capitalised spelling was tried"),
                       (["Nosuch(1)", "nosuch(1)", "NOSUCH(1)"], (lambda o: o.get("status") == 1 and "Unknown function" in (o.get("err") or "")), "unknown names differing by case"),
                       (["mdegC(3)"], lambda o: o.get("status") == 1 and not o.get("escaped") and (o.get("err") or "").strip() != "" and (o.get("out") or "") == "", "an unknown function named like a prefixed offset unit is a diagnosed error"),
                       (["kdegF(1, 2)"], lambda o: o.get("status") == 1 and not o.get("escaped") and (o.get("err") or "").strip() != "" and (o.get("out") or "") == "", "an unknown function named like a prefixed offset unit is a diagnosed error"),
                       (["km(3)"], lambda o: o.get("status") == 1 and not o.get("escaped") and (o.get("err") or "").strip() != "" and (o.get("out") or "") == "", "an unknown function named like a unit is a diagnosed error"),
                       (["{hline(y, weight: w) : y in {1, 2}, w in {1, \"thick\"}}"], lambda o: o.get("status") == 1 and not o.get("escaped") and (o.get("err") or "").strip() != "" and (o.get("out") or "") == "", "a wrongly typed keyword value at the second evaluation of a call site")], kind="rejection")
    C.config_matrix(ctx["report"], ctx["rundir"], "C10", ["nosuchfn(1)", "Total(1, 2); total(1, 2)", "mdegC(3)", "kdegF(1, 2)", "sin(1, zz: 2)", "max(1, 2)", "(1/2)!", "C(5, 0.1*3*10)", "sqrt(4)", "vline(1, weight: \"a\")", "1 + \"a\""])
    # which implementation runs depends on the kinds of THIS call's arguments only: not on what ran before at the same place
    C.seam_check(ctx["report"], ctx["rundir"], "C10",
                 templates=[("%s / 2", ["0.5", "3", "1/2", "3!"]), ("%s / 2", ["3", "0.5"]), ("%s == 1", ['"a"', "1", "1.0", "{1}"]), ("%s + 1", ["1", "1/2", "0.5", "1 m", "#2020-01-01#", "[1,2]"]),
                            ("abs(%s)", ["-1", "-1/2", "-0.5", "-1 m", "[-2,1]"]), ("%s * 2", ["3!", "1.5", "2 m", "[1,2]", "1/3"]), ("max(%s, 1)", ["2", "1/2", "0.5", "[0,3]"]),
                            ("floor(%s)", ["7/2", "3.5", "3", "#2020-01-01T10:00#", "(7/2) m"]), ("%s < 2", ["1", "5/2", "1 m", "[0,1]", "Bernoulli(1/2)"])])
    C.expect_sessions(ctx["report"], ctx["rundir"], "C10", narrowing_items(), kind="narrowing")
    rep, tier, seed = ctx["report"], ctx["tier"], ctx["seed"]
    d = json.load(open(C.BUILD + "/dump.json"))
    kinds = d["kinds"]
    K = len(kinds)
    names = [r["name"] for r in d["registry"]]
    nperm = 20 if tier == "quick" else 300
    res = C.run_impl(impl_name, [(n, nperm, seed * 1000 + i) for i, n in enumerate(names)], ctx["rundir"],
                     limit=600.0, chunksize=1)
    total = sum(r["total"] for r in res)
    multi = sum(r["multi"] for r in res)
    matched = sum(len(r["chosen"]) for r in res)
    samples = []
    for r in res:
        for b in r["bad"]:
            sig = dict(kind=b["kind"], name=b["name"], kinds=b["kinds"])
            rep.violation(sig, "C10 fails on the live registry: %s for %s%r" % (b["kind"], b["name"], tuple(b["kinds"])),
                          dict(call="%s applied to representative values of kinds %r" % (b["name"], b["kinds"]), detail=b))
    # --- correspondence with the model
    disagreements = 0
    if ctx["model_ok"]:
        outs = C.run_model(ctx["rundir"], "c10", IMPORTS, "decisions_of", [C.coq_str(n) for n in names],
                           shard=5, extra_defs=EXTRA)
        for r, o in zip(res, outs):
            mod = {}
            if o.strip() and o != "?":
                for item in o.split(" "):
                    a, b = item.split(":")
                    mod[int(a)] = int(b)
            imp = {int(k): v for k, v in r["chosen"].items()}
            if mod != imp:
                disagreements += 1
                diff = sorted(set(mod.items()) ^ set(imp.items()))[:4]
                # decode the first differing tuple
                pos = diff[0][0]
                sigs = next(x for x in d["registry"] if x["name"] == r["name"])["sigs"]
                maxar = max(len(s["args"]) for s in sigs)
                t = next(itertools.islice(enum_tuples(K, maxar + 1), pos, None))
                rep.violation(dict(kind="correspondence", family="closest_match", name=r["name"]),
                              "model and live get_closest_match disagree for %s on kinds %r: impl index %r, model index %r"
                              % (r["name"], [kinds[k] for k in t], imp.get(pos), mod.get(pos)),
                              dict(name=r["name"], kinds=[kinds[k] for k in t], impl=imp.get(pos), model=mod.get(pos)),
                              found_input=False)
            if len(samples) < 4 and r["multi"]:
                samples.append(dict(name=r["name"], tuples=r["total"], matched=len(imp), multi_match=r["multi"]))
    # --- rejection before any body runs, keyword validation
    rng = random.Random(seed + 17)
    rej_cases = []
    kw_model_cases = []
    kw_expect = []
    for reg in d["registry"]:
        name = reg["name"]
        sigs = reg["sigs"]
        maxar = max(len(s["args"]) for s in sigs)
        ts = [t for t in itertools.product(range(K), repeat=min(maxar, 2))]
        rng.shuffle(ts)
        ts = ts[: 40 if tier == "quick" else 400] + [tuple([0] * (maxar + 2))]
        kwcases = []
        for s in sigs[:3]:
            if not s["kws"] and not s["vararg"]:
                tix0 = d["sig_types"].index
                base0 = []
                for a in s["args"]:
                    ks0 = [k for k in range(K) if d["isinstance"][k][tix0(a)]]
                    base0.append(ks0[0] if ks0 else 0)
                kwcases.append((tuple(base0), [("zzz_unknown", 0)]))
        for s in sigs:
            if not s["kws"]:
                continue
            # kinds that match this signature
            tix = d["sig_types"].index
            base = []
            ok = True
            for a in s["args"]:
                ks = [k for k in range(K) if d["isinstance"][k][tix(a)]]
                if not ks:
                    ok = False
                    break
                base.append(ks[0])
            if not ok:
                continue
            for kw, _ in s["kws"][:6]:
                for vk in range(K):
                    kwcases.append((tuple(base), [(kw, vk)]))
            kwcases.append((tuple(base), [("zzz_unknown", 0)]))
            # two keywords in one call, in both orders: each value is checked against its OWN keyword's type
            if len(s["kws"]) >= 2:
                tixk = d["sig_types"].index
                for (ka_, ta), (kb, tb) in itertools.permutations(s["kws"][:4], 2):
                    good_a = [k for k in range(K) if d["isinstance"][k][tixk(ta)]]
                    if not good_a:
                        continue
                    for vk in range(K):
                        kwcases.append((tuple(base), [(ka_, good_a[0]), (kb, vk)]))
                        kwcases.append((tuple(base), [(kb, vk), (ka_, good_a[0])]))
        rej_cases.append((name, [tuple(kinds[k] for k in t) for t in ts],
                          [(tuple(kinds[k] for k in t), [(kw, kinds[v]) for kw, v in kws]) for t, kws in kwcases]))
        for t in ts:
            kw_model_cases.append((name, t, []))
        for t, kws in kwcases:
            kw_model_cases.append((name, t, kws))
    rej_cases.append(("no_such_function_zz", [(), ("int",)], []))
    kw_model_cases += [("no_such_function_zz", (), []), ("no_such_function_zz", (0,), [])]
    rres = C.run_impl(impl_reject, rej_cases, ctx["rundir"], limit=120.0, chunksize=1)
    flat = [x for r in rres for x in r]
    n_rej = 0
    for (name, _, _), r in zip(rej_cases, rres):
        for t, kws, outc, ran in r:
            if outc.startswith("E:"):
                n_rej += 1
                if ran:
                    rep.violation(dict(kind="body-ran-on-rejected-call", name=name),
                                  "a function body ran although dispatch rejected the call %s%r %r" % (name, t, kws),
                                  dict(name=name, kinds=t, kws=kws, outcome=outc, ran=ran))
    if ctx["model_ok"]:
        terms = ["(%s, [%s], [%s])" % (C.coq_str(n), ";".join("%d%%nat" % k for k in t),
                                        ";".join("(%s, %d%%nat)" % (C.coq_str(kw), v) for kw, v in kws))
                 for n, t, kws in kw_model_cases]
        mouts = C.run_model(ctx["rundir"], "c10kw", IMPORTS, "kwcase", terms, shard=400, extra_defs=EXTRA,
                            case_type="string * list nat * list (string * nat)")
        for (n, t, kws), mo, (t2, kws2, io, ran) in zip(kw_model_cases, mouts, flat):
            mcls = "R" if mo.startswith("R:") else mo
            if mcls != io:
                disagreements += 1
                expected_errors = {"E:UnknownFunctionError", "E:NoMatchingFunctionSignatureError",
                                   "E:UnknownKeywordError", "E:BadTypeKeywordError"}
                prop_fail = (mcls in expected_errors and io != mcls)
                rep.violation(dict(kind="dispatch-decision", name=n, model=mcls, impl=io),
                              "dispatch(%s, kinds %r, keywords %r): implementation %s, model %s" % (n, t2, kws2, io, mcls),
                              dict(name=n, kinds=t2, kws=kws2, impl=io, model=mcls), found_input=prop_fail)
    rep.coverage.update(dict(
        evaluations=total + len(flat), distinct_nontrivial=matched + n_rej,
        rule="every registered name x every kind tuple (over %d value classes) up to that name's largest arity + 1, live lookup_function+get_closest_match vs the model (exhaustive); every multi-match tuple re-resolved under %d seeded permutations + the reversed order; rejected calls through dispatch() with bodies wrapped; non-trivial = tuples with at least one applicable signature, and rejected calls" % (K, nperm),
        exhaustive=True, samples=samples + [dict(rejected_call=flat[i]) for i in (0, len(flat) // 2)],
        multi_match_tuples=multi, matched_tuples=matched, kind_tuples=total, rejected_calls=n_rej,
        traces_validated_against_impl=total + len(flat), disagreements=disagreements,
        registry_names=len(names), signatures=sum(len(r["sigs"]) for r in d["registry"])))
    rep.assumptions += ["one representative value per runtime class (is_type depends on the class only)",
                        "bodies are not modelled here; which body runs is identified by registry index"]
