"""Shared generators / rendering / comparison for the quantity properties C03 and C04."""
import random, json, math
from fractions import Fraction
import common as C
from props import c01

IMPORTS = "From Ka Require Import Model.Num Model.Qty.\nOpen Scope string_scope.\n"
QOP = {"QAdd": "+", "QSub": "-", "QMul": "*", "QDiv": "/"}
QCMP = {"QLt": "<", "QLe": "<=", "QEq": "==", "QNe": "!=", "QGt": ">", "QGe": ">="}


# ------------------------------------------------------------------ units (resolved on the live implementation)
def resolve_units(names):
    """worker: name -> (dims, mult, offset) with exact type tags, or an error class"""
    from ka.units import lookup_unit, InvalidPrefixError
    from fractions import Fraction as F
    out = {}
    for n in names:
        try:
            u = lookup_unit(n)
        except InvalidPrefixError:
            out[n] = "InvalidPrefixError"
            continue
        if u is None:
            out[n] = None
            continue
        def enc(x):
            if isinstance(x, bool): return ["i", int(x), 1]
            if isinstance(x, int): return ["i", x, 1]
            if isinstance(x, F): return ["f", x.numerator, x.denominator]
            if isinstance(x, float):
                a, b = x.as_integer_ratio()
                return ["x", a, b]
            return ["?", 0, 1]
        out[n] = dict(dim=list(u.quantity_vector.v.xs), mult=enc(u.multiple), off=enc(u.offset))
    return out


def coq_num(t):
    k, a, b = t
    if k == "i":
        return "NInt %s" % C.coq_Z(a)
    q = "(%s # %d)" % (("(%d)" % a) if a < 0 else str(a), b)
    return ("NFrac %s" if k == "f" else "NFlt %s") % q


def coq_unit(u):
    return "{| ud := [%s]; um := %s; uo := %s |}" % (";".join(C.coq_Z(x) for x in u["dim"]), coq_num(u["mult"]), coq_num(u["off"]))


def coq_sig(sig, units):
    def lst(l):
        return "[" + ";".join("(%s, %s)" % (coq_unit(units[n]), C.coq_Z(e)) for n, e in l) + "]"
    return "(%s, %s)" % (lst(sig[0]), lst(sig[1]))


def ka_sig(sig):
    def part(l):
        return " ".join(n if e == 1 else "%s^%d" % (n, e) for n, e in l)
    s = part(sig[0])
    if sig[1]:
        s += " | " + part(sig[1])
    return s


# qexpr trees: ("lit", atree) ("tag", e, sig) ("bin", op, a, b) ("cmp", c, a, b) ("conv", e, sig) ("neg", e)
def ka_text(t):
    k = t[0]
    if k == "lit":
        return c01.ka_text(t[1])
    if k == "tag":
        return "((%s) %s)" % (ka_text(t[1]), ka_sig(t[2]))
    if k == "bin":
        return "(%s %s %s)" % (ka_text(t[2]), QOP[t[1]], ka_text(t[3]))
    if k == "cmp":
        return "(%s %s %s)" % (ka_text(t[2]), QCMP[t[1]], ka_text(t[3]))
    if k == "conv":
        return "(%s to %s)" % (ka_text(t[1]), ka_sig(t[2]))
    return "(-(%s))" % ka_text(t[1])


def coq_term(t, units):
    k = t[0]
    if k == "lit":
        return "QLit (%s)" % c01.coq_term(t[1])
    if k == "tag":
        return "QTag (%s) %s" % (coq_term(t[1], units), coq_sig(t[2], units))
    if k == "bin":
        return "QBin %s (%s) (%s)" % (t[1], coq_term(t[2], units), coq_term(t[3], units))
    if k == "cmp":
        return "QCmp %s (%s) (%s)" % (t[1], coq_term(t[2], units), coq_term(t[3], units))
    if k == "conv":
        return "QConv (%s) %s" % (coq_term(t[1], units), coq_sig(t[2], units))
    return "QNeg (%s)" % coq_term(t[1], units)


def unit_names_in(t, acc):
    k = t[0]
    if k in ("tag", "conv"):
        for n, _ in t[2][0] + t[2][1]:
            acc.add(n)
        unit_names_in(t[1], acc)
    elif k == "bin" or k == "cmp":
        unit_names_in(t[2], acc)
        unit_names_in(t[3], acc)
    elif k == "neg":
        unit_names_in(t[1], acc)
    return acc


# ------------------------------------------------------------------ spellings
def spellings(d, rng, with_prefix=True):
    """registered spellings usable in source text, grouped by dimension; plus prefixed ones"""
    units = d["units"]
    by_dim = {}
    usable = lambda s: s.isascii() and s.replace("_", "a").isalnum() and s[0].isalpha() and s not in ("in", "to", "e")
    for u in units:
        if "cash" in u["quantities"]:
            continue
        names = [u["symbol"], u["singular"]] + ([u["plural"]] if u["plural"] != "noplural" else [])
        for n in names:
            if usable(n):
                by_dim.setdefault(tuple(u["dim"]), []).append(n)
        if with_prefix and u["offset"]["n"] == "0":
            for p in d["prefixes"]:
                if usable(p["name"] + u["singular"]):
                    by_dim[tuple(u["dim"])].append(p["name"] + u["singular"])
                if usable(p["symbol"] + u["symbol"]):
                    by_dim[tuple(u["dim"])].append(p["symbol"] + u["symbol"])
    return by_dim


RATIONAL_SAFE = None


def rand_sig(rng, pool, simple=False):
    n1 = 1 if simple or rng.random() < 0.6 else rng.choice([1, 2, 3])
    n2 = 0 if simple or rng.random() < 0.6 else rng.choice([1, 2])
    mk = lambda: (rng.choice(pool), 1 if rng.random() < 0.7 else rng.choice([-2, -1, 2, 3]))
    return ([mk() for _ in range(n1)], [mk() for _ in range(n2)])


def rand_lit(rng, floaty=False):
    r = rng.random()
    if r < 0.5:
        return ("lit", ("lit", rng.choice([0, 1, 2, 3, 5, 6, 12, 100, 1000, rng.randrange(10 ** 6)])))
    if r < 0.8:
        return ("lit", ("bin", "Div", ("lit", rng.randrange(1, 200)), ("lit", rng.choice([2, 3, 4, 7, 9, 1000]))))
    if r < 0.9:
        return ("lit", ("un", "UNeg", ("lit", rng.randrange(1, 50))))
    return ("lit", ("sci", rng.randrange(1, 99), rng.choice([-3, -1, 2, 6])))


def rand_q(rng, depth, pool_for, dims, want=None):
    """random quantity expression; `want` = a dimension (tuple) to aim for, or None for a number"""
    if depth == 0:
        if want is None:
            return rand_lit(rng)
        if rng.random() < 0.25:
            # the same dimension written as a compound: U * V / V' with V, V' two spellings of one dimension
            d2 = rng.choice(dims)
            e = rng.choice([1, 1, 2, 3])
            a, b = rng.choice(pool_for[d2]), rng.choice(pool_for[d2])
            if rng.random() < 0.5:
                return ("tag", rand_lit(rng), ([(rng.choice(pool_for[want]), 1), (a, e)], [(b, e)]))
            return ("tag", rand_lit(rng), ([(rng.choice(pool_for[want]), 1), (a, e), (b, -e)], []))
        return ("tag", rand_lit(rng), ([(rng.choice(pool_for[want]), 1)], []))
    r = rng.random()
    if want is None:
        if r < 0.25:
            return rand_lit(rng)
        if r < 0.5:
            d = rng.choice(dims)
            return ("conv", rand_q(rng, depth - 1, pool_for, dims, d), ([(rng.choice(pool_for[d]), 1)], []))
        if r < 0.7:
            d = rng.choice(dims + [None])
            return ("cmp", rng.choice(list(QCMP)), rand_q(rng, depth - 1, pool_for, dims, d), rand_q(rng, depth - 1, pool_for, dims, d))
        return ("bin", rng.choice(list(QOP)), rand_q(rng, depth - 1, pool_for, dims, None), rand_q(rng, depth - 1, pool_for, dims, None))
    if r < 0.3:
        return ("tag", rand_q(rng, depth - 1, pool_for, dims, None), ([(rng.choice(pool_for[want]), 1)], []))
    if r < 0.6:
        return ("bin", rng.choice(["QAdd", "QSub"]), rand_q(rng, depth - 1, pool_for, dims, want), rand_q(rng, depth - 1, pool_for, dims, want))
    if r < 0.8:
        if rng.random() < 0.5:
            return ("bin", rng.choice(["QMul", "QDiv"]), rand_q(rng, depth - 1, pool_for, dims, want), rand_q(rng, depth - 1, pool_for, dims, None))
        return ("bin", "QMul", rand_q(rng, depth - 1, pool_for, dims, None), rand_q(rng, depth - 1, pool_for, dims, want))
    if r < 0.9:
        return ("neg", rand_q(rng, depth - 1, pool_for, dims, want))
    # deliberately wrong dimension now and then
    d2 = rng.choice(dims)
    return ("bin", rng.choice(["QAdd", "QSub"]), rand_q(rng, depth - 1, pool_for, dims, want), rand_q(rng, depth - 1, pool_for, dims, d2))


# ------------------------------------------------------------------ comparing encoded values
def parse_enc(s):
    """-> ('num', Fraction|float, exact) | ('qty', (value, exact), dims) | ('err', cls) | ('other', s)"""
    if s is None:
        return ("other", None)
    if s.startswith("E:"):
        return ("err", s[2:])
    if s.startswith("Q:"):
        mag, dims = s[2:].rsplit("|", 1)
        p = parse_enc(mag)
        return ("qty", p[1:], tuple(int(x) for x in dims.split(",")) if dims else ())
    if s.startswith("I:"):
        return ("num", Fraction(int(s[2:])), True)
    if s.startswith("F:"):
        a, b = s[2:].split("/")
        return ("num", Fraction(int(a), int(b)), True)
    if s.startswith("X:"):
        body = s[2:]
        if "/" in body and "x" not in body:
            a, b = body.split("/")
            return ("num", Fraction(int(a), int(b)), False)
        return ("num", Fraction(float.fromhex(body)), False)
    if s.startswith("B:"):
        return ("other", s)
    return ("other", s)


def close(a, b, tol=1e-9):
    if a == b:
        return True
    m = max(abs(a), abs(b))
    return abs(a - b) <= tol * m or abs(a - b) <= Fraction(1, 10 ** 300)


def same_value(model, impl, tol=1e-9):
    """model text (exact or X: ideal) vs implementation text"""
    pm, pi = parse_enc(model), parse_enc(impl)
    if pm[0] != pi[0]:
        return False
    if pm[0] == "err":
        return pm[1] == pi[1]
    if pm[0] == "num":
        if pm[2]:                       # model exact: kind and value must match exactly
            return pi[2] and pm[1] == pi[1] and model[:2] == impl[:2]
        return close(pm[1], pi[1], tol)
    if pm[0] == "qty":
        if pm[2] != pi[2]:
            return False
        (mv, mex), (iv, iex) = pm[1], pi[1]
        if mex:
            return iex and mv == iv and model[:4] == impl[:4]
        return close(mv, iv, tol)
    return model == impl


def impl_case(text):
    return C.observe(text)


def impl_error_class(o):
    """map an observation to the model's outcome vocabulary"""
    if o.get("hung"):
        return "HUNG"
    r = o.get("raw")
    if r and r.startswith("E:"):
        if o.get("status") != 1:
            return r + " escaped (status %r, escaped %r)" % (o.get("status"), o.get("escaped"))
        return r
    if o.get("value") != r:
        return "%s but execute() delivered %r (escaped %r)" % (r, o.get("value"), o.get("escaped"))
    return r


def totuple(x):
    return tuple(totuple(y) if isinstance(y, list) else y for y in x)


def build_cases(ctx, n_rand, rational_only):
    """returns (trees, units dict)"""
    d = json.load(open(C.BUILD + "/dump.json"))
    rng = random.Random(ctx["seed"] * 31337 + (3 if rational_only else 4))
    by_dim = spellings(d, rng)
    # resolve every candidate spelling on the live implementation
    allnames = sorted(set(n for l in by_dim.values() for n in l))
    res = C.run_impl(resolve_units, [allnames], ctx["rundir"], limit=120.0, procs=1)[0]
    units = {n: u for n, u in res.items() if isinstance(u, dict)}
    pool_for = {}
    for dim, names in by_dim.items():
        good = []
        for n in names:
            u = units.get(n)
            if not u or tuple(u["dim"]) != dim:
                continue      # a spelling with another reading (e.g. a prefix clash): C13's business
            if rational_only and (u["mult"][0] == "x" or u["off"][0] == "x"):
                continue
            if u["off"][1] != 0:
                continue      # offset units only in dedicated cases
            good.append(n)
        if good:
            pool_for[dim] = good
    dims = [dm for dm in pool_for if any(dm)]
    dims = sorted(dims, key=lambda dm: -len(pool_for[dm]))[:8]
    zero = tuple([0] * len(d["base_units"]))
    if zero in pool_for:
        dims.append(zero)
    trees = []
    # --- exhaustive-small: operator x kind pair x dimension relation
    L = lambda n: ("lit", ("lit", n))
    length = next(dm for dm in dims if list(dm).count(1) == 1 and dm[1] == 1 and sum(map(abs, dm)) == 1)
    time_ = next(dm for dm in dims if sum(map(abs, dm)) == 1 and dm[2] == 1)
    ulen = pool_for[length][:6]
    utime = pool_for[time_][:4]
    Q = lambda n, u: ("tag", L(n), ([(u, 1)], []))
    for op in QOP:
        for a in [Q(6, ulen[0]), Q(3, ulen[1]), L(2), Q(5, "rad") if "rad" in units else L(5), Q(4, utime[0])]:
            for b in [Q(2, ulen[0]), Q(7, ulen[2 % len(ulen)]), L(3), Q(2, utime[0]), L(0)]:
                trees.append(("bin", op, a, b))
    for c in QCMP:
        for a in [Q(6, ulen[0]), L(2), Q(1, utime[0]), Q(5, "rad") if "rad" in units else L(5)]:
            for b in [Q(600, ulen[1]), L(2), Q(60, utime[1 % len(utime)]), L(5)]:
                trees.append(("cmp", c, a, b))
    for u in ulen:
        for v in ulen + utime[:1]:
            trees.append(("conv", Q(3, u), ([(v, 1)], [])))
            trees.append(("conv", ("tag", ("conv", Q(7, u), ([(v, 1)], [])), ([(v, 1)], [])), ([(u, 1)], [])))
    # compound signatures with negative exponents
    for s in [([(ulen[0], 1)], [(utime[0], 2)]), ([(ulen[0], 2), (utime[0], -1)], []), ([(ulen[1], 1)], [(utime[1 % len(utime)], 1), (ulen[0], -1)]),
              ([("kg", 1), (ulen[0], 1)], [(utime[0], 2)])]:
        if all(n in units for n, _ in s[0] + s[1]):
            trees.append(("tag", L(3), s))
            trees.append(("conv", ("tag", L(3), s), s))
            trees.append(("bin", "QAdd", ("tag", L(3), s), ("tag", L(4), s)))
            trees.append(("bin", "QAdd", ("tag", L(3), s), Q(1, ulen[0])))
    # compound signatures over units with non-trivial factors and every small exponent, on either side
    # of `|`, converted to another spelling of the same dimension (factor composition, C04)
    alts = [n for n in ("km", "cm", "mm", "kilometre") if n in units] or ulen[:2]
    talts = [n for n in ("min", "h", "ms", "hour", "d") if n in units] or utime[:2]
    for e1 in (-3, -2, -1, 1, 2, 3):
        for e2 in (-2, -1, 1, 2):
            for (ua, ta) in [(alts[0], talts[0]), (alts[-1], talts[-1])]:
                s1 = ([(ua, e1)], [(ta, e2)])
                s2 = ([(ulen[0], e1), (utime[0], -e2)], [])
                s3 = ([(ua, e1), (ta, -e2)], [])
                trees.append(("conv", ("tag", L(7), s1), s2))
                trees.append(("conv", ("tag", L(7), s3), s1))
                trees.append(("bin", "QAdd", ("tag", L(1), s1), ("tag", L(1), s2)))
    # near-miss dimensions: same units, exponents differing by one (accepted iff equal)
    for a in range(-3, 4):
        for b in range(-3, 4):
            sa, sb = ([(ulen[0], 1), (utime[0], a)], []), ([(ulen[0], 1), (utime[0], b)], [])
            if a and b:
                trees.append(("bin", "QAdd", ("tag", L(1), sa), ("tag", L(2), sb)))
                trees.append(("conv", ("tag", L(6), sa), sb))
                trees.append(("cmp", "QLe", ("tag", L(1), sa), ("tag", L(2), sb)))
    # offset units in every position
    for n in ("degC", "degF"):
        if n in units:
            trees += [Q(25, n), ("conv", Q(25, n), ([("K", 1)], [])), ("conv", Q(300, "K"), ([(n, 1)], [])),
                      ("conv", Q(25, "degC"), ([("degF", 1)], [])), ("conv", Q(-40, "degF"), ([("degC", 1)], [])),
                      ("tag", L(1), ([(n, 2)], [])), ("tag", L(1), ([(n, 1), ("m", 1)], [])), ("tag", L(1), ([("m", 1)], [(n, 1)])),
                      ("conv", Q(25, n), ([(n, 1)], [])), ("bin", "QAdd", Q(1, n), Q(1, "K"))]
    n_exh = len(trees)
    seen = set()
    out = []
    for t in trees:
        s = ka_text(t)
        if s not in seen:
            seen.add(s)
            out.append(t)
    tries = 0
    while len(out) < n_exh + n_rand and tries < n_rand * 6:
        tries += 1
        want = rng.choice(dims + [None, None])
        t = rand_q(rng, rng.choice([1, 2, 2, 3, 4]), pool_for, dims, want)
        s = ka_text(t)
        if s in seen or len(s) > 500:
            continue
        seen.add(s)
        out.append(t)
    if ctx.get("replay"):
        r = json.load(open(ctx["replay"]))
        out = [totuple(x["tree"]) for x in [r["replay"]] + r.get("more", []) if "tree" in x]
    need = set()
    for t in out:
        unit_names_in(t, need)
    missing = [n for n in need if n not in units]
    if missing:
        res2 = C.run_impl(resolve_units, [missing], ctx["rundir"], limit=120.0, procs=1)[0]
        units.update({n: u for n, u in res2.items() if isinstance(u, dict)})
    out = [t for t in out if all(n in units for n in unit_names_in(t, set()))]
    return out, units, len(d["base_units"]), n_exh


def run_both(ctx, trees, units, ndims):
    texts = [ka_text(t) for t in trees]
    obs = C.run_impl(impl_case, texts, ctx["rundir"], limit=10.0)
    model = None
    if ctx["model_ok"]:
        model = C.run_model(ctx["rundir"], "qty", IMPORTS, "fun e => show_res show_qval (qeval %d%%nat e)" % ndims,
                            ["(%s)" % coq_term(t, units) for t in trees], shard=200)
    return texts, obs, model
