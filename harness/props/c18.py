"""C18 — samples stay in support, follow P(), and are reproducible from the seed.
Theorems: coq/Properties/C18.v (support of every sampler for all u in [0,1); size of sample(X, n);
inverse-transform facts against Prob.v's cdf functions; outputs after seed(k) a function of k and
the operation sequence).
Tie (a) fed draws: random.random is replaced in the worker by a feeder that returns prescribed
exactly-representable draws and counts consumption; the same draws go to execute('sample(..)')
and to the Gallina samplers in the Coq VM (discrete laws exact, Uniform within 1e-12,
Exponential/Gaussian/Geometric support and consumption only: log/erfinv are external).
(b) directly on the implementation with the real generator: support of many samples, sizes,
rand range, reproducibility in one process and across fresh processes with different
PYTHONHASHSEED, and the DKW band against the implementation's own P(X <= t) — the last is
statistical supporting evidence only."""
import random, math, json, os, sys, subprocess
from fractions import Fraction
import common as C

ID = "C18"
COQ_TARGETS = ["Properties/C18.vo", "GenFacts/SamplingSrcFacts.vo"]
MODEL_TARGETS = ["Model/Sampling.vo"]
IMPORTS = "From Ka Require Import Model.Sampling.\nOpen Scope string_scope.\nOpen Scope Q_scope.\n"
LEVEL = "proof"
FUEL = 400
ALPHA = 1e-9
U_TOL = Fraction(1, 10 ** 9)      # a discrete sample may sit on the other side of a cdf jump only if u is this close to it
TWO53 = 2 ** 53

DISCRETE = ("Bernoulli", "UniformInt", "Binomial", "Poisson", "Geometric")
VM_LAWS = ("Bernoulli", "UniformInt", "Uniform", "Binomial", "Poisson")


# ------------------------------------------------------------------ rendering
def num_text(x):
    """Ka source text of a parameter (int, Fraction, or float written in plain decimals)"""
    if isinstance(x, float):
        s = repr(x)
        assert "e" not in s and "inf" not in s and "nan" not in s
        return s if x >= 0 else "(%s)" % s
    if isinstance(x, int):
        return str(x) if x >= 0 else "(-%d)" % -x
    if x.denominator == 1:
        return num_text(x.numerator)
    return "%d/%d" % (x.numerator, x.denominator) if x >= 0 else "(-%d/%d)" % (-x.numerator, x.denominator)


def law_text(law):
    return "%s(%s)" % (law[0], ", ".join(num_text(p) for p in law[1:]))


def coq_Q(x):
    f = Fraction(x)
    return "(Qmake %s %d%%positive)" % (C.coq_Z(f.numerator), f.denominator)


def law_coq(law):
    n = law[0]
    if n == "UniformInt":
        return "(UniformInt %s %s)" % (C.coq_Z(law[1]), C.coq_Z(law[2]))
    if n == "Binomial":
        return "(Binomial %s %s)" % (C.coq_Z(law[1]), coq_Q(law[2]))
    return "(%s %s)" % (n, " ".join(coq_Q(p) for p in law[1:]))


def op_text(op):
    if op[0] == "rand":
        return "rand()"
    if op[0] == "sample":
        return "sample(%s)" % law_text(op[1])
    return "sample(%s, %s)" % (law_text(op[1]), num_text(op[2]))


def op_coq(op):
    if op[0] == "rand":
        return "ORand"
    if op[0] == "sample":
        return "OSample %s" % law_coq(op[1])
    return "OSampleN %s %s" % (law_coq(op[1]), C.coq_Z(op[2]))


def valid(law):
    n, p = law[0], [Fraction(x) for x in law[1:]]
    if n == "Binomial":
        return p[0] > 0 and 0 <= p[1] <= 1
    if n in ("Poisson", "Exponential"):
        return p[0] > 0
    if n in ("Geometric", "Bernoulli"):
        return 0 <= p[0] <= 1
    if n in ("UniformInt", "Uniform"):
        return p[0] <= p[1]
    return p[1] > 0      # Gaussian


# ------------------------------------------------------------------ exact oracle (Python Fractions)
def exact_sample(law, draws, expneg):
    """the inverse-transform value the property prescribes for these draws: (value, consumed) with value an
    int, a Fraction (ideal real), or None when the ideal value needs log/erfinv (support-checked only)."""
    n = law[0]
    if n == "Bernoulli":
        return (1 if draws[0] < Fraction(law[1]) else 0), 1
    if n == "UniformInt":
        lo, hi = law[1], law[2]
        return math.floor(lo + draws[0] * (hi - lo + 1)), 1
    if n == "Uniform":
        lo, hi = Fraction(law[1]), Fraction(law[2])
        return lo + draws[0] * (hi - lo), 1
    if n == "Binomial":
        k = law[1]
        return sum(1 for u in draws[:k] if u < Fraction(law[2])), k
    if n == "Poisson":
        mu, e, u = Fraction(law[1]), expneg, draws[0]
        if mu > 30:
            # oracle-only range (not run in the VM): 60-digit decimals, true exp(-mu) (the double underflows from mu = 746)
            import decimal
            with decimal.localcontext() as dc:
                dc.prec = 60
                dm, du = decimal.Decimal(int(mu)), decimal.Decimal(u.numerator) / decimal.Decimal(u.denominator)
                term, p, k = (-dm).exp(), decimal.Decimal(0), 0
                while k < 20000:
                    p += term
                    if p > du:
                        return k, 1
                    k += 1
                    term = term * dm / k
            return None, 1
        p, k, term = Fraction(0), 0, e
        while k < 5000:
            p += term
            if p > u:
                return k, 1
            k += 1
            term = term * mu / k
        return None, 1
    if n == "Geometric" and Fraction(law[1]) == 1:
        return 1, 0
    return None, 1


def in_support(law, v):
    """v: python int/float as delivered; the support the property promises"""
    n = law[0]
    if isinstance(v, bool) or not isinstance(v, (int, float)):
        return False
    if isinstance(v, float) and not math.isfinite(v):
        return False
    if n in DISCRETE and not isinstance(v, int):
        return False
    if n == "Bernoulli":
        return v in (0, 1)
    if n == "UniformInt":
        return law[1] <= v <= law[2]
    if n == "Binomial":
        return 0 <= v <= law[1]
    if n == "Poisson":
        return v >= 0
    if n == "Geometric":
        return v >= 1
    if n == "Uniform":        # bounds that are not doubles are themselves rounded
        lo, hi = Fraction(law[1]), Fraction(law[2])
        tol = Fraction(1, 10 ** 12) * max(1, abs(lo), abs(hi))
        return lo - tol <= Fraction(v) <= hi + tol
    if n == "Exponential":
        return v >= 0
    return True


# ------------------------------------------------------------------ worker side
def _exec(text, env, keep=False):
    import io
    from ka.interpret import execute

    class Box:
        value = None
    o, e, box = io.StringIO(), io.StringIO(), Box()
    r = {"text": text}
    try:
        st = execute(text, env, out=o, errout=e, result_box=box)
        r.update(status=st, out=o.getvalue(), err=e.getvalue(), value=C.enc_value(box.value) if st == 0 else None)
        if keep:
            r["obj"] = box.value
    except C.CaseTimeout:
        raise
    except BaseException as x:
        r.update(status=None, escaped=type(x).__name__, out=o.getvalue(), err=e.getvalue(), value=None)
    return r


def impl_fed(case):
    """run the texts in one session with random.random replaced by a feeder of prescribed draws"""
    import random as R
    from ka.eval import EvalEnvironment
    draws = [float.fromhex(h) for h in case["draws"]]
    st = {"i": 0, "over": False}

    def feeder():
        i = st["i"]
        st["i"] = i + 1
        if i < len(draws):
            return draws[i]
        st["over"] = True
        return 0.5
    saved = R.random
    R.random = feeder
    outs = []
    try:
        env = EvalEnvironment()
        for text in case["texts"]:
            before = st["i"]
            r = _exec(text, env)
            r["consumed"] = st["i"] - before
            r["first"] = before
            outs.append(r)
    finally:
        R.random = saved
    return {"outs": outs, "total": st["i"], "over": st["over"]}


def _law_obj(env, law):
    r = _exec("X = %s" % law_text(law), env)
    return env._variables.get("X") if r.get("status") == 0 else None


def impl_direct(task):
    """checks that use the real generator; everything heavy happens here and a summary comes back"""
    import ka.functions as F
    from ka.eval import EvalEnvironment
    from ka.types import Array
    kind = task["kind"]
    env = EvalEnvironment()
    if kind == "support":
        law, n = totuple(task["law"]), task["n"]
        _exec("seed(%d)" % task["seed"], env)
        r = _exec("sample(%s, %d)" % (law_text(law), n), env, keep=True)
        if r.get("status") != 0 or not isinstance(r.get("obj"), Array):
            return dict(task=task, failed=True, status=r.get("status"), err=r.get("err", "")[:200], escaped=r.get("escaped"))
        vals = r["obj"].contents
        bad = [repr(v) for v in vals if not in_support(law, v)]
        singles = []
        for _ in range(min(50, n)):
            q = _exec("sample(%s)" % law_text(law), env, keep=True)
            if q.get("status") != 0 or not in_support(law, q.get("obj")):
                singles.append(dict(status=q.get("status"), value=q.get("value"), err=q.get("err", "")[:120], escaped=q.get("escaped")))
        return dict(task=task, failed=False, count=len(vals), bad=bad[:5], nbad=len(bad), singles=singles[:5],
                    lo=repr(min(vals)) if vals else None, hi=repr(max(vals)) if vals else None)
    if kind == "count":
        law = totuple(task["law"])
        _exec("seed(%d)" % task["seed"], env)
        res = []
        for n in task["sizes"]:
            a = _exec("size(sample(%s, %s))" % (law_text(law), num_text(n)), env)
            b = _exec("sample(%s, %s)" % (law_text(law), num_text(n)), env, keep=True)
            ln = len(b["obj"].contents) if b.get("status") == 0 and isinstance(b.get("obj"), Array) else None
            res.append(dict(n=n, size_value=a.get("value"), size_status=a.get("status"), array_len=ln, array_status=b.get("status"),
                            err=(a.get("err") or b.get("err") or "")[:160], escaped=a.get("escaped") or b.get("escaped")))
        return dict(task=task, res=res)
    if kind == "rand":
        _exec("seed(%d)" % task["seed"], env)
        bad, n = [], 0
        r = _exec("{rand() : i in 1..%d}" % task["n"], env, keep=True)
        vals = list(r["obj"].contents) if r.get("status") == 0 else None
        if vals is None:
            return dict(task=task, failed=True, err=r.get("err", "")[:200], escaped=r.get("escaped"))
        for _ in range(task["singles"]):
            q = _exec("rand()", env, keep=True)
            vals.append(q.get("obj") if q.get("status") == 0 else ("status", q.get("status"), q.get("escaped")))
        for v in vals:
            n += 1
            if isinstance(v, bool) or not isinstance(v, (int, float)) or not (0 <= v < 1):
                bad.append(repr(v))
        return dict(task=task, failed=False, count=n, bad=bad[:5], nbad=len(bad), distinct=len(set(map(repr, vals))))
    if kind == "repro":
        texts = task["texts"]
        runs = []
        for junk in task["junk"]:
            for t in junk:
                _exec(t, env)
            _exec("seed(%s)" % num_text(task["k"]), env)
            runs.append([(lambda r: (r.get("status"), r.get("value"), r.get("out"), r.get("escaped")))(_exec(t, env)) for t in texts])
        return dict(task=task, runs=runs)
    if kind == "dkw":
        law, n = totuple(task["law"]), task["n"]
        X = _law_obj(env, law)
        _exec("seed(%d)" % task["seed"], env)
        r = _exec("sample(X, %d)" % n, env, keep=True)
        if X is None or r.get("status") != 0:
            return dict(task=task, failed=True, err=r.get("err", "")[:200], escaped=r.get("escaped"))
        vals = r["obj"].contents

        def cdf(t):
            return float(F.dispatch("P", (F.dispatch("<=", (X, t)),)))
        worst, at = 0.0, None
        if law[0] in DISCRETE:
            cnt = {}
            for v in vals:
                cnt[v] = cnt.get(v, 0) + 1
            lo, hi = min(cnt), max(cnt)
            acc = 0
            for t in range(lo - 1, hi + 2):
                acc += cnt.get(t, 0)
                d = abs(acc / n - cdf(t))
                if d > worst:
                    worst, at = d, t
        else:
            xs = sorted(float(v) for v in vals)
            for i, x in enumerate(xs):
                fx = cdf(x)
                d = max(abs(fx - (i + 1) / n), abs(fx - i / n))
                if d > worst:
                    worst, at = d, x
        # the thresholds evaluated through dispatch are the same numbers execute('P(X <= t)') prints
        tie = []
        for t in task["tie_at"]:
            q = _exec("P(X <= %s)" % num_text(t), env, keep=True)
            tie.append((repr(t), repr(float(q["obj"])) if q.get("status") == 0 else None, repr(cdf(t))))
        return dict(task=task, failed=False, n=len(vals), D=worst, at=repr(at), tie=tie)
    raise ValueError(kind)


CROSS_SCRIPT = r'''
import sys, io
sys.path.insert(0, %r)
from ka.interpret import execute
from ka.eval import EvalEnvironment
class Box: value = None
env = EvalEnvironment()
for t in %r:
    o, e, b = io.StringIO(), io.StringIO(), Box()
    st = execute(t, env, out=o, errout=e, result_box=b)
    sys.stdout.write("%%r|%%s|%%r\n" %% (st, o.getvalue().strip(), b.value))
'''


def cross_process(texts, junk, hashseed, rundir):
    home = os.path.join(rundir, "home")
    os.makedirs(home, exist_ok=True)
    env = dict(os.environ, HOME=home, PYTHONHASHSEED=str(hashseed))
    env.pop("PYTHONPATH", None)
    p = subprocess.run([sys.executable, "-B", "-c", CROSS_SCRIPT % (C.SRC, list(junk) + list(texts))], env=env,
                       stdout=subprocess.PIPE, stderr=subprocess.PIPE, text=True, timeout=120)
    lines = p.stdout.splitlines()
    return lines[len(junk):], p.returncode, p.stderr[-300:]


# ------------------------------------------------------------------ parsing of observations
def parse_model_val(s):
    if s == "N":
        return ("none",)
    if s.startswith("E:"):
        return ("err", s[2:])
    if s.startswith("A:["):
        body = s[3:-1]
        return ("arr", [parse_model_val(x) for x in body.split(";")] if body else [])
    if s.startswith("I:"):
        return ("int", int(s[2:]))
    if s.startswith("X:"):
        a, b = s[2:].split("/")
        return ("flt", Fraction(int(a), int(b)))
    raise ValueError("model value %r" % s)


def parse_impl_val(s):
    if s is None or s == "N":
        return ("none",)
    if s.startswith("A:["):
        body = s[3:-1]
        return ("arr", [parse_impl_val(x) for x in body.split(";")] if body else [])
    if s.startswith("I:"):
        return ("int", int(s[2:]))
    if s.startswith("X:"):
        return ("flt", float.fromhex(s[2:]))
    if s.startswith("F:"):
        a, b = s[2:].split("/")
        return ("frac", Fraction(int(a), int(b)))
    return ("other", s)


def py_value(pv):
    """('int',5)/('flt',x) -> python number"""
    return pv[1]


# ------------------------------------------------------------------ case generation
def boundary_draws():
    return [Fraction(0), Fraction(1, TWO53), Fraction(1, 2), Fraction(TWO53 - 1, TWO53)]


def rand_draw(rng):
    r = rng.random()
    if r < 0.5:
        return Fraction(rng.randrange(2 ** 20), 2 ** 20)
    if r < 0.9:
        return Fraction(rng.randrange(TWO53), TWO53)
    return rng.choice(boundary_draws())


F_ = Fraction
VM_PARAMS = {
    "Bernoulli": [(F_(0),), (F_(1),), (F_(1, 2),), (F_(1, 3),), (0.3,), (F_(1, TWO53),), (F_(999, 1000),)],
    "UniformInt": [(1, 6), (0, 0), (-5, 5), (0, 1), (1, 10 ** 6), (-10 ** 9, 10 ** 9), (0, TWO53 - 1), (7, 7), (-3, -1)],
    "Uniform": [(F_(0), F_(1)), (F_(2), F_(2)), (F_(1, 10), F_(3, 10)), (F_(-5), F_(5)), (0.1, 0.3), (F_(1), F_(1) + F_(1, 2 ** 52)),
                (F_(-7, 2), F_(22, 7)), (F_(0), F_(10 ** 6))],
    "Binomial": [(1, F_(1, 2)), (3, F_(1, 2)), (10, F_(1, 3)), (20, 0.9), (5, F_(0)), (5, F_(1)), (2, F_(1, TWO53))],
    "Poisson": [(1,), (2,), (3,), (5,), (10,), (20,), (30,)],
}
INVALID = [("Binomial", 0, F_(1, 2)), ("Binomial", 3, F_(3, 2)), ("Bernoulli", F_(2)), ("Bernoulli", F_(-1, 2)), ("UniformInt", 3, 1),
           ("Uniform", F_(3), F_(1)), ("Poisson", 0), ("Geometric", F_(3, 2)), ("Exponential", F_(0)), ("Gaussian", F_(0), F_(0))]
EXT_PARAMS = {
    "Exponential": [(F_(1),), (F_(3, 2),), (0.25,), (F_(1000),)],
    "Geometric": [(F_(1),), (F_(1, 2),), (F_(1, 1000),), (0.999,), (F_(1, 4),)],
    "Gaussian": [(F_(0), F_(1)), (F_(1), F_(2)), (F_(-50), F_(1, 10)), (2.5, 0.5)],
}
# inputs chosen by reading the code for float trouble (see the report of findings); each is a valid law
CRITICAL = [
    ("UniformInt", TWO53 + 3, TWO53 + 3), ("UniformInt", 10 ** 17 + 1, 10 ** 17 + 7), ("UniformInt", -(TWO53 + 3), 0),
    ("UniformInt", 100, 105), ("UniformInt", 10 ** 9, 10 ** 9 + 5), ("UniformInt", 10 ** 15, 10 ** 15 + 5),
    ("UniformInt", 0, 2 ** 60), ("UniformInt", 1, TWO53 + 2), ("UniformInt", -2 ** 62, 2 ** 62), ("UniformInt", 0, 10 ** 400),
    ("Poisson", 50), ("Poisson", 100), ("Poisson", 150), ("Poisson", 800), ("Poisson", 2000),
    ("Geometric", F_(1, 10 ** 17)), ("Geometric", F_(0)),
    ("Uniform", F_(-10 ** 300), F_(10 ** 300)), ("Exponential", F_(1, 10 ** 300)), ("Gaussian", F_(0), F_(10 ** 300)),
]
SIZES = [-2, 0, 1, 2, 5]


def all_laws(pool):
    return [(n,) + p for n, ps in pool.items() for p in ps]


def draws_needed(op):
    if op[0] == "rand":
        return 1
    per = op[1][1] if op[1][0] == "Binomial" and isinstance(op[1][1], int) and op[1][1] > 0 else 1
    return per * (1 if op[0] == "sample" else max(op[2], 0))


def mk_case(ops, draws, tag):
    return dict(ops=ops, draws=draws, tag=tag)


def gen_fed_cases(rng, tier):
    cases = []
    vm = all_laws(VM_PARAMS)
    ext = all_laws(EXT_PARAMS)
    # exhaustive slice: every law/parameter set x every boundary draw, single and multiple
    for law in vm + ext + CRITICAL:
        for u in boundary_draws() + [Fraction(5, 8), Fraction(3, 2 ** 20)]:
            pad = [u] * 25
            cases.append(mk_case([("sample", law)], pad, "boundary"))
        cases.append(mk_case([("samplen", law, 3)], (boundary_draws() + [Fraction(1, 4)]) * 15, "boundary-array"))
    for law in INVALID:
        cases.append(mk_case([("sample", law), ("samplen", law, 2), ("rand",)], [Fraction(1, 4)] * 8, "invalid-params"))
    for law in [("Bernoulli", F_(1, 2)), ("UniformInt", 1, 6), ("Binomial", 3, F_(1, 2)), ("Exponential", F_(1)), ("Geometric", F_(1, 2))]:
        for n in SIZES + [100]:
            cases.append(mk_case([("samplen", law, n), ("rand",)], [rand_draw(rng) for _ in range(3 * max(n, 0) + 3)], "sizes"))
    # regression corpus
    cases.append(mk_case([("sample", ("Geometric", F_(1)))], [], "regression"))
    cases.append(mk_case([("sample", ("Geometric", F_(1, 3)))], [Fraction(0)], "regression"))
    cases.append(mk_case([("samplen", ("Binomial", 3, F_(1, 2)), 0)], [], "regression"))
    # seeded random histories
    n_rand = 500 if tier == "quick" else 6000
    for _ in range(n_rand):
        k = rng.choice([1, 1, 2, 3, 4, 5])
        ops = []
        for _ in range(k):
            r = rng.random()
            if r < 0.15:
                ops.append(("rand",))
                continue
            law = rng.choice(vm) if rng.random() < 0.8 else rng.choice(ext)
            if rng.random() < 0.06:
                law = rng.choice(INVALID)
            ops.append(("sample", law) if r < 0.65 else ("samplen", law, rng.choice(SIZES + [3, 8])))
        need = sum(draws_needed(o) for o in ops) + 4
        cases.append(mk_case(ops, [rand_draw(rng) for _ in range(need)], "random"))
    return cases


def case_key(c):
    return json.dumps([[op_text(o) for o in c["ops"]], [str(d) for d in c["draws"]]])


# ------------------------------------------------------------------ the check
def run(ctx):
    C.expect_sessions(ctx["report"], ctx["rundir"], "C18",
                      [(["size(sample(Bernoulli(1/2), 1000001))"], "I:1000001", "sample(X, n) returns exactly n values beyond a million"),
                       (["size(sample(UniformInt(1, 6), 1000000))"], "I:1000000", "sample(X, n) returns exactly n values at a million"),
                       (["seed(3)", "zs = sample(Binomial(1000001, 0.000001), 30)", "(min(zs) >= 0) + (max(zs) <= 1000001)"], "I:2", "Binomial with more than a million trials stays in 0..n (p near 0)"),
                       (["seed(2)", "zs = sample(Binomial(1000001, 0.999999), 30)", "(min(zs) >= 0) + (max(zs) <= 1000001)"], "I:2", "Binomial with more than a million trials stays in 0..n (p near 1)"),
                       (["seed(7)", "za = sample(Poisson(1000001))", "seed(7)", "zb = sample(Poisson(1000001))", "(za == zb) + (za >= 0)"], "I:2", "Poisson with a mean beyond a million is reproducible from the seed")],
                      kind="heavy-regime")
    rep, tier, seed = ctx["report"], ctx["tier"], ctx["seed"]
    rng = random.Random(seed * 9176 + 18)
    replay_fed, replay_direct = None, None
    if ctx.get("replay"):
        r = json.load(open(ctx["replay"]))
        items = [r["replay"]] + r.get("more", [])
        replay_fed = [x["fed"] for x in items if "fed" in x]
        replay_direct = [x["direct"] for x in items if "direct" in x]
    if replay_fed is not None:
        fed = [dict(ops=[totuple(o) for o in c["ops"]], draws=[Fraction(d) for d in c["draws"]], tag=c.get("tag", "replay")) for c in replay_fed]
    else:
        fed = gen_fed_cases(rng, tier)
    seen, uniq = set(), []
    for c in fed:
        k = case_key(c)
        if k not in seen:
            seen.add(k)
            uniq.append(c)
    fed = uniq
    stats = dict(fed_cases=len(fed), fed_ops=0, exact_agree=0, tol_agree=0, float_boundary=0, support_only=0, errors_agree=0,
                 accepted_failures=0, disagreements=0)
    hist = {}
    samples = []
    nontrivial = set()

    # ---- (a) fed draws: implementation
    icases = [dict(texts=[op_text(o) for o in c["ops"]], draws=[float(d).hex() for d in c["draws"]]) for c in fed]
    for c in fed:
        for d in c["draws"]:
            assert Fraction(float(d)) == d
    import time
    t0 = time.time()
    iobs = C.run_impl(impl_fed, icases, ctx["rundir"], limit=5.0)
    C.log("c18: fed implementation runs %.1fs (%d cases)" % (time.time() - t0, len(icases)))
    # ---- model in the Coq VM
    mobs = None
    vm_idx = [i for i, c in enumerate(fed) if vm_eligible(c)]
    if ctx["model_ok"] and vm_idx:
        terms = []
        for c in (fed[i] for i in vm_idx):
            mus = sorted(set(o[1][1] for o in c["ops"] if o[0] != "rand" and o[1][0] == "Poisson" and Fraction(o[1][1]) > 0))
            tbl = "[%s]" % "; ".join("(%s, %s)" % (coq_Q(m), coq_Q(expneg_of(m))) for m in mus)
            terms.append("(%s, [%s], [%s])" % (tbl, "; ".join(op_coq(o) for o in c["ops"]), "; ".join(coq_Q(d) for d in c["draws"])))
        mobs = C.run_model(ctx["rundir"], "c18", IMPORTS,
                           "fun c : list (Q * Q) * list op * list Q => let '(tbl, ops, dr) := c in vm_run tbl %d ops dr" % FUEL,
                           terms, shard=100, case_type="list (Q * Q) * list op * list Q")
        mobs = dict(zip(vm_idx, mobs))
    C.log("c18: model runs done at %.1fs" % (time.time() - t0))
    for i, (c, o) in enumerate(zip(fed, iobs)):
        rp = dict(fed=dict(ops=c["ops"], draws=[str(d) for d in c["draws"]], tag=c["tag"]))
        if o.get("hung"):
            laws = [law_name(x) for x in c["ops"]]
            rep.violation(dict(kind="hang", law="Poisson" if "Poisson" in laws else laws[0]),
                          "C18 fails: no result within 5 s (sampling loop does not end) for %s with prescribed draws %s" % (
                              "; ".join(op_text(x) for x in c["ops"]), [str(d) for d in c["draws"][:3]]), rp)
            continue
        mvals, mposs = None, None
        if mobs is not None and i in mobs:
            parts = [x.rpartition("@") for x in mobs[i].split("|")] if mobs[i] else []
            mvals, mposs = [x[0] for x in parts], [int(x[2]) for x in parts]
        flagged = len(rep.violations)
        for j, (op, r) in enumerate(zip(c["ops"], o["outs"])):
            stats["fed_ops"] += 1
            text = op_text(op)
            pos = r["first"]
            used = c["draws"][pos:pos + r["consumed"]]
            m = parse_model_val(mvals[j]) if mvals is not None else None
            if m is not None and (mposs[j - 1] if j else 0) != pos:
                m = None        # the model is at another stream position: an earlier operation of this case disagreed (reported there)
            verdict = judge_op(op, r, used, c["draws"][pos:], m, rep, rp, text, stats)
            hist[verdict] = hist.get(verdict, 0) + 1
            if op[0] != "rand" and valid(op[1]):
                nontrivial.add((text, tuple(str(d) for d in used)))
            if len(samples) < 8 and (i * 7 + j) % 131 == 3:
                samples.append(dict(input=text[:120], draws=[str(d) for d in used[:4]], impl=(r.get("value") or "")[:120] if r.get("status") == 0 else (r.get("err") or "")[:60],
                                    model=mvals[j][:120] if mvals is not None else None, verdict=verdict))
        if o["over"]:
            rep.violation(dict(kind="harness-draws-exhausted"), "the feeder ran out of prescribed draws for %s" % case_key(c)[:200], rp, found_input=False)
        if mposs and mposs[-1] != o["total"] and len(rep.violations) == flagged \
                and not any(bad_for_consumption(op, r) for op, r in zip(c["ops"], o["outs"])):
            stats["disagreements"] += 1
            rep.violation(dict(kind="correspondence", what="draws-consumed"),
                          "model consumes %d draws, implementation %d, for %s" % (mposs[-1], o["total"], "; ".join(op_text(x) for x in c["ops"])), rp, found_input=False)

    # ---- (b) real generator
    if replay_direct is not None:
        tasks = replay_direct
    elif replay_fed is not None:
        tasks = []
    else:
        tasks = gen_direct_tasks(tier, seed)
    dres = C.run_impl(impl_direct, tasks, ctx["rundir"], limit=240.0, chunksize=1) if tasks else []
    C.log("c18: direct tasks done at %.1fs" % (time.time() - t0))
    direct = dict(support_samples=0, count_checks=0, rand_values=0, repro_runs=0, dkw=[])
    for t, d in zip(tasks, dres):
        judge_direct(t, d, rep, direct)
    if replay_fed is None and replay_direct is None:
        cross_checks(ctx, rep, direct, seed)

    rep.coverage.update(dict(
        evaluations=stats["fed_ops"] + direct["support_samples"] + direct["count_checks"] + direct["rand_values"] + direct["repro_runs"]
        + sum(x["n"] for x in direct["dkw"]),
        distinct_nontrivial=len(nontrivial),
        rule="fed-draw lane: every law/parameter set (%d modelled in the VM, %d support-only, %d chosen for float trouble) x boundary draws {0, 2^-53, 1/2, 1-2^-53, 5/8, 3/2^20} as sample(X) and sample(X,3); invalid parameters; sizes {-2,0,1,2,5,100}; plus seeded random histories of 1-5 operations (rand / sample X / sample X n) on draws k/2^20, m/2^53 and the boundary draws; distinct by (operation text, draws consumed); non-trivial = a sample operation on a valid law" % (
            len(all_laws(VM_PARAMS)), len(all_laws(EXT_PARAMS)), len(CRITICAL)),
        exhaustive=False, samples=samples, outcome_histogram=hist, fed=stats, direct={k: v for k, v in direct.items() if k != "dkw"},
        dkw=dict(label="STATISTICAL SUPPORTING EVIDENCE ONLY (alpha=%g per law; not a proof): sup_t |F_n(t) - P(X<=t)| against the implementation's own P()" % ALPHA,
                 results=direct["dkw"]),
        traces_validated_against_impl=stats["fed_ops"], disagreements=stats["disagreements"],
        kernel_lane_cases=len(mobs) if mobs else 0, oracle_only_cases=len(fed) - len(vm_idx)))
    rep.assumptions += [
        "random.random() (Mersenne Twister) is external: its range [0,1) is a hypothesis of the _partial theorems and is checked on observed values only; that it is uniform is not provable here (DKW band = statistical evidence)",
        "random.seed(k) determining the subsequent sequence is the generator's contract (modelled as init : Z -> stream); tied by in-process and fresh-process reproducibility runs",
        "math.log, utils.erfinv/ndtri, math.sqrt, math.exp are external: Exponential/Geometric/Gaussian samples are support- and consumption-checked only; exp(-mu) enters the model as the double the implementation computed",
        "float rounding inside the samplers is not modelled: Uniform is compared within 1e-12, a discrete sample may differ from the exact transform only when u is within 1e-9 of a cdf jump (counted as float_boundary)",
        "a diagnosed error instead of a sample is accepted only where the ideal sample is not a finite number (Gaussian at u = 0, Geometric(0))",
    ]


def vm_eligible(c):
    """big Poisson means are left to the Python oracle: mu^k/k! over hundreds of iterations is slow in the VM"""
    return not any(o[0] != "rand" and o[1][0] == "Poisson" and Fraction(o[1][1]) > 30 for o in c["ops"])


def expneg_of(mu):
    try:
        return Fraction(math.exp(-float(mu)))
    except OverflowError:
        return Fraction(0)


def law_name(op):
    return op[1][0] if op[0] != "rand" else "rand"


def bad_for_consumption(op, r):
    """the model's consumption is not comparable when the implementation failed inside an operation"""
    return r.get("status") != 0 and op[0] != "rand" and valid(op[1])


def is_param_error(r):
    e = r.get("err") or ""
    return r.get("status") == 1 and ("must be" in e or "requires" in e or "ound must" in e or "does not accept" in e)


def flat_values(pv):
    if pv[0] == "arr":
        return [x for e in pv[1] for x in flat_values(e)]
    return [pv]


def judge_op(op, r, used, rest, m, rep, rp, text, stats):
    """one operation under fed draws: implementation observation r, draws it consumed, model value m"""
    if r.get("escaped"):
        rep.violation(dict(kind="escaped", exc=r["escaped"], law=law_name(op)), "%s escapes with %s (draws %s)" % (text, r["escaped"], [str(u) for u in used[:3]]), rp)
        return "escaped"
    if op[0] == "rand":
        iv = parse_impl_val(r.get("value"))
        ok = r.get("status") == 0 and iv[0] in ("int", "flt") and len(used) == 1 and Fraction(py_value(iv)) == used[0]
        if not ok:
            rep.violation(dict(kind="rand-value"), "rand() delivered %r for the draw %s" % (r.get("value"), [str(u) for u in used]), rp)
            return "rand-wrong"
        if m is not None and not (m[0] == "flt" and m[1] == used[0]):
            rep.violation(dict(kind="correspondence", what="rand"), "model rand %r vs draw %s" % (m, used[0]), rp, found_input=False)
        stats["exact_agree"] += 1
        return "rand"
    law = op[1]
    name = law[0]
    if not valid(law):
        if is_param_error(r) and r["consumed"] == 0:
            if m is not None and m != ("err", "InvalidParameterException"):
                rep.violation(dict(kind="correspondence", what="invalid-params"), "model gives %r for %s" % (m, text), rp, found_input=False)
            stats["errors_agree"] += 1
            return "invalid-params-rejected"
        rep.violation(dict(kind="invalid-params-accepted", law=name), "%s: invalid parameters not rejected cleanly (status %r, value %r, %d draws)" % (
            text, r.get("status"), r.get("value"), r["consumed"]), rp)
        return "invalid-params-accepted"
    want_n = 1 if op[0] == "sample" else max(op[2], 0)
    # a failed operation on a valid law
    if r.get("status") != 0:
        zero_fed = any(u == 0 for u in used)
        if (name == "Gaussian" and zero_fed) or (name == "Geometric" and Fraction(law[1]) == 0):
            stats["accepted_failures"] += 1
            return "accepted-failure(ideal sample not finite)"
        sig = dict(kind="uniformint-float-arithmetic") if name == "UniformInt" else dict(kind="sample-fails", law=name)
        rep.violation(sig, "C18 fails: %s on a valid law delivers no sample: %s (draws %s)" % (text, (r.get("err") or "").strip()[:90], [str(u) for u in used[:3]]), rp)
        return "sample-fails"
    iv = parse_impl_val(r.get("value"))
    vals = flat_values(iv)
    if (op[0] == "samplen") != (iv[0] == "arr") or len(vals) != want_n:
        rep.violation(dict(kind="count"), "C18 fails: %s delivers %d value(s) (%s), expected %d" % (text, len(vals), r.get("value", "")[:60], want_n), rp)
        return "count-wrong"
    # support of every delivered value
    for v in vals:
        if v[0] == "flt" and not math.isfinite(v[1]):
            rep.violation(dict(kind="non-finite-sample", via=op[0]), "C18 fails: %s delivers the non-finite value %r (draws %s)" % (text, v[1], [str(u) for u in used[:3]]), rp)
            return "non-finite"
        if v[0] not in ("int", "flt") or not in_support(law, py_value(v)):
            sig = dict(kind="uniformint-float-arithmetic") if name == "UniformInt" else dict(kind="out-of-support", law=name)
            rep.violation(sig, "C18 fails: %s delivers %s, outside the support (draws %s)" % (text, r.get("value", "")[:80], [str(u) for u in used[:3]]), rp)
            return "out-of-support"
    # value against the exact transform of the same draws
    e = expneg_of(law[1]) if name == "Poisson" else None
    dr, k, verdicts = list(rest), 0, []
    mvals = flat_values(m) if m is not None and m[0] != "err" else None
    for idx, v in enumerate(vals):
        ex, cons = exact_sample(law, dr[k:], e)
        u = dr[k] if cons else None
        k += cons
        if name not in VM_LAWS:
            verdicts.append("support-only")
            stats["support_only"] += 1
            continue
        mv = mvals[idx] if mvals is not None and idx < len(mvals) else None
        if ex is not None and mv is not None and not (Fraction(py_value(mv)) == ex):
            rep.violation(dict(kind="model-vs-spec", law=name), "Gallina sampler gives %r, the exact transform %r, for %s" % (mv, ex, text), rp, found_input=False)
        if ex is None and m is not None and m[0] != "err" and name == "Poisson":
            ex = py_value(mv)
        if name == "Uniform":
            scale = max(1, abs(Fraction(law[1])), abs(Fraction(law[2])))
            if abs(Fraction(py_value(v)) - ex) <= Fraction(1, 10 ** 12) * scale:
                stats["tol_agree"] += 1
                verdicts.append("agree(1e-12)")
            else:
                stats["disagreements"] += 1
                rep.violation(dict(kind="wrong-value", law=name), "C18 fails: %s delivers %r, the transform of u=%s is %s" % (text, py_value(v), u, float(ex)), rp)
                verdicts.append("wrong-value")
            continue
        if ex is not None and py_value(v) == ex:
            stats["exact_agree"] += 1
            verdicts.append("agree(exact)")
            continue
        # a discrete disagreement: tolerated only across a cdf jump within U_TOL of u (no tolerance for Bernoulli/Binomial:
        # their comparisons are exact in the implementation too)
        okb = False
        if name in ("UniformInt", "Poisson") and u is not None:
            lo_u, hi_u = max(Fraction(0), u - U_TOL), u + U_TOL
            a, _ = exact_sample(law, [lo_u], e)
            b, _ = exact_sample(law, [hi_u], e)
            if name == "Poisson" and b is None:      # u + tol is beyond the total mass e*exp(mu): only the lower bound binds
                b = 10 ** 9
            if name == "UniformInt":
                b = min(b, law[2])
            okb = a is not None and a <= py_value(v) <= b
        if okb:
            stats["float_boundary"] += 1
            if len(stats.setdefault("float_boundary_examples", [])) < 12:
                stats["float_boundary_examples"].append(dict(input=text[:80], u=str(u), impl=py_value(v), exact=ex))
            verdicts.append("float-boundary")
        else:
            stats["disagreements"] += 1
            sig = dict(kind="uniformint-float-arithmetic") if name == "UniformInt" else dict(kind="wrong-value", law=name)
            rep.violation(sig, "C18 fails: %s delivers %r, the inverse transform of u=%s is %r" % (text, py_value(v), u, ex), rp)
            verdicts.append("wrong-value")
    if m is not None and m[0] == "err" and name in VM_LAWS and not (name == "Poisson" and m[1] == "OutOfFuel"):
        rep.violation(dict(kind="correspondence", what="model-error", law=name), "model raises %s where %s delivers %s" % (m[1], text, r.get("value", "")[:60]), rp, found_input=False)
    if k != r["consumed"]:
        rep.violation(dict(kind="draws-consumed", law=name), "%s consumed %d draws, the sampler's definition needs %d" % (text, r["consumed"], k), rp)
        return "consumption-wrong"
    if not verdicts:
        return "empty-array"
    return sorted(set(verdicts))[-1] if "wrong-value" in verdicts else verdicts[0]


# ------------------------------------------------------------------ direct tasks
DKW_LAWS = [("Bernoulli", 0.3), ("UniformInt", 1, 6), ("Binomial", 10, F_(1, 3)), ("Poisson", 4), ("Geometric", F_(1, 4)),
            ("Uniform", F_(2), F_(5)), ("Exponential", F_(3, 2)), ("Gaussian", F_(1), F_(2))]
DKW_MORE = [("Bernoulli", F_(9, 10)), ("UniformInt", -3, 40), ("Binomial", 3, F_(1, 2)), ("Poisson", 1), ("Poisson", 12), ("Geometric", 0.9),
            ("Uniform", F_(-1), F_(1)), ("Exponential", F_(1, 10)), ("Gaussian", F_(-5), F_(1, 3))]
DKW_TIE = {"Bernoulli": [0], "UniformInt": [2, 4], "Binomial": [3], "Poisson": [4], "Geometric": [2], "Uniform": [F_(3), F_(9, 2)],
           "Exponential": [F_(1, 2), F_(2)], "Gaussian": [F_(0), F_(3)]}


def gen_direct_tasks(tier, seed):
    tasks = []
    nsup = 2000 if tier == "quick" else 50000
    laws = all_laws(VM_PARAMS) + all_laws(EXT_PARAMS) + [("UniformInt", 10 ** 15, 10 ** 15 + 5), ("UniformInt", 10 ** 17 + 1, 10 ** 17 + 7),
                                                          # many trials with an extreme probability (a normal approximation would leave 0..n)
                                                          ("Binomial", 2000, 0.0005), ("Binomial", 1500, 0.999), ("Binomial", 1001, F_(1, 2)),
                                                          ("Binomial", 5000, F_(1, 5000)), ("Binomial", 1200, F_(1199, 1200))]
    for i, law in enumerate(laws):
        n = nsup if not (law[0] == "Binomial" and law[1] >= 10) and not (law[0] == "Poisson" and law[1] >= 20) else max(200, nsup // 10)
        tasks.append(dict(kind="support", law=law, n=n, seed=seed * 1000 + i))
    for i, law in enumerate([("Binomial", 3, F_(1, 2)), ("UniformInt", 1, 6), ("Poisson", 2), ("Uniform", F_(0), F_(1)), ("Gaussian", F_(0), F_(1)),
                             ("Geometric", F_(1)), ("Exponential", F_(2)), ("Bernoulli", F_(1, 2))]):
        tasks.append(dict(kind="count", law=law, sizes=[0, 1, 5, 100, -1, -100], seed=seed * 1000 + 500 + i))
    tasks.append(dict(kind="rand", n=3000 if tier == "quick" else 100000, singles=200, seed=seed * 1000 + 900))
    hist = ["rand()", "sample(Binomial(5, 1/3))", "sample(Poisson(3), 4)", "rand()", "sample(Gaussian(0, 1))", "sample(UniformInt(1, 6), 5)",
            "sample(Geometric(1/5))", "sample(Exponential(2), 3)", "sample(Uniform(0, 10))", "sample(Bernoulli(1/2), 8)", "rand()"]
    for k in [0, 1, 42, -7, 10 ** 30, seed + 12345]:
        tasks.append(dict(kind="repro", k=k, texts=hist, junk=[[], ["rand()", "sample(Poisson(2), 7)"], ["seed(99)", "rand()"],
                                                              # an odd and an even number of Gaussian draws before the seed (a sampler that keeps a spare deviate)
                                                              ["sample(Gaussian(0, 1))"], ["sample(Gaussian(3, 2), 3)", "rand()"], ["sample(Gaussian(0, 1), 2)", "sample(Exponential(1))"]]))
    ndkw = 20000 if tier == "quick" else 200000
    for i, law in enumerate(DKW_LAWS + (DKW_MORE if tier != "quick" else [])):
        tasks.append(dict(kind="dkw", law=law, n=ndkw, seed=seed * 1000 + 700 + i, tie_at=DKW_TIE[law[0]]))
    # the inverse-cdf samplers rest on table-driven approximations (erfinv/ndtri): a tighter band for them, in every tier
    for j, law in enumerate([("Gaussian", F_(0), F_(1)), ("Gaussian", F_(1), F_(2)), ("Exponential", F_(3, 2))]):
        tasks.append(dict(kind="dkw", law=law, n=max(ndkw, 150000), seed=seed * 1000 + 780 + j, tie_at=DKW_TIE[law[0]]))
    # a many-trials Binomial with mean 1: the distribution (not only the support) must be the one P() reports
    tasks.append(dict(kind="dkw", law=("Binomial", 1200, F_(1, 1200)), n=ndkw // 4, seed=seed * 1000 + 799, tie_at=[1]))
    # and many-trials Binomials whose mean is large enough for a normal shape: still the distribution P() reports
    tasks.append(dict(kind="dkw", law=("Binomial", 1001, 0.005), n=60000, seed=seed * 1000 + 798, tie_at=[4]))
    tasks.append(dict(kind="dkw", law=("Binomial", 1500, F_(1, 100)), n=12000, seed=seed * 1000 + 797, tie_at=[14]))
    return tasks


def judge_direct(t, d, rep, direct):
    rp = dict(direct=t)
    kind = t["kind"]
    if d.get("hung"):
        rep.violation(dict(kind="hang", task=kind, law=(t.get("law") or ["-"])[0]), "%s task did not finish within the limit: %r" % (kind, t), rp)
        return
    if kind == "support":
        law = totuple(t["law"])
        if d["failed"]:
            rep.violation(dict(kind="sample-fails", law=law[0]), "C18 fails: seed(%d); sample(%s, %d) delivers no array: %s %s" % (
                t["seed"], law_text(law), t["n"], d.get("err"), d.get("escaped")), rp)
            return
        direct["support_samples"] += d["count"] + min(50, t["n"])
        if d["count"] != t["n"]:
            rep.violation(dict(kind="count"), "C18 fails: sample(%s, %d) delivered %d values" % (law_text(law), t["n"], d["count"]), rp)
        if d["nbad"] or d["singles"]:
            rep.violation(dict(kind="uniformint-float-arithmetic") if law[0] == "UniformInt" else dict(kind="out-of-support", law=law[0]), "C18 fails: after seed(%d), sample(%s, %d) delivers %d value(s) outside the support, e.g. %s %s" % (
                t["seed"], law_text(law), t["n"], d["nbad"], d["bad"], d["singles"]), rp)
    elif kind == "count":
        law = totuple(t["law"])
        for x in d["res"]:
            direct["count_checks"] += 2
            want = max(x["n"], 0)
            if x["size_value"] != "I:%d" % want or x["array_len"] != want:
                rep.violation(dict(kind="count"), "C18 fails: size(sample(%s, %d)) = %r, array length %r, expected %d (%s %s)" % (
                    law_text(law), x["n"], x["size_value"], x["array_len"], want, x.get("err"), x.get("escaped")), rp)
    elif kind == "rand":
        if d["failed"]:
            rep.violation(dict(kind="rand-fails"), "rand() failed: %s %s" % (d.get("err"), d.get("escaped")), rp)
            return
        direct["rand_values"] += d["count"]
        if d["nbad"]:
            rep.violation(dict(kind="rand-range"), "C18 fails: rand() outside [0,1): %s" % d["bad"], rp)
        if d["distinct"] < d["count"] * 0.99:
            rep.violation(dict(kind="rand-degenerate"), "rand() returned only %d distinct values in %d calls" % (d["distinct"], d["count"]), rp)
    elif kind == "repro":
        direct["repro_runs"] += len(d["runs"]) * len(t["texts"])
        for a in d["runs"][1:]:
            if a != d["runs"][0]:
                j = next(i for i, (x, y) in enumerate(zip(a, d["runs"][0])) if x != y)
                rep.violation(dict(kind="seed-not-determining", where="one process"),
                              "C18 fails: after seed(%s) the operation %s gives %r in one run and %r in another (different prior generator state)" % (
                                  t["k"], t["texts"][j], d["runs"][0][j][1], a[j][1]), rp)
                break
        if any(x[0] != 0 for x in d["runs"][0]):
            j = next(i for i, x in enumerate(d["runs"][0]) if x[0] != 0)
            rep.violation(dict(kind="sample-fails", law="history"), "operation %s fails after seed(%s): %r" % (t["texts"][j], t["k"], d["runs"][0][j]), rp)
    elif kind == "dkw":
        law = totuple(t["law"])
        if d["failed"]:
            rep.violation(dict(kind="sample-fails", law=law[0]), "C18 fails: sample(%s, %d) for the DKW comparison delivers no array: %s" % (law_text(law), t["n"], d.get("err")), rp)
            return
        eps = math.sqrt(math.log(2 / ALPHA) / (2 * d["n"]))
        direct["dkw"].append(dict(law=law_text(law), n=d["n"], seed=t["seed"], D=round(d["D"], 6), at=d["at"], band=round(eps, 6), inside=d["D"] <= eps))
        if d["D"] > eps:
            rep.violation(dict(kind="dkw-band", law=law[0]),
                          "C18 (statistical): %d samples of %s after seed(%d) deviate from the implementation's own P(X<=t) by %.5f at t=%s, DKW band %.5f (alpha=%g)" % (
                              d["n"], law_text(law), t["seed"], d["D"], d["at"], eps, ALPHA), rp)
        for tt, via_text, via_dispatch in d["tie"]:
            if via_text is None or abs(float(via_text) - float(via_dispatch)) > 1e-12:
                rep.violation(dict(kind="harness-cdf-tie"), "P(X <= %s) through execute gives %s, through dispatch %s for %s" % (tt, via_text, via_dispatch, law_text(law)),
                              rp, found_input=False)


def cross_checks(ctx, rep, direct, seed):
    """fresh interpreter processes with different PYTHONHASHSEED (and different activity before the seed)"""
    hist = ["rand()", "sample(Binomial(5, 1/3))", "sample(Poisson(3), 4)", "sample(Gaussian(0, 1))", "sample(UniformInt(1, 6), 5)",
            "sample(Geometric(1/5), 3)", "sample(Exponential(2))", "sample(Uniform(0, 10), 2)", "rand()",
            # draws made inside comprehensions: in the body, in one generator, in two generators (evaluated in source order)
            "{sample(UniformInt(1, 6)) : i in 1..5}", "{rand() : i in 1..3}", "{x : x in sample(UniformInt(0, 99), 4)}",
            "{100*x + y : x in sample(UniformInt(0, 99), 4), y in sample(UniformInt(0, 99), 4)}",
            "{a + b + c : a in sample(Bernoulli(1/2), 3), b in sample(Poisson(2), 3), c in sample(UniformInt(1, 9), 3)}", "rand()",
            # regimes where a sampler may switch algorithm: a mean and a number of trials beyond a million, a count beyond a million
            "sample(Poisson(1000001))", "sample(Binomial(1000001, 0.000001), 7)", "sample(Binomial(1000001, 0.999999), 3)", "size(sample(Bernoulli(1/2), 1000001))", "rand()"]
    for k in ([7, -3, 2 ** 70] if ctx["tier"] == "quick" else [7, -3, 2 ** 70, 0, 123456789, seed + 5]):
        texts = ["seed(%s)" % num_text(k)] + hist
        a, rca, ea = cross_process(texts, [], 1, ctx["rundir"])
        b, rcb, eb = cross_process(texts, ["rand()", "sample(Poisson(1), 3)"], 987654, ctx["rundir"])
        direct["repro_runs"] += 2 * len(texts)
        rp = dict(direct=dict(kind="cross", k=k, texts=texts))
        if rca != 0 or rcb != 0 or len(a) != len(texts):
            rep.violation(dict(kind="harness-cross-process"), "fresh-process run failed: rc %r/%r %s %s" % (rca, rcb, ea, eb), rp, found_input=False)
            continue
        if a != b:
            j = next(i for i, (x, y) in enumerate(zip(a, b)) if x != y)
            rep.violation(dict(kind="seed-not-determining", where="fresh processes"),
                          "C18 fails: after seed(%s), %s prints %r in one fresh process and %r in another (PYTHONHASHSEED 1 vs 987654)" % (k, texts[j], a[j], b[j]), rp)
            continue
        for hs in (0, 2, 5):            # string hashing differs per PYTHONHASHSEED: nothing about the draws may depend on it
            c, rcc, ec = cross_process(texts, [], hs, ctx["rundir"])
            direct["repro_runs"] += len(texts)
            if rcc == 0 and c != a:
                j = next(i for i, (x, y) in enumerate(zip(a, c)) if x != y)
                rep.violation(dict(kind="seed-not-determining", where="fresh processes"),
                              "C18 fails: after seed(%s), %s prints %r under PYTHONHASHSEED=1 and %r under PYTHONHASHSEED=%d" % (k, texts[j], a[j], c[j], hs), rp)
                break
    direct["cross_process_pairs"] = 3 if ctx["tier"] == "quick" else 6


def totuple(x):
    if isinstance(x, (list, tuple)):
        return tuple(totuple(y) for y in x)
    if isinstance(x, str):
        try:
            return Fraction(x)
        except ValueError:
            return x
    return x
