"""C09 — comparisons are coherent: trichotomy, duality, negation, 0/1 results.
Theorems: coq/Properties/C09.v.  Tie: all pairs from a pool of comparable values x six operators x both
orders (+ `in`) through execute(); coherence relations checked on the implementation's own results and the
model's predictions (numbers, quantities via qeval; lazy via ceval; instants via i_cmp) compared."""
import itertools, json, random
from datetime import datetime
from fractions import Fraction
import common as C
from props import qtycommon as Q, c05

ID = "C09"
COQ_TARGETS = ["Properties/C09.vo", "GenFacts/ResolutionFacts.vo", "GenFacts/DispatchSrcCmpFacts.vo"]
EXTRA_OBLIGATIONS = ["resolution_facts_true"]
MODEL_TARGETS = ["Model/Cmp.vo"]
OPS = ["<", "<=", "==", "!=", ">", ">="]
QC = {"<": "QLt", "<=": "QLe", "==": "QEq", "!=": "QNe", ">": "QGt", ">=": "QGe"}
CC = {"<": "CLt", "<=": "CLe", "==": "CEq", "!=": "CNe", ">": "CGt", ">=": "CGe"}

L = lambda n: ("lit", ("lit", n))
F = lambda a, b: ("lit", ("bin", "Div", ("lit", a), ("lit", b)))
NEG = lambda t: ("lit", ("un", "UNeg", t[1]))


def pool(units):
    T = lambda x, u: ("tag", x, ([(u, 1)], []))
    nums = [("num", "0", L(0)), ("num", "1", L(1)), ("num", "(-1)", NEG(L(1))), ("num", "2", L(2)), ("num", "12", L(12)),
            ("num", "(1/2)", F(1, 2)), ("num", "(2/4)", F(2, 4)), ("num", "(-7/3)", ("lit", ("bin", "Div", ("un", "UNeg", ("lit", 7)), ("lit", 3)))),
            ("num", "(1/3)", F(1, 3)), ("num", "6", L(6)), ("num", "10", L(10)), ("num", "24", L(24)),
            ("num", "1000000000000000000000000000000", L(10 ** 30)), ("num", "1000000000000000000000000000001", L(10 ** 30 + 1))]
    floats = [("flt", "0.5", Fraction(1, 2)), ("flt", "2.5", Fraction(5, 2)), ("flt", "0.1", Fraction(0.1)), ("flt", "6.0", Fraction(6)),
              ("flt", "1e-7", None), ("flt", "(0.1+0.2)", Fraction(0.1 + 0.2)), ("flt", "0.3", Fraction(0.3))]
    lazy = [("lazy", "3!", ("fact", 3)), ("lazy", "(4!/2!)", ("div", ("fact", 4), ("fact", 2))), ("lazy", "C(5,2)", ("choose", 5, 2)),
            ("lazy", "0!", ("fact", 0)), ("lazy", "(4!)", ("fact", 4)), ("lazy", "(3!/4!)", ("div", ("fact", 3), ("fact", 4))),
            # numerically equal values built in different ways
            ("lazy", "C(4,2)", ("choose", 4, 2)), ("lazy", "(4!/4)", ("div", ("fact", 4), ("int", 4))), ("lazy", "(C(4,1)*3!)", ("mul", ("choose", 4, 1), ("fact", 3)))]
    dimless = [("qty", "(5 rad)", T(L(5), "rad")), ("qty", "(1 dozen)", T(L(1), "dozen")), ("qty", "((1/2) dozen)", T(F(1, 2), "dozen")),
               ("qty", "(12 rad)", T(L(12), "rad"))]
    length = [("qty", "(1 m)", T(L(1), "m")), ("qty", "(100 cm)", T(L(100), "cm")), ("qty", "(1 km)", T(L(1), "km")),
              ("qty", "(1000 metres)", T(L(1000), "metres")), ("qty", "(999 m)", T(L(999), "m")), ("qty", "((1/2) km)", T(F(1, 2), "km")),
              ("qty", "(1 sm)", T(L(1), "sm")), ("qty", "(1852 m)", T(L(1852), "m")),
              # float magnitudes: the float's exact binary value decides (0.07 is slightly above 7/100)
              ("qtyf", "(7 cm)", Fraction(7, 100)), ("qtyf", "(0.07 m)", Fraction(0.07)), ("qtyf", "(0.3 m)", Fraction(0.3)),
              ("qtyf", "(0.1 m + 0.2 m)", Fraction(0.1 + 0.2)), ("qtyf", "(30 cm)", Fraction(3, 10))]
    time_ = [("qty", "(60 s)", T(L(60), "s")), ("qty", "(1 min)", T(L(1), "min")), ("qty", "(1 h)", T(L(1), "h")),
             ("qty", "(3600 seconds)", T(L(3600), "seconds")), ("qty", "(59 s)", T(L(59), "s"))]
    inst = [("inst", "#2024-01-01#", datetime(2024, 1, 1)), ("inst", "#2024-01-01T00:00:00#", datetime(2024, 1, 1)),
            ("inst", "#2024-01-02#", datetime(2024, 1, 2)), ("inst", "#1999-12-31T23:59:59.999999#", datetime(1999, 12, 31, 23, 59, 59, 999999)),
            ("inst", "#2024-02-29T12:00#", datetime(2024, 2, 29, 12)), ("inst", "#2024#", datetime(2024, 1, 1)), ("inst", "#2024-02#", datetime(2024, 2, 1))]
    from datetime import timezone, timedelta
    tz = lambda h: timezone(timedelta(hours=h))
    aware = [("insta", "#2020-01-01T01:00:00+01:00#", datetime(2020, 1, 1, 1, tzinfo=tz(1))),
             ("insta", "#2020-01-01T00:00:00+00:00#", datetime(2020, 1, 1, 0, tzinfo=tz(0))),
             ("insta", "#2020-01-01T00:00:00+01:00#", datetime(2020, 1, 1, 0, tzinfo=tz(1))),
             ("insta", "#2019-12-31T19:00:00-05:00#", datetime(2019, 12, 31, 19, tzinfo=tz(-5)))]
    return dict(numeric=nums + floats + lazy + dimless, length=length, time=time_, instant=inst, instant_aware=aware)


def impl_case(text):
    return C.observe(text)


def exact_value(item, units):
    """independent exact value of a pool item (Fraction), or None"""
    kind, text, rep = item
    if kind in ("flt", "qtyf"):
        return rep
    if kind == "lazy":
        return c05.eager(rep)
    if kind == "inst":
        return Fraction(int((rep - datetime(1, 1, 1)).total_seconds()) * 10 ** 6 + rep.microsecond)
    if kind == "insta":
        from datetime import timezone
        return Fraction(int((rep - datetime(1, 1, 1, tzinfo=timezone.utc)).total_seconds()) * 10 ** 6 + rep.microsecond)
    from props import c04
    sp = c04.mag_spec(rep, units)
    return sp[0] if sp and sp[1] else None


def run(ctx):
    # sizes: membership in long arrays and ranges, comparisons of lazy values with hundreds of factors and a negative factor
    _its = [(["5 in 1..2000"], "I:1", "membership in a range of 2000"), (["0 in 1..2000"], "I:0", "membership in a range of 2000"),
            (["{5 in 1..2000, 0 in 1..2000, 2000 in 1..2000}"], "A:[I:1;I:0;I:1]", "membership in a range of 2000, in an array"),
            (["a = {x*x : x in 1..1500}", "{49 in a, 50 in a}"], "A:[I:1;I:0]", "membership in a stored array of 1500"),
            (["(3 m) in {x m : x in 1..1200}"], "I:1", "membership of a quantity in 1200 quantities"), (["(1/2) in {x/2 : x in 1..1100}"], "I:1", "membership of a fraction in 1100 elements"),
            (["2.5 in 1..3000"], "I:0", "a non-member float"), (["x = 700!; y = x*-1; {x < y, x == y, x > y, x <= y, x >= y, x != y}"], "A:[I:0;I:0;I:1;I:0;I:1;I:1]", "a lazy value against its negative"),
            (["{1000! < -2*1000!, 1000! == -2*1000!, 1000! > -2*1000!}"], "A:[I:0;I:0;I:1]", "1000! against -2*1000!"),
            (["{1000!/-3 < 1000!, 1000!*-3 <= 1000!, 1000! >= 1000!*-3, 1000!*-3 == 1000!*-3}"], "A:[I:1;I:1;I:1;I:1]", "negative multiples of 1000!"),
            (["{600! < 601!, 601! < 600!, 600!*601 == 601!, C(1000, 500) > C(1000, 499), C(1000,3)*-1 < C(1000,2)*-1}"], "A:[I:1;I:0;I:1;I:1;I:1]", "large lazy values compared"),
            (["{x < 3 : x in 1..1200}"], "A:[%s]" % ";".join("I:%d" % (1 if x < 3 else 0) for x in range(1, 1201)), "1200 comparisons in one comprehension")]
    C.expect_sessions(ctx["report"], ctx["rundir"], "C09", _its, kind="size")
    C.seam_check(ctx["report"], ctx["rundir"], "C09", wrappers=[],
                 pairs=[("5! * -1 * -1 == 5!", "1"), ("(-1*3!)*(-1*4!) == 3!*4!", "1"), ("C(6,2) in {-1*C(6,4)*-1}", "1"), ("(5! * -1 * -1 < 5!) + (5! * -1 * -1 > 5!)", "0"),
                        ("10!/7! == 6!", "1"), ("C(10,3) == C(10,7)", "1"), ("5! * -1 == -(5!)", "1"), ("5!/(-1) < 0", "1")])
    C.config_matrix(ctx["report"], ctx["rundir"], "C09", ["1 $ == 1 usd", "1 $ < 1 usd", "1 usd in {1 $}", "1 € == 1 eur", "1 £ >= 1 gbp", "1 eur < 1 gbp", "(1 eur == 1 eur) + (1 usd == 1 usd)", "1 dozen == 12", "3 rad > 2", "1 m == 100 cm", "1/2 < 0.5", "C(4,2) == 3!", "1 keur > 999 eur"])
    # comparisons reached through variables, arrays, comprehensions; lazy values that share ranges; aggregates over comparables
    C.seam_check(ctx["report"], ctx["rundir"], "C09",
                 texts=["1/2 < 0.5", "3! == 6", "1 dozen == 12", "3 rad > 2", "1 m == 100 cm", "#2020-01-01# < #2020-01-02#", "C(4,2) == 3!", "5 m < 5 s",
                        "#2020-01-01T00:00:00+01:00# == #2019-12-31T23:00:00+00:00#", "#2020-01-01T00:00:00+01:00# <= #2019-12-31T23:00:00+00:00#",
                        "1 dozen < 11", "11 < 1 dozen", "1 dozen != 12", "0.1 + 0.2 == 0.3", "10^20 + 1 > 10^20", "1e20 + 1 > 1e20"],
                 templates=[("%s < 2", ["1", "2", "3", "3/2"]), ("%s dozen == 12", ["1", "2"]), ("(%s m) <= (100 cm)", ["1/2", "1", "2"]), ("%s == \"a\"", ["1", "\"a\""]),
                            ("%s / 2 == 3/2", ["3", "0.5", "3.0"])],
                 pairs=[("a = C(10,3); x = 7*a; y = 8*a; (x < y) + (x == y) + (x > y)", "1"), ("a = C(10,3); x = 7*a; y = 8*a; x < y", "1"),
                        ("a = C(10,3); x = 7*a; y = 8*a; {x > y, x == y}", "{0, 0}"), ("a = C(10,3); {7*a == 840, 7*a != 840}", "{1, 0}"),
                        ("a = 5!/7!; x = 2*a; y = 3*a; {x < y, y < x}", "{1, 0}"), ("a = C(10,3); {7*a < 1000, 7*a == 1000, 7*a > 1000}", "{1, 0, 0}"),
                        ("max({#2024-03-01#, #2024-01-01#, #2024-02-01#}) == #2024-03-01#", "1"), ("min({#2024-03-01#, #2024-01-01#, #2024-02-01#}) == #2024-01-01#", "1"),
                        ("max({2 m, 300 cm, 1 m}) == 3 m", "1"), ("min({2, 1/2, 0.75}) == 1/2", "1"), ("max({3!, 4!, 5}) == 24", "1")])
    rep, tier, seed = ctx["report"], ctx["tier"], ctx["seed"]
    names = ["rad", "dozen", "m", "cm", "km", "metres", "sm", "s", "min", "h", "seconds"]
    units = C.run_impl(Q.resolve_units, [names], ctx["rundir"], limit=60.0, procs=1)[0]
    P = pool(units)
    cases = []      # (group, a, b, op, text)
    for g, items in P.items():
        for a, b in itertools.product(items, repeat=2):
            for op in OPS:
                cases.append((g, a, b, op, "%s %s %s" % (a[1], op, b[1])))
    # membership
    rng = random.Random(seed + 9)
    numeric = P["numeric"]
    incases = []
    for x in numeric:
        for _ in range(3):
            arr = rng.sample(numeric, 3)
            incases.append((x, arr, "%s in {%s}" % (x[1], ", ".join(a[1] for a in arr))))
    if ctx.get("replay"):
        r = json.load(open(ctx["replay"]))
        keep = set(x.get("text") for x in [r["replay"]] + r.get("more", []))
        cases = [c for c in cases if c[4] in keep] or cases[:50]
    obs = C.run_impl(impl_case, [c[4] for c in cases] + [c[2] for c in incases], ctx["rundir"], limit=10.0)
    iobs = obs[len(cases):]
    obs = obs[:len(cases)]
    res = {}
    bad01 = 0
    for (g, a, b, op, text), o in zip(cases, obs):
        ok, why = C.well_formed_outcome(o)
        v = o.get("value")
        out = (o.get("out") or "").strip()
        if not ok or o.get("status") != 0:
            rep.violation(dict(kind="comparison-failed", group=g, op=op, kinds=[a[0], b[0]]),
                          "C09: comparable values but `%s` gives %s" % (text, why or (o.get("err") or "")[:80]),
                          dict(text=text, outcome=why, err=o.get("err")))
            continue
        if v not in ("I:0", "I:1") or out not in ("0", "1"):
            bad01 += 1
            rep.violation(dict(kind="not-zero-one", group=g, op=op, kinds=[a[0], b[0]]),
                          "C09: `%s` yields %s displayed %r, not the number 0 or 1" % (text, v, out),
                          dict(text=text, value=v, displayed=out))
            continue
        res[(g, a[1], b[1], op)] = int(out)
    # coherence on the implementation's own answers + exact oracle
    checked = 0
    for g, items in P.items():
        for a, b in itertools.product(items, repeat=2):
            r = {op: res.get((g, a[1], b[1], op)) for op in OPS}
            rb = {op: res.get((g, b[1], a[1], op)) for op in OPS}
            if None in r.values() or None in rb.values():
                continue
            checked += 1
            probs = []
            if r["<"] + r["=="] + r[">"] != 1:
                probs.append("not exactly one of <, ==, > holds (%d,%d,%d)" % (r["<"], r["=="], r[">"]))
            if r["<="] != max(r["<"], r["=="]):
                probs.append("<= differs from (< or ==)")
            if r[">="] != max(r[">"], r["=="]):
                probs.append(">= differs from (> or ==)")
            if r[">"] != rb["<"] or r[">="] != rb["<="]:
                probs.append("a>b / a>=b differ from b<a / b<=a")
            if r["!="] != 1 - r["=="]:
                probs.append("!= is not 1 - ==")
            va, vb = exact_value(a, units), exact_value(b, units)
            if va is not None and vb is not None:
                want = {"<": va < vb, "<=": va <= vb, "==": va == vb, "!=": va != vb, ">": va > vb, ">=": va >= vb}
                for op in OPS:
                    if r[op] != int(want[op]):
                        probs.append("%s %s %s is %d but the exact values are %s and %s" % (a[1], op, b[1], r[op], va, vb))
            for p in probs[:2]:
                rep.violation(dict(kind="incoherent", group=g, kinds=sorted([a[0], b[0]]), what=p.split(" (")[0][:40]),
                              "C09 fails for a=%s, b=%s: %s" % (a[1], b[1], p),
                              dict(text="%s ? %s" % (a[1], b[1]), a=a[1], b=b[1], results=r, reversed=rb))
    for (x, arr, text), o in zip(incases, iobs):
        ok, why = C.well_formed_outcome(o)
        out = (o.get("out") or "").strip()
        vx = exact_value(x, units)
        vs = [exact_value(a, units) for a in arr]
        if not ok or o.get("value") not in ("I:0", "I:1") or out not in ("0", "1"):
            rep.violation(dict(kind="in-not-zero-one"), "C09: `%s` yields %s displayed %r" % (text, o.get("value"), out),
                          dict(text=text, value=o.get("value"), displayed=out, outcome=why))
        elif vx is not None and None not in vs and int(out) != int(any(vx == v for v in vs)):
            rep.violation(dict(kind="in-wrong"), "C09: `%s` is %s but membership by exact value is %s" % (text, out, any(vx == v for v in vs)),
                          dict(text=text, displayed=out))
    # model predictions
    disagreements = 0
    mcount = 0
    if ctx["model_ok"]:
        ndims = len(json.load(open(C.BUILD + "/dump.json"))["base_units"])
        qcases = [(c, o) for c, o in zip(cases, obs) if c[1][0] in ("num", "qty") and c[2][0] in ("num", "qty")]
        terms = ["(%s)" % Q.coq_term(("cmp", QC[c[3]], c[1][2], c[2][2]), units) for c, _ in qcases]
        mo = C.run_model(ctx["rundir"], "c09q", Q.IMPORTS, "fun e => show_res show_qval (qeval %d%%nat e)" % ndims, terms, shard=300)
        lcases = [(c, o) for c, o in zip(cases, obs) if c[1][0] == "lazy" and c[2][0] == "lazy"]
        lterms = ["(%s)" % c05.coq_term(("cmp", CC[c[3]], c[1][2], c[2][2])) for c, _ in lcases]
        lo = C.run_model(ctx["rundir"], "c09l", c05.IMPORTS, "fun e => show_res show_num (ceval_top e)", lterms, shard=300)
        icases = [(c, o) for c, o in zip(cases, obs) if c[0] == "instant"]   # naive instants only: the model is the microsecond count
        us = lambda d: int((d - datetime(1, 1, 1)).total_seconds()) * 10 ** 6 + d.microsecond
        iterms = ["(%s, %s, %s)" % (QC[c[3]], C.coq_Z(us(c[1][2])), C.coq_Z(us(c[2][2]))) for c, _ in icases]
        io = C.run_model(ctx["rundir"], "c09i", "From Ka Require Import Model.Cmp.\nOpen Scope string_scope.\n",
                         "fun t => show_num (i_cmp (fst (fst t)) (snd (fst t)) (snd t))", iterms, shard=400, case_type="qcmp * Z * Z")
        for (c, o), m in list(zip(qcases, mo)) + list(zip(lcases, lo)) + list(zip(icases, io)):
            mcount += 1
            if m != o.get("value") and not (m.startswith("E:") and o.get("status") == 1):
                disagreements += 1
                rep.violation(dict(kind="correspondence", family="cmp", group=c[0], op=c[3]),
                              "model and implementation disagree on `%s`: impl %s, model %s" % (c[4], o.get("value"), m),
                              dict(text=c[4], impl=o.get("value"), model=m), found_input=False)
    rep.coverage.update(dict(
        evaluations=len(cases) + len(incases), distinct_nontrivial=checked,
        rule="all ordered pairs within each comparable group (numeric incl. floats, lazy combinatorics and dimensionless quantities: %d values; lengths %d; times %d; instants %d) x 6 operators (exhaustive), plus %d membership tests; non-trivial = an ordered pair whose 12 results (both orders) were all obtained and checked for coherence" % (len(P["numeric"]), len(P["length"]), len(P["time"]), len(P["instant"]) + len(P["instant_aware"]), len(incases)),
        exhaustive=True, samples=[dict(text=c[4], displayed=(o.get("out") or "").strip()) for c, o in list(zip(cases, obs))[::997][:6]],
        traces_validated_against_impl=mcount, disagreements=disagreements, pairs_checked=checked))
    rep.assumptions += ["float operands compare by their exact binary value (Python semantics); the pool avoids values whose comparison depends on rounding of an ideal result"]
