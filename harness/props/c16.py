"""C16 — elementary functions: accurate in-domain, rejected outside, never NaN or inf.
Theorems: coq/Properties/C16.v (rounding laws, guards, exact powers, calls-in-domain, finiteness,
for all arguments of every kind; libm itself is a section variable).
Tie (this file):
 (1) boundary sweep: every function x every argument kind (int, Fraction, float, lazy, quantity,
     dimensionless quantity) x values at / just inside / just outside every guard and the double
     range, through execute();
 (2) accuracy: seeded points per function over wide magnitudes, the implementation's value against
     an independent 250+-bit evaluation (mpmath, run under python3-vt) of the call the model names;
 (3) the rounding laws checked directly on the implementation's results with exact rationals.
Each case is run on the implementation, on the Gallina model (Model/Elem.v: eplan, inside Coq's VM)
and on a Python oracle written from the property text; the three must agree."""
import random, json, math, os, subprocess, re
from fractions import Fraction
import common as C

ID = "C16"
COQ_TARGETS = ["Properties/C16.vo", "Proofs/ElemOracle.vo", "GenFacts/NumSrcElemFacts.vo"]
MODEL_TARGETS = ["Model/Elem.vo"]
IMPORTS = "From Ka Require Import Model.Elem.\nOpen Scope string_scope.\n"
TRUSTED_EXTRA = [
    "glibc libm and CPython's math/float wrappers (section variable ext in Model/Elem.v): accuracy is validated per sample, not proved",
    "mpmath 1.3.0 under /opt/veriftools/pyvenv (reference values); a handful re-certified by Coq-Interval in Proofs/ElemOracle.v",
    "CPython facts used as section hypotheses: in-domain math calls raise only OverflowError and return no NaN",
]
VT_PY = "/opt/veriftools/pyvenv/bin/python"

FUN1 = {"sin": "FSin", "cos": "FCos", "tan": "FTan", "sqrt": "FSqrt", "ln": "FLn", "log10": "FLog10",
        "log2": "FLog2", "abs": "FAbs", "floor": "FFloor", "ceil": "FCeil", "round": "FRound",
        "int": "FInt", "float": "FFloat"}
ROUNDING = ("floor", "ceil", "round", "int")
OVF = Fraction(2 ** 1024 - 2 ** 970)       # |x| >= OVF: conversion to a double raises OverflowError
TINY = Fraction(1, 2 ** 1075)              # 0 < |x| <= TINY: converts to 0.0
E_FLOAT = Fraction(math.e)
TOL = Fraction(1, 10 ** 12)
DIAGNOSED = {"KaRuntimeError", "ZeroDivisionError", "OverflowError", "NoMatchingFunctionSignatureError"}


# ------------------------------------------------------------------ texts
def case_text(fn, args):
    if fn == "^":
        return "(%s)^(%s)" % (args[0], args[1])
    return "%s(%s)" % (fn, ", ".join(args))


def impl_case(case):
    """worker: the arguments on their own (what the body will receive) and the whole call"""
    fn, args = case["fn"], case["args"]
    return dict(args=[C.observe(a)["raw"] for a in args], obs=C.observe(case_text(fn, args)),
                deg=[C.observe(a[:-4])["raw"] if a.endswith(" deg") else None for a in args])


def impl_text(text):
    return C.observe(text)


# ------------------------------------------------------------------ values
def dec_num(enc):
    """'I:5' 'F:1/2' 'X:0x1.8p+0' -> (kind, Fraction)"""
    k, body = enc[0], enc[2:]
    if k == "I":
        return ("I", Fraction(int(body)))
    if k == "F":
        n, d = body.split("/")
        return ("F", Fraction(int(n), int(d)))
    if k == "X":
        return ("X", Fraction(float.fromhex(body)))
    return None


def dec_val(enc):
    """-> ('n', kind, q) | ('q', kind, q, dims) | None"""
    if enc is None:
        return None
    if enc.startswith("Q:"):
        mag, dims = enc[2:].rsplit("|", 1)
        m = dec_num(mag)
        return None if m is None else ("q", m[0], m[1], dims)
    m = dec_num(enc) if enc[:2] in ("I:", "F:", "X:") else None
    return None if m is None else ("n", m[0], m[1])


def coq_Z(n):
    """big literals in hexadecimal: Coq parses a 400-digit decimal literal in 0.3 s, the hex one in 0.01 s"""
    if abs(n) < 10 ** 18:
        return C.coq_Z(n)
    return "(- 0x%x)%%Z" % -n if n < 0 else "0x%x%%Z" % n


def coq_pos(n):
    return "%d%%positive" % n if n < 10 ** 18 else "0x%x%%positive" % n


def coq_q(q):
    return "(Qmake %s %s)" % (coq_Z(q.numerator), coq_pos(q.denominator))


def coq_num(kind, q):
    if kind == "I":
        return "(NInt %s)" % coq_Z(q.numerator)
    return "(%s %s)" % ("NFrac" if kind == "F" else "NFlt", coq_q(q))


LAZY_RE = re.compile(r"^(\d+)!$")
CHOOSE_RE = re.compile(r"^C\((\d+),\s*(\d+)\)$")


def coq_arg(text, v):
    """the model's argument: lazy spellings keep their lazy form so that coerce/resolve runs in the model"""
    if v[0] == "q":
        return "(AQ %s [%s])" % (coq_num(v[1], v[2]), ";".join(C.coq_Z(int(x)) for x in v[3].split(",")))
    m = LAZY_RE.match(text)
    if m:
        return "(AN (lazy_factorial %s))" % coq_Z(int(m.group(1)))
    m = CHOOSE_RE.match(text)
    if m:
        return "(AN (lazy_choose %s %s))" % (coq_Z(int(m.group(1))), coq_Z(int(m.group(2))))
    return "(AN (CNum %s))" % coq_num(v[1], v[2])


def coq_case(fn, texts, vals):
    f = "ELog" if fn == "log" else "EPow" if fn == "^" else "(E1 %s)" % FUN1[fn]
    return "(%s, [%s])" % (f, "; ".join(coq_arg(t, v) for t, v in zip(texts, vals)))


# ------------------------------------------------------------------ the oracle written from the property text
class Rej(Exception):
    def __init__(self, cls):
        self.cls = cls


def conv(kind, q):
    if kind != "X" and abs(q) >= OVF:
        raise Rej("OverflowError")
    return q


def log_conv(kind, q):
    if kind == "I" or kind == "X":
        return q
    if q != 0 and abs(q) <= TINY:
        raise Rej("KaRuntimeError")      # as repaired (today: ValueError escapes)
    return conv(kind, q)


def is_integral(q):
    return q.denominator == 1


def o_log(x, b):
    if x[1] <= 0:
        raise Rej("KaRuntimeError")
    if b[1] <= 0 or b[1] == 1:
        raise Rej("KaRuntimeError")
    qx = log_conv(*x)
    qb = log_conv(*b)
    return ("C", "log", [qx, qb])


def o_conv_pow(x, y):
    qx = conv(*x)
    qy = conv(*y)
    if qx == 0 and qy < 0:
        raise Rej("ZeroDivisionError")
    return ("C", "pow", [qx, qy])


def o_pow(x, y):
    if not is_integral(y[1]) and x[1] < 0:
        raise Rej("KaRuntimeError")
    if y[0] == "I":
        n = y[1].numerator
        if x[0] == "I":
            if n >= 0:
                return ("V", "I", Fraction(x[1].numerator ** n))
            return o_conv_pow(x, y)
        if x[0] == "F":
            if x[1] == 0 and n < 0:
                raise Rej("ZeroDivisionError")
            return ("V", "F", x[1] ** n)
        return o_conv_pow(x, y)
    return o_conv_pow(x, y)


def half_even(q):
    f = math.floor(q)
    r = q - f
    if r < Fraction(1, 2):
        return f
    if r > Fraction(1, 2):
        return f + 1
    return f if f % 2 == 0 else f + 1


def trunc(q):
    return -((-q.numerator) // q.denominator) if q < 0 else q.numerator // q.denominator


def o_fun1(fn, x):
    kind, q = x
    if fn in ("sin", "cos", "tan"):
        return ("C", fn, [conv(kind, q)])
    if fn == "sqrt":
        if q < 0:
            raise Rej("KaRuntimeError")
        return ("C", "sqrt", [conv(kind, q)])
    if fn == "ln":
        return o_log(x, ("X", E_FLOAT))
    if fn == "log10":
        return o_log(x, ("I", Fraction(10)))
    if fn == "log2":
        return o_log(x, ("I", Fraction(2)))
    if fn == "abs":
        return ("V", kind, abs(q))
    if fn == "floor":
        return ("V", "I", Fraction(math.floor(q)))
    if fn == "ceil":
        return ("V", "I", Fraction(-math.floor(-q)))
    if fn == "round":
        return ("V", "I", Fraction(half_even(q)))
    if fn == "int":
        return ("V", "I", Fraction(trunc(q)))
    if fn == "float":
        return ("V", "X", conv(kind, q))
    raise AssertionError(fn)


def oracle(fn, vals):
    """-> (plan, wrap) in the model's vocabulary"""
    try:
        if fn in FUN1:
            if len(vals) != 1:
                raise Rej("NoMatchingFunctionSignatureError")
            v = vals[0]
            wrap = "N" if v[0] == "n" else "Q" + v[3]
            return o_fun1(fn, (v[1], v[2])), wrap
        if len(vals) != 2 or any(v[0] != "n" for v in vals):
            raise Rej("NoMatchingFunctionSignatureError")
        x, y = (vals[0][1], vals[0][2]), (vals[1][1], vals[1][2])
        return (o_log(x, y) if fn == "log" else o_pow(x, y)), "N"
    except Rej as r:
        return ("R", r.cls), "N"


def show_q(q):
    return "%d/%d" % (q.numerator, q.denominator)


def show_simp(kind, q):
    if kind == "I" or q.denominator == 1:
        return "I:%d" % q.numerator
    return "%s:%s" % (kind, show_q(q))


def render(plan, wrap):
    if plan[0] == "R":
        return "R:" + plan[1]
    if plan[0] == "V":
        return "V:%s|%s" % (show_simp(plan[1], plan[2]), wrap)
    return "C:%s:%s|%s" % (plan[1], ":".join(show_q(a) for a in plan[2]), wrap)


# ------------------------------------------------------------------ reference values (python3-vt + mpmath)
REF_SCRIPT = r'''
import sys, json
from mpmath import mp, mpf
def R(s):
    n, d = s.split("/")
    return int(n), int(d)
def val(n, d):
    return mpf(n) / mpf(d)
out = []
for fn, args in json.load(sys.stdin):
    try:
        a = [R(s) for s in args]
        big = max([abs(n).bit_length() - d.bit_length() for n, d in a] + [0])
        mp.prec = 260 + (big + 64 if fn in ("sin", "cos", "tan") else 0)
        x = val(*a[0])
        if fn in ("sind", "cosd", "tand"):
            x = x * mp.pi / 180
            fn = fn[:-1]
        if fn == "sin": v = mp.sin(x)
        elif fn == "cos": v = mp.cos(x)
        elif fn == "tan": v = mp.tan(x)
        elif fn == "sqrt": v = mp.sqrt(x)
        elif fn == "log":
            ln = lambda n, d: mp.log(mpf(n)) - mp.log(mpf(d))
            v = ln(*a[0]) / ln(*a[1])
        elif fn == "pow":
            n, d = a[1]
            if d == 1:
                if abs(n) < 10 ** 6:
                    v = x ** n
                else:
                    v = mp.exp(mp.log(abs(x)) * n) * (-1 if (x < 0 and n % 2) else 1) if x != 0 else mpf(0)
            else:
                v = mp.power(x, val(n, d)) if x != 0 else mpf(0)
        else:
            raise ValueError(fn)
        if isinstance(v, mp.mpc):
            out.append(["COMPLEX"]); continue
        sign, man, exp, bc = v._mpf_
        if man == 0:
            out.append(["F", 0, 0, 0]); continue
        mag = exp + bc
        if mag > 1040: out.append(["HUGE", sign])
        elif mag < -1300: out.append(["TINY"])
        else: out.append(["F", sign, str(man), exp])
    except Exception as e:
        out.append(["ERR", repr(e)])
json.dump(out, sys.stdout)
'''


def reference(calls, rundir):
    """calls: list of (fn, [Fraction]) -> list of Fraction | 'HUGE' | 'TINY' | ('ERR', msg)"""
    if not calls:
        return []
    path = os.path.join(rundir, "c16_ref.py")
    open(path, "w").write(REF_SCRIPT)
    chunks = [calls[i::C.NCPU] for i in range(C.NCPU)]
    procs = []
    for ch in chunks:
        p = subprocess.Popen([VT_PY, path], stdin=subprocess.PIPE, stdout=subprocess.PIPE, stderr=subprocess.PIPE, text=True)
        procs.append((p, ch))
    for p, ch in procs:
        p.stdin.write(json.dumps([[fn, [show_q(a) for a in args]] for fn, args in ch]))
        p.stdin.close()
    outs = []
    for p, ch in procs:
        txt = p.stdout.read()
        err = p.stderr.read()
        p.wait()
        if p.returncode != 0:
            raise RuntimeError("reference evaluation failed: " + err[-800:])
        outs.append(json.loads(txt))
    res = [None] * len(calls)
    for k, o in enumerate(outs):
        for j, r in enumerate(o):
            i = k + j * C.NCPU
            if r[0] == "F":
                if r[1] == 0 and r[2] == 0:
                    res[i] = Fraction(0)
                else:
                    m = int(r[2])
                    v = Fraction(m * 2 ** r[3]) if r[3] >= 0 else Fraction(m, 2 ** (-r[3]))
                    res[i] = -v if r[1] else v
            elif r[0] in ("HUGE", "TINY"):
                res[i] = r[0]
            else:
                res[i] = ("ERR", str(r))
    return res


def to_double(q):
    """the double nearest to q as an exact rational (None beyond the range)"""
    if abs(q) >= OVF:
        return None
    return Fraction(float(q))


def close(iv, rv):
    d = abs(iv - rv)
    return d <= TOL or d <= TOL * abs(rv)


# ------------------------------------------------------------------ argument pools
T1024 = 2 ** 1024 - 2 ** 970
INT_ARGS = ["0", "1", "(-1)", "2", "(-2)", "8", "(-8)", "10", "10^15+1", "10^308", "10^400", "(-(10^400))",
            str(T1024 - 1), str(T1024), "(-%d)" % T1024]
FRAC_ARGS = ["(1/2)", "(-1/2)", "(3/2)", "(5/2)", "(-5/2)", "(7/2)", "(-7/2)", "(1/3)", "(2/3)", "(-2/3)",
             "(1/10^300)", "(-1/10^300)", "(1/10^400)", "(-1/10^400)", "(1+1/10^400)", "(1-1/10^20)",
             "(10^400+1/2)", "(10^20+1/3)", "(%d/2^1075)" % 1, "(%d/2^1075)" % 3]
FLOAT_ARGS = ["0.5", "(-0.5)", "1.5", "2.5", "(-2.5)", "(-1.5)", "0.1", "1.5e-300", "(-1.5e-300)", "5.0e-324",
              "(-5.0e-324)", "1.0000000000000002", "0.9999999999999999", "4503599627370495.5",
              "pi", "e", "(pi/2)", "(-pi)", "0.3333333333333333"]
LAZY_ARGS = ["3!", "0!", "1!", "5!/3!", "C(5,2)", "C(40,20)", "170!", "171!", "(0*3!)", "20!/18!", "3!/4!"]
QTY_ARGS = ["4 m", "(-4) m", "0 m", "(1/2) m", "(-1/2) m", "(7/2) m", "2.5 m", "(-2.5) m", "(10^400) m", "3! m",
            "(1/10^400) m", "2.5 km", "90 deg", "(-90) deg", "0 deg", "45 deg", "180 deg", "1 rad", "(-1) rad",
            "(1/2) rad", "0.5 rad", "(10^400) deg", "4 m^2", "9 s", "(-1.5e-300) kg"]
POW_X = ["0", "1", "(-1)", "2", "(-2)", "(-8)", "10", "10^400", "(1/2)", "(-1/2)", "(3/2)", "(1/10^400)", "0.5", "(-0.5)",
         "2.5", "1.5e-300", "pi", "3!", "(0*3!)", "171!", "(10^400+1/2)", "0.0", "(-0.0)"]
POW_Y = ["0", "1", "(-1)", "2", "(-2)", "3", "(-3)", "10", "1024", "(-1074)", "(-1080)", "(1/2)", "(-1/2)", "(1/3)", "(2/3)",
         "(-2/3)", "(3/2)", "0.5", "(-0.5)", "2.5", "(-2.5)", "1024.5", "(2049/2)", "2000.5", "3.0", "3!", "3!/4", "(1/10^400)",
         "1.5e-300", "pi", "10^400", "(-(10^400))", "(10^400+1/2)",
         # floats one or a few ulps from a whole number: still fractional, so a negative base must be refused
         "0.9999999999999998", "1.9999999999999998", "2.0000000000000004", "2.999999999999993", "((1-0.9)*10)",
         "(-1.0000000000000002)", "4503599627370495.5"]
LOG_X = ["1000.0000005", "2.718281828", "1024.0000005", "125.00000006", "999.9999995", "0.10000000004", "0", "1", "(-1)", "2", "8", "(-8)", "10^400", "(1/2)", "(-1/2)", "(1/10^300)", "(1/10^400)", "(1+1/10^400)",
         "(10^400+1/2)", "0.5", "(-0.5)", "5.0e-324", "1.0000000000000002", "0.9999999999999999", "e", "3!", "(0*3!)", "171!",
         "0.0", "1.5e-324"]
LOG_B = ["0", "1", "(-1)", "(-2)", "2", "10", "10^400", "(1/2)", "(-1/2)", "(1/10^300)", "(1/10^400)", "(1+1/10^400)",
         "(1-1/10^20)", "(10^400+1/2)", "0.5", "(-0.5)", "5.0e-324", "1.0000000000000002", "0.9999999999999999", "e", "3!",
         "1!", "(0*3!)", "1.0", "0.0"]


def pow_safe(x, y):
    """skip exact powers that would build astronomically large integers (a hang, not C16's subject)"""
    huge_exp = y in ("10^400", "(-(10^400))")
    if huge_exp and x in ("2", "(-2)", "(-8)", "10", "10^400", "(1/2)", "(-1/2)", "(3/2)", "(1/10^400)", "3!", "171!", "(10^400+1/2)"):
        return False
    if y in ("1024", "(-1074)", "(-1080)") and x in ("10^400", "(1/10^400)", "(10^400+1/2)", "171!"):
        return False
    return True


def boundary_cases():
    cases = []
    one = INT_ARGS + FRAC_ARGS + FLOAT_ARGS + LAZY_ARGS + QTY_ARGS
    for fn in FUN1:
        for a in one:
            cases.append(dict(fn=fn, args=[a], part="boundary"))
    for x in POW_X:
        for y in POW_Y:
            if pow_safe(x, y):
                cases.append(dict(fn="^", args=[x, y], part="boundary"))
    for x in LOG_X:
        for b in LOG_B:
            cases.append(dict(fn="log", args=[x, b], part="boundary"))
    for fn in ("log", "^"):
        for a, b in (("4 m", "2"), ("8", "2 m"), ("4 m", "2 m"), ("90 deg", "2"), ("2", "90 deg"), ("1 rad", "1 rad"),
                     ("8", "1 rad"), ("(-4) m", "(1/2)")):
            cases.append(dict(fn=fn, args=[a, b], part="boundary"))
    # wrong arity is a diagnosed "does not accept"
    cases.append(dict(fn="sqrt", args=["4", "2"], part="boundary"))
    cases.append(dict(fn="log", args=["8"], part="boundary"))
    return cases


# ------------------------------------------------------------------ seeded points
def r_int(rng, pos=False, maxdig=None):
    k = rng.choice([1, 1, 2, 3, 6, 9, 15, 17, 22, 40, 100, 300]) if maxdig is None else rng.randint(1, maxdig)
    n = rng.randrange(10 ** (k - 1), 10 ** k)
    if not pos and rng.random() < 0.3:
        return "(-%d)" % n
    return str(n)


def r_frac(rng, pos=False):
    a = rng.randrange(1, 10 ** rng.choice([1, 2, 3, 6, 12, 20, 40]))
    b = rng.randrange(2, 10 ** rng.choice([1, 2, 3, 6, 12, 20, 40]))
    s = "%d/%d" % (a, b)
    r = rng.random()
    if r < 0.12:
        s = "%d/(%d*10^%d)" % (a, b, rng.choice([50, 150, 290]))
    elif r < 0.24:
        s = "%d*10^%d/%d" % (a, rng.choice([50, 150, 250]), b)
    if not pos and rng.random() < 0.3:
        return "(-%s)" % s
    return "(%s)" % s


def r_float(rng, pos=False, lo=-300, hi=15):
    digs = rng.randint(1, 17)
    m = "%d.%s" % (rng.randrange(1, 10), "".join(rng.choice("0123456789") for _ in range(digs)))
    e = rng.choice([0, 0, 0, 1, -1, 2, -2, 3, 5, -5, 8, -8, 12, -12, 15, -20, -50, -100, -200, -300, -310, -320])
    e = max(lo, min(hi, e))
    s = m if e == 0 else "%se%d" % (m, e)
    if not pos and rng.random() < 0.3:
        return "(-%s)" % s
    return s


def r_lazy(rng):
    r = rng.random()
    if r < 0.5:
        return "%d!" % rng.choice([0, 1, 2, 3, 5, 8, 12, 20, 30, 50, 100, 150, 170])
    if r < 0.8:
        n = rng.randint(1, 60)
        return "C(%d,%d)" % (n, rng.randint(0, n))
    a = rng.randint(3, 60)
    return "%d!/%d!" % (a, rng.randint(1, a))


def r_num(rng, pos=False):
    r = rng.random()
    if r < 0.3:
        return r_int(rng, pos)
    if r < 0.55:
        return r_frac(rng, pos)
    if r < 0.9:
        return r_float(rng, pos)
    return r_lazy(rng)


def r_qty(rng, pos=False, units=("m", "km", "s", "kg", "deg", "rad", "mm", "min")):
    return "%s %s" % (r_num(rng, pos) if rng.random() < 0.8 else "(%s)" % r_int(rng, pos, 3), rng.choice(units))


def r_angle(rng):
    r = rng.random()
    if r < 0.25:
        return "%s deg" % rng.choice(["0", "30", "45", "60", "90", "180", "270", "360", "(-90)", "720", "(1/3)", "0.5", "89.999",
                                      str(rng.randint(-720, 720)), r_float(rng, lo=-10, hi=2)])
    if r < 0.4:
        return "%s rad" % r_float(rng, lo=-10, hi=3)
    if r < 0.55:
        return r_float(rng, lo=-300, hi=15)
    if r < 0.7:
        return "(%s*pi/%d)" % (rng.randint(-40, 40), rng.choice([1, 2, 3, 4, 6]))
    return r_num(rng)


def seeded_cases(rng, n):
    cases = []

    def add(fn, args):
        cases.append(dict(fn=fn, args=args, part="seeded"))
    for fn in ("sin", "cos", "tan"):
        for _ in range(n):
            add(fn, [r_angle(rng)])
    for fn in ("sqrt", "ln", "log2", "log10"):
        for _ in range(n):
            r = rng.random()
            pos = rng.random() < 0.9
            add(fn, [r_qty(rng, pos) if r < 0.15 else r_num(rng, pos)])
    for fn in ("abs", "float") + ROUNDING:
        for _ in range(n):
            add(fn, [r_qty(rng) if rng.random() < 0.25 else r_num(rng)])
    for _ in range(n):
        x = r_num(rng, pos=rng.random() < 0.9)
        b = rng.choice(["2", "10", "e", "(1/2)", "0.5", "3!", "1.0000000000000002", "0.9999999999999999"]) if rng.random() < 0.4 else r_num(rng, pos=rng.random() < 0.95)
        add("log", [x, b])
    for _ in range(n):
        r = rng.random()
        if r < 0.25:      # exact branches
            x = r_int(rng, maxdig=6) if rng.random() < 0.5 else r_frac(rng)
            if "10^" in x:
                x = "(%d/%d)" % (rng.randint(-99, 99), rng.randint(2, 99))
            y = str(rng.randint(-12, 12))
            if y.startswith("-"):
                y = "(%s)" % y
        elif r < 0.5:     # moderate real exponents
            x = rng.choice([r_float(rng, pos=True, lo=-6, hi=6), r_int(rng, pos=True, maxdig=6), r_frac(rng, pos=True), r_lazy(rng)])
            if "10^" in x:
                x = "(7/3)"
            y = rng.choice([r_float(rng, lo=-3, hi=1), "(%d/%d)" % (rng.randint(-30, 30), rng.randint(2, 9)), "0.5", "(1/3)", "(-1/2)", "pi", "e"])
        elif r < 0.65:    # negative bases
            x = rng.choice([r_int(rng, maxdig=4), r_float(rng, lo=-3, hi=3), r_frac(rng)])
            if "10^" in x:
                x = "(-7/3)"
            if not x.startswith("(-"):
                x = "(-%s)" % x
            k = rng.randint(1, 9)
            y = rng.choice([str(rng.randint(0, 9)), "(-%d)" % rng.randint(1, 9), "0.5", "(1/3)", "(2/3)", "(-1/2)", "2.5", "3!",
                            "%d.0" % k, repr(k * (1 - 2.0 ** -52)), repr(k * (1 + 2.0 ** -51)), repr(k + 10.0 ** -rng.randint(7, 13)),
                            "(%d+1/10^%d)" % (k, rng.randint(8, 30))])
        else:             # wide magnitudes
            x = r_num(rng, pos=True)
            y = rng.choice([r_float(rng, lo=-5, hi=2), "(%d/%d)" % (rng.randint(-300, 300), rng.randint(2, 7)), "0.5", "(-0.5)", "(1/3)"])
            if x.endswith("!") or "C(" in x or "!/" in x:
                pass
        add("^", [x, y])
    return cases


# ------------------------------------------------------------------ regression corpus and whole-expression finiteness probes
CORPUS = [
    ("log(8,0)", "err"), ("log(8,-2)", "err"), ("log(8,1)", "err"), ("sqrt(-1)", "err"), ("(-8)^(1/3)", "err"),
    ("0^(-1)", "err"), ("abs(3! m)", "Q:I:6|0,1,0,0,0,0,0,0"), ("floor((7/2) m)", "Q:I:3|0,1,0,0,0,0,0,0"),
    ("10^400 * 1.5", "finite"), ("1.5e308*1.5", "finite"), ("1.5e308+1.5e308", "finite"), ("2^1024.5", "finite"),
    ("2.5^(10^400)", "finite"), ("1.5^2000.5", "finite"), ("sin(10^400)", "finite"), ("sqrt(10^400)", "finite"),
    ("float(10^400)", "finite"), ("ln(10^400)", "finite"), ("tan(pi/2)", "finite"), ("(-8)^3.0", "I:-512"),
    ("0^0", "I:1"), ("0.0^(-1)", "err"), ("(-1)^0.5", "err"), ("(-8.0)^(2/3)", "err"), ("(-2)^(-1/2)", "err"),
    ("log(-8, 2)", "err"), ("log2(0)", "err"), ("sqrt(0*-1.0)", "I:0"), ("round(2.5)", "I:2"), ("round(-0.5)", "I:0"),
    ("round(-1/2)", "I:0"), ("float(1/3 m)", "finite"), ("sin(90 deg)", "Q:I:1|0,0,0,0,0,0,0,0"),
    ("2^0.5 - 2^(1/2)", "I:0"), ("1.5e-200*1.5e-200", "finite"), ("-1.5e-200*1.5e-200", "finite"),
    ("1.5e300*1.5e300*0.5", "finite"), ("(1.5e308*1.5)-(1.5e308*1.5)", "finite"), ("mean({1.5e308+0.5, 1.7e308+0.5})", "finite"),
    ("{1.5e308*1.5}", "finite"), ("x = 1.5e308*1.5", "finite"), ("(1.5e308*1.5) m", "finite"), ("1.5e308 km * 1.5", "finite"),
    ("e^1000", "finite"), ("e^(-1000)", "finite"), ("pi*1.5e308", "finite"), ("0.5/1.5e-320", "finite"), ("0.1/5.0e-324", "finite"),
    ("(-8)^((1-0.9)*10)", "err"), ("(-8)^1.9999999999999998", "err"), ("(-8)^2.0000000000000004", "err"),
    ("(-8 m)^0.9999999999999998", "err"), ("(-8)^(3+1/10^30)", "err"), ("(-8)^2.0", "I:64"),
    ("log(1.5e308*1.5, 2)", "finite"), ("sqrt(1.5e308*1.5)", "finite"), ("(0.1*1.5e308*1.5e10)", "finite"),
]


def bad_text(out):
    return re.search(r"(?<![a-z])(nan|inf|infinity)(?![a-z])", out.lower()) is not None or re.search(r"\dj\b|\(.*[+-].*j\)", out) is not None


def oracle_points():
    """(ka text, certified rational) from the ORACLE comments of coq/Proofs/ElemOracle.v"""
    pts = []
    path = os.path.join(C.COQ, "Proofs", "ElemOracle.v")
    if os.path.exists(path):
        for m in re.finditer(r"\(\* ORACLE (.*?) = (-?\d+)/(\d+) \*\)", open(path).read()):
            pts.append((m.group(1), Fraction(int(m.group(2)), int(m.group(3)))))
    return pts


# ------------------------------------------------------------------ judging one case
def impl_number(obs, wrap):
    """the delivered value as (kind, Fraction), or a reason why it is not the expected shape"""
    v = dec_val(obs.get("value"))
    if v is None:
        return None, "delivered %r" % (obs.get("value"),)
    if wrap == "N":
        if v[0] != "n":
            return None, "a quantity where a number was expected (%s)" % obs["value"]
        return (v[1], v[2]), None
    if v[0] != "q" or v[3] != wrap[1:]:
        return None, "result %s does not keep the dimension %s" % (obs["value"], wrap[1:])
    return (v[1], v[2]), None


def rounding_law(fn, x, z):
    if fn == "floor":
        return z <= x < z + 1
    if fn == "ceil":
        return z - 1 < x <= z
    if fn == "round":
        d = abs(z - x)
        return d < Fraction(1, 2) or (d == Fraction(1, 2) and z % 2 == 0)
    return abs(z) <= abs(x) < abs(z) + 1 and (z >= 0 if x >= 0 else z <= 0)


def unrepresentable(plan, kinds):
    """an argument whose nearest double sits on the other side of a guard (property: no demand on
    the value then; the outcome must still be a finite value or a diagnosed error)"""
    fn, args = plan[1], plan[2]
    for i, q in enumerate(args):
        if abs(q) >= OVF:
            return "argument beyond the double range"
        d = to_double(q)
        if q != 0 and d == 0:
            return "argument underflows to 0.0"
        if fn == "log" and q != 1 and d == 1:
            return "log argument rounds to 1.0"
    return None


def judge(case, vals, obs, plan, wrap, ref, ref_exact):
    """-> None, or (signature, text, found_input)"""
    fn, text = case["fn"], case["text"]
    kinds = "/".join("Q" + v[1] if v[0] == "q" else v[1] for v in vals)
    if obs.get("hung"):
        return dict(kind="hang", fn=fn), "%s does not terminate" % text, True
    raw = obs.get("raw") or ""
    if obs.get("escaped"):
        if obs["escaped"] == "OverflowError" and not raw.startswith("E:"):
            return "display", None, None        # evaluation delivered a finite value; display_result failed (C15/C06)
        cause = "other"
        if fn in ("ln", "log2", "log10", "log") and any(v[1] == "F" and v[2] != 0 and abs(v[2]) <= TINY for v in vals):
            cause = "fraction-argument-underflows-to-0.0"
        return (dict(kind="escaped", fn="log-family" if fn in ("ln", "log2", "log10", "log") else fn, exc=obs["escaped"], cause=cause),
                "%s escapes from execute() with %s (neither a value nor a diagnosed error)" % (text, obs["escaped"]), True)
    ok, why = C.well_formed_outcome(obs)
    if not ok:
        return dict(kind="ill-formed-outcome", fn=fn), "%s: %s" % (text, why), True
    if obs["status"] == 0 and bad_text(obs["out"]):
        return dict(kind="non-finite", fn=fn, kinds=kinds), "%s prints %r" % (text, obs["out"].strip()), True
    if obs["status"] == 0 and obs["value"] and obs["value"].startswith(("X:", "Q:X:")):
        v = dec_val(obs["value"])
        if v and v[2].denominator == 1:
            return dict(kind="integral-float-not-int", fn=fn), "%s delivers the integral float %s" % (text, obs["value"]), True
    st = obs["status"]
    if plan[0] == "R":
        if st == 0:
            return (dict(kind="value-outside-domain", fn=fn, kinds=kinds, expected=plan[1]),
                    "%s yields %s; the property demands an error (%s)" % (text, obs["value"], plan[1]), True)
        lenient = plan[1] == "KaRuntimeError" and fn in ("ln", "log2", "log10", "log") and \
            any(v[1] == "F" and v[2] != 0 and abs(v[2]) <= TINY for v in vals)
        if raw != "E:" + plan[1] and not lenient:
            return (dict(kind="error-class", fn=fn, kinds=kinds, expected=plan[1], got=raw),
                    "%s is rejected with %s, the model says %s" % (text, raw, plan[1]), False)
        return None
    if plan[0] == "V":
        if st != 0:
            return (dict(kind="rejected-inside-domain", fn=fn, kinds=kinds, got=raw),
                    "%s is rejected (%s: %s); expected the value %s" % (text, raw, obs["err"].strip()[:80], show_simp(plan[1], plan[2])), True)
        iv, why = impl_number(obs, wrap)
        if iv is None:
            return dict(kind="result-shape", fn=fn, kinds=kinds), "%s: %s" % (text, why), True
        if plan[1] in ("I", "F"):
            exp = show_simp(plan[1], plan[2])
            got = show_simp(iv[0], iv[1])
            if got != exp:
                return (dict(kind="wrong-exact-value", fn=fn, kinds=kinds, got_kind=got[:1], exp_kind=exp[:1]),
                        "%s = %s, exact value is %s" % (text, got, exp), True)
            return None
        if not close(iv[1], plan[2]):
            return (dict(kind="inaccurate", fn=fn, kinds=kinds), "%s = %s, expected %s" % (text, float(iv[1]), float(plan[2])), True)
        return None
    # a libm call
    unrep = unrepresentable(plan, kinds)
    if unrep:
        if st == 1:
            return None
        iv, why = impl_number(obs, wrap)
        if iv is None:
            return dict(kind="result-shape", fn=fn, kinds=kinds), "%s: %s" % (text, why), True
        # the property makes no demand on the value here; where CPython nevertheless computes with the exact
        # argument (math.log of a huge int) the value is compared with the true function all the same
        if unrep == "argument beyond the double range" and isinstance(ref_exact, Fraction) and not close(iv[1], ref_exact):
            return (dict(kind="inaccurate-huge-argument", fn=fn, kinds=kinds),
                    "%s = %r but the function of the exact argument is %r (beyond what the property demands)" % (text, float(iv[1]), float(ref_exact)), False)
        return None
    if isinstance(ref, tuple):
        return dict(kind="reference-failed", fn=fn), "no reference value for %s: %s" % (text, ref[1]), False
    if ref == "HUGE" or (isinstance(ref, Fraction) and abs(ref) >= OVF * (1 + TOL)):
        if st == 0:
            return (dict(kind="value-beyond-double-range", fn=fn, kinds=kinds),
                    "%s yields %s although the result exceeds the double range" % (text, (obs["value"] or "")[:60]), True)
        if raw not in ("E:OverflowError",):
            return (dict(kind="error-class", fn=fn, kinds=kinds, expected="OverflowError", got=raw),
                    "%s overflows; rejected with %s" % (text, raw), False)
        return None
    if isinstance(ref, Fraction) and abs(ref) >= OVF * (1 - TOL) and st == 1 and raw == "E:OverflowError":
        return None
    if st != 0:
        return (dict(kind="rejected-inside-domain", fn=fn, kinds=kinds, got=raw),
                "%s is inside the domain (reference %s) but is rejected: %s %s" % (text, "~0" if ref == "TINY" else float(ref), raw, obs["err"].strip()[:80]), True)
    iv, why = impl_number(obs, wrap)
    if iv is None:
        return dict(kind="result-shape", fn=fn, kinds=kinds), "%s: %s" % (text, why), True
    rv = Fraction(0) if ref == "TINY" else ref
    if not close(iv[1], rv):
        return (dict(kind="inaccurate", fn=fn, kinds=kinds),
                "%s = %r, the function of the (double) argument is %r: relative error %.3g" % (text, float(iv[1]), float(rv), float(abs(iv[1] - rv) / abs(rv)) if rv else float("inf")), True)
    return None


# ------------------------------------------------------------------ run
def absurd_table_probe(ctx):
    """'No evaluation ever yields NaN, an infinity ...' also when the unit multiples themselves are not finite: a user's
    currency table may hold rates float() reads as inf or as a subnormal (regression for /repo 03bfdbb)."""
    import subprocess, json as _json
    rep = ctx["report"]
    for k, table in enumerate(["usd,usdollar,1.0\neur,euro,1e999\ngbp,britishpound,0.8\n", "usd,usdollar,1.0\neur,euro,0.9\nzzz,zed,1e-320\n",
                               "usd,usdollar,1e999\neur,euro,1e999\n", "usd,usdollar,1.0\neur,euro,0.9\nzzz,zed,1.7e308\nyyy,why,5e-324\n"]):
        home = os.path.join(ctx["rundir"], "absurd%d" % k)
        os.makedirs(os.path.join(home, ".config", "ka"))
        open(os.path.join(home, ".config", "ka", "currency"), "w").write(table)
        texts = ["5 eur", "0 eur", "1 usd to gbp", "5 eur + 1 eur", "{5 eur}", "5 zzz", "0 zzz", "1 zzz to yyy", "0 yyy", "sqrt(4 eur * 1 eur)", "abs(0 zzz)", "1 + 1"]
        code = ("import io, json, sys\nfrom ka.interpret import execute\nres = []\n"
                "for t in json.loads(sys.argv[1]):\n    o, e = io.StringIO(), io.StringIO()\n"
                "    try:\n        s = execute(t, out=o, errout=e)\n    except BaseException as x:\n        s = 'escaped ' + type(x).__name__\n"
                "    res.append([t, s, o.getvalue(), e.getvalue()])\nprint(json.dumps(res))\n")
        env = {kk: v for kk, v in os.environ.items() if not kk.startswith(("XDG_", "PYTHON"))}
        env.update(HOME=home, PYTHONPATH=C.SRC, PYTHONHASHSEED="0", PYTHONDONTWRITEBYTECODE="1")
        try:
            p = subprocess.run(["/venv/bin/python", "-c", code, _json.dumps(texts)], env=env, stdout=subprocess.PIPE, stderr=subprocess.PIPE, timeout=120)
            res = _json.loads(p.stdout.decode() or "[]")
        except Exception as x:
            res = []
        for t, st, out, err in res:
            if isinstance(st, str) or bad_text(out) or (st == 0 and err.strip()) or (st == 1 and not err.strip()):
                rep.violation(dict(kind="non-finite-result", via="currency table with non-finite multiples"),
                              "C16: with the currency table %r, %s gives status %r, output %r" % (table, t, st, (out or err).strip()[:80]),
                              dict(text=t, currency_table=table, impl=[st, out[:200], err[:200]]))


def run(ctx):
    # domain errors stay domain errors whatever was refused before them in the same process
    C.seam_check(ctx["report"], ctx["rundir"], "C16", wrappers=[],
                 texts=["(-8)^(1/3)", "(-2)^0.5", "(-1/2)^(3/2)", "sqrt(-4)", "ln(-1)", "log(-8, 2)", "log(8, -2)", "log(0)", "ln(0)", "(-8.0)^(1/3)", "0^(-1)", "0^(-1/2)",
                        "sqrt(-1/4)", "log2(-1)", "log10(0)", "tan(1)", "2^0.5", "(-8)^3", "(-8)^(-3)", "abs(-8)^(1/3)"])
    C.seam_check(ctx["report"], ctx["rundir"], "C16", wrappers=[],
                 pairs=[("abs(5!/(-2*3!))", "10"), ("abs(1/(-2*3!))", "1/12"), ("sqrt(abs(4!/(-1*3!)))", "2"), ("abs(7!/(-1*5!)) m", "42 m"), ("abs(-5!)", "120"), ("abs(5!/-3)", "40"),
                        ("abs(C(5,2)*-3)", "30"), ("abs(3!/(-1*4!))", "1/4"), ("floor(abs(5!/(-7*2!)))", "8"), ("sign(5!/(-2*3!))" if False else "abs(-2*5!)", "240"),
                        ("x = [2, 3]^1000.5; (-8)^(1/3)" if False else "abs(0 - 6!/(-1*5!))", "6"),
                        ("ln(10000000!/9999998!)", "ln(10000000*9999999)"), ("log(C(12000, 2), 3)", "log(71994000, 3)"), ("x = 100000000!/99999999!; ln(x)", "ln(100000000)"),
                        ("log10(20000!/19999!)", "log10(20000)"), ("log2(C(12000, 1))", "log2(12000)"), ("sqrt(20000!/19998!)", "sqrt(20000*19999)"),
                        ("sin(5e-10 rad) == sin(5e-10)", "1"), ("sin(2e-10 rad + 2e-10 rad) == sin(4e-10)", "1")])
    C.config_matrix(ctx["report"], ctx["rundir"], "C16", ["sin(3.14159265)", "cos(1.57079633)", "sin(180.0000003 deg)", "tan(0.5)", "log10(1000.0000005)", "ln(2.718281828)", "log2(1024.0000005)", "log(125.00000006, 5)", "sqrt(2*10^16)", "ln(10000000!/9999998!)", "log(C(100000, 2), 3)", "sin(5e-10 rad)", "2^0.5", "floor(7/2)", "round(5/2)", "int(-7/2)", "sqrt(-1)", "log(8, 1)"])
    absurd_table_probe(ctx)
    import sys
    old = sys.get_int_max_str_digits()
    sys.set_int_max_str_digits(0)       # exact powers of 300-digit operands are longer than CPython's default limit
    try:
        _run(ctx)
    finally:
        sys.set_int_max_str_digits(old)


def _run(ctx):
    rep, tier, seed = ctx["report"], ctx["tier"], ctx["seed"]
    rng = random.Random(seed * 104729 + 16)
    n = 60 if tier == "quick" else 1000
    corpus = list(CORPUS)
    if ctx.get("replay"):
        r = json.load(open(ctx["replay"]))
        cases = [dict(fn=x["fn"], args=list(x["args"]), part="replay") for x in [r["replay"]] + r.get("more", []) if "fn" in x]
        corpus = [(x["text"], x.get("expect", "finite")) for x in [r["replay"]] + r.get("more", []) if "fn" not in x and "text" in x]
    else:
        cases = boundary_cases() + seeded_cases(rng, n)
    seen, uniq = set(), []
    for c in cases:
        c["text"] = case_text(c["fn"], c["args"])
        if c["text"] not in seen:
            seen.add(c["text"])
            uniq.append(c)
    cases = uniq

    # regression corpus first
    cobs = C.run_impl(impl_text, [t for t, _ in corpus], ctx["rundir"], limit=10.0)
    for (t, exp), o in zip(corpus, cobs):
        bad = None
        if o.get("hung"):
            bad = "does not terminate"
        elif o.get("escaped"):
            bad = "escapes with " + o["escaped"]
        elif not C.well_formed_outcome(o)[0]:
            bad = C.well_formed_outcome(o)[1]
        elif o["status"] == 0 and bad_text(o["out"]):
            bad = "prints %r" % o["out"].strip()
        elif exp == "err" and o["status"] != 1:
            bad = "yields %s, an error is demanded" % o["value"]
        elif exp not in ("err", "finite") and o.get("value") != exp:
            bad = "yields %s (status %s %s), expected %s" % (o.get("value"), o["status"], o["err"].strip()[:60], exp)
        if bad:
            rep.violation(dict(kind="corpus", text=t), "C16 corpus: %s %s" % (t, bad), dict(text=t, expect=exp, obs=o))

    # reference values certified inside Coq by the interval tactic (Proofs/ElemOracle.v)
    certified = oracle_points()
    pobs = C.run_impl(impl_text, [t for t, _ in certified], ctx["rundir"], limit=10.0) if not ctx.get("replay") else []
    for (t, y0), o in zip(certified, pobs):
        v = dec_val(o.get("value")) if not o.get("hung") else None
        if v is None or not close(v[2], y0):
            rep.violation(dict(kind="inaccurate-vs-certified", text=t),
                          "C16: %s = %s; Coq-Interval certifies the real value within 1e-14 of %s" % (t, o.get("value") or o.get("raw"), float(y0)),
                          dict(text=t, expect="finite", certified=str(y0)))

    import time
    t0 = time.time()
    obs = C.run_impl(impl_case, cases, ctx["rundir"], limit=10.0)
    C.log("c16: implementation %d cases %.1fs" % (len(cases), time.time() - t0))
    live, skipped = [], 0
    for c, o in zip(cases, obs):
        if o.get("hung"):
            rep.violation(dict(kind="hang", fn=c["fn"]), "%s does not terminate" % c["text"], dict(fn=c["fn"], args=c["args"]))
            continue
        vals = [dec_val(a) for a in o["args"]]
        if any(v is None for v in vals):
            skipped += 1          # an argument does not evaluate to a number/quantity on its own: not a call of the function
            continue
        c["vals"], c["obs"], c["argenc"], c["deg"] = vals, o["obs"], o["args"], o["deg"]
        live.append(c)

    for c in live:
        c["plan"], c["wrap"] = oracle(c["fn"], c["vals"])
        c["oline"] = render(c["plan"], c["wrap"])
        # Z.pow / Qpower iterate n times inside Coq's VM: exact powers with a huge exponent (0, 1, -1 bases
        # are instant in CPython) are judged by the oracle only
        v = c["vals"]
        c["nomodel"] = (c["fn"] == "^" and len(v) == 2 and v[1][0] == "n" and v[1][1] == "I" and abs(v[1][2]) > 4096
                        and v[0][0] == "n" and v[0][1] in ("I", "F")) or \
                       (c["plan"][0] == "V" and c["plan"][2].numerator.bit_length() + c["plan"][2].denominator.bit_length() > 3000)
    model = None
    if ctx["model_ok"]:
        dummy = "(E1 FAbs, [AN (CNum (NInt 0%Z))])"
        model = C.run_model(ctx["rundir"], "c16", IMPORTS, "fun c => show_eplan (eplan (fst c) (snd c))",
                            [dummy if c["nomodel"] else coq_case(c["fn"], c["args"], c["vals"]) for c in live], shard=100,
                            case_type="efun * list earg")
        model = [None if c["nomodel"] else m for c, m in zip(live, model)]
    C.log("c16: model %.1fs" % (time.time() - t0))
    # reference values for every libm call the oracle names
    calls, where = [], []
    for i, c in enumerate(live):
        if c["plan"][0] != "C":
            continue
        args = c["plan"][2]
        rounded = [to_double(q) for q in args]
        if all(r is not None for r in rounded):
            calls.append((c["plan"][1], rounded))
            where.append((i, "ref"))
        if unrepresentable(c["plan"], None):
            calls.append((c["plan"][1], args))
            where.append((i, "ref_exact"))
    # `deg` converts: for moderate angles the result is also compared with the function of the TRUE angle d*pi/180
    for i, c in enumerate(live):
        if c["fn"] in ("sin", "cos", "tan") and c["deg"][0] and c["plan"][0] == "C":
            d = dec_val(c["deg"][0])
            if d is not None and d[0] == "n" and abs(d[2]) <= 720:
                calls.append((c["fn"] + "d", [d[2]]))
                where.append((i, "ref_deg"))
    refs = reference(calls, ctx["rundir"])
    C.log("c16: %d reference values %.1fs" % (len(calls), time.time() - t0))
    for (i, key), r in zip(where, refs):
        live[i][key] = r

    hist, kinds_hist, samples, nontrivial = {}, {}, [], set()
    disagreements = display_escapes = law_checks = accuracy_checks = deg_checks = lazy_cases = 0
    for i, c in enumerate(live):
        m = model[i] if model else None
        o = c["obs"]
        cls = c["plan"][0] + (":" + c["plan"][1] if c["plan"][0] != "V" else "")
        key = "%s %s" % (c["fn"], cls)
        hist[key] = hist.get(key, 0) + 1
        kk = "/".join(("Q" + v[1]) if v[0] == "q" else v[1] for v in c["vals"])
        kinds_hist[kk] = kinds_hist.get(kk, 0) + 1
        nontrivial.add(c["text"])
        if len(samples) < 8 and i % 577 == 11:
            samples.append(dict(input=c["text"], args=c["argenc"], impl=o.get("value") or o.get("raw"), model=m, oracle=c["oline"]))
        replay = dict(fn=c["fn"], args=c["args"], text=c["text"], arg_values=c["argenc"], impl=dict(status=o.get("status"), value=o.get("value"), raw=o.get("raw"), err=(o.get("err") or "")[:200], escaped=o.get("escaped")), model=m, oracle=c["oline"])
        if m is not None and m != c["oline"]:
            rep.violation(dict(kind="model-vs-oracle", fn=c["fn"]),
                          "Gallina eplan and the property oracle disagree on %s: %s vs %s" % (c["text"], m[:120], c["oline"][:120]), replay, found_input=False)
        v = judge(c, c["vals"], o, c["plan"], c["wrap"], c.get("ref"), c.get("ref_exact"))
        if v is not None and v[0] == "display":
            display_escapes += 1
            v = None
        if c["plan"][0] == "C":
            accuracy_checks += 1
        rd = c.get("ref_deg")
        if isinstance(rd, Fraction) and o.get("status") == 0 and not (c["fn"] == "tan" and abs(rd) > 100):
            iv, _ = impl_number(o, c["wrap"])
            deg_checks += 1
            if iv is None or abs(iv[1] - rd) > TOL * max(1, abs(rd)):
                rep.violation(dict(kind="inaccurate-degrees", fn=c["fn"]),
                              "C16: %s = %s, the function of the true angle is %r" % (c["text"], o.get("value"), float(rd)), replay)
        if any(LAZY_RE.match(a) or CHOOSE_RE.match(a) or "!" in a for a in c["args"]):
            lazy_cases += 1
        if v is not None:
            disagreements += 1
            rep.violation(v[0], "C16: " + v[1], replay, found_input=v[2])
        # the rounding laws, directly on what the implementation delivered
        if c["fn"] in ROUNDING and o.get("status") == 0:
            iv, _ = impl_number(o, c["wrap"])
            x = c["vals"][0][2]
            law_checks += 1
            if iv is None or iv[0] != "I" or not rounding_law(c["fn"], x, iv[1].numerator):
                rep.violation(dict(kind="rounding-law", fn=c["fn"], kinds=kk),
                              "C16: %s = %s violates the law of %s for x = %s" % (c["text"], o.get("value"), c["fn"], x), replay)
    rep.coverage.update(dict(
        evaluations=len(live) + len(corpus), distinct_nontrivial=len(nontrivial),
        rule="one case = one function applied to argument texts; boundary part exhaustive over the listed argument pools "
             "(15 functions x int/Fraction/float/lazy/quantity/deg/rad values at, inside and outside every guard and the double range); "
             "seeded part %d points per function; non-trivial = every argument evaluates on its own so the function body is reached; "
             "distinct by rendered text; %d generated cases skipped because an argument itself is an error" % (n, skipped),
        exhaustive=False, samples=samples, outcome_histogram=hist, argument_kind_histogram=kinds_hist,
        traces_validated_against_impl=len(live), disagreements=disagreements, kernel_lane_cases=len([m for m in model if m is not None]) if model else 0,
        libm_calls_checked_against_reference=accuracy_checks, rounding_law_checks=law_checks, corpus=len(corpus),
        display_escapes_outside_c16=display_escapes,
        interval_certified_points=len(certified), degree_true_angle_checks=deg_checks, lazy_argument_cases=lazy_cases))
    rep.assumptions += [
        "libm/CPython float functions are external: accuracy validated per sample against mpmath (1e-12), not proved",
        "floats idealised as exact rationals in the model; value comparisons with floats are by tolerance 1e-12",
        "reference for an exact argument is the function at the argument rounded to a double (property text)",
        "a huge Fraction result that display_result cannot print (OverflowError in float(r)) is counted, not judged: display is C15/C06",
    ]
