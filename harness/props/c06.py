"""C06 — every input ends in a value or a diagnosed error: never a crash or a hang.
Theorems: coq/Properties/C06.v (except lists regenerated from the source; modelled evaluators raise only
diagnosed classes; caret arithmetic; command dispatcher).  This module is the other half: the outcome
predicate itself on the implementation for every function x every kind of value, all short strings,
token soups, well-formed programs, `%` commands and the CLI exit code."""
import itertools, json, os, random, re, subprocess, sys
import common as C
from props import c01, c05

ID = "C06"
COQ_TARGETS = ["Properties/C06.vo", "GenFacts/EvalSrcFacts.vo"]
MODEL_TARGETS = ["Model/Exec.vo"]
IMPORTS = "From Ka Require Import Model.Exec.\nOpen Scope string_scope.\n"

VALUES = [
    ("int", "0"), ("int", "1"), ("int", "(-1)"), ("int", "2"), ("int", "7"), ("int", "10^30"),
    ("frac", "(1/2)"), ("frac", "(-7/3)"),
    ("float", "0.5"), ("float", "2.0"), ("float", "1000000000000000.5"), ("float", "1.5e-300"),
    ("lazy", "3!"), ("lazy", "C(5,2)"), ("lazy", "(0*3!)"), ("lazy", "(5!/7)"), ("lazy", "(3!/4!)"),
    ("qty", "(4 m)"), ("qty", "(0 m)"), ("qty", "(90 deg)"), ("qty", "(2 kg m|s^2)"), ("qty", "(25 degC)"), ("qty", "(3 s)"), ("qty", "((1/3) s)"),
    ("arr", "{}"), ("arr", "{1,2,3}"), ("arr", "{1 m, 2 m}"), ("arr", "{{1},{2}}"), ("arr", "{\"a\"}"), ("arr", "{1, 2 m}"),
    ("intv", "[1,2]"), ("intv", "[-1,1]"), ("intv", "[0,0]"),
    ("inst", "#2024-01-31#"), ("inst", "#9999-12-31T23:59:59#"), ("inst", "#0001-01-01#"),
    ("inst", "#2024-01-31T00:00:00+00:00#"), ("inst", "#2024-02-29T12:00:00-05:00#"),
    ("str", "\"abc\""), ("str", "\"\""),
    ("rv", "Binomial(3,1/2)"), ("rv", "Poisson(2)"), ("rv", "Geometric(1)"), ("rv", "Bernoulli(1/3)"), ("rv", "UniformInt(1,3)"),
    ("rv", "Exponential(1)"), ("rv", "Uniform(1,1)"), ("rv", "Gaussian(0,1)"),
    ("event", "(Bernoulli(1/3) <= 0)"), ("event", "(0 < Uniform(0,1) < 1)"),
    # spellings that the constructors must refuse (then the value is a diagnosed error wherever it is used)
    ("rv", "Binomial(5/2,1/2)"), ("rv", "Poisson(2.5)"), ("event", "(Binomial(7/2,0.5) <= 3)"),
    ("plot", "vline(1)"), ("plot", "options(title: \"t\")"),
]
INFIX = {"+", "-", "*", "/", "%", "^", "<", "<=", "==", "!=", ">", ">=", "±", "in", "="}
PLOT_NAMES = {"plot", "line", "scatter", "histogram", "vline", "hline", "text", "options"}
ALPHABET = ["0", "1", "9", "a", "e", "x", "b", "t", "o", "i", "n", "A", ".", "-", "+", "<", "=", "!", "\"", "#", "\\", " ", "\t",
            "€", "²", "é", "@", "_", "㎞", "½", "ﬁ", "(", ")", "{", "}", "[", "]", ",", ":", ";", "|", "^", "*", "/", "%", "±", "μ"]
TOKEN_TEXTS = ["1", "2.5", "1e3", "0x1F", "x", "pi", "sin", "m", "kg", "to", "in", "..", "[", ",", "]", "==", "!=", "<=", ">=", "<", ">",
               "=", ";", "(", ")", "+", "-", "*", "/", "%", "^", "±", "!", "|", "{", "}", ":", "\"s\"", "#2024-01-01#", "C", "max", "3!"]


def call_text(name, args):
    if name == "!" and len(args) == 1:
        return "(%s)!" % args[0]
    if name in ("+", "-") and len(args) == 1:
        return "%s(%s)" % (name, args[0])
    if name in INFIX and len(args) == 2:
        return "%s %s %s" % (args[0], name, args[1])
    if "_" in name and len(args) == 3 and all(p in ("<", "<=") for p in name.split("_")):
        a, b = name.split("_")
        return "%s %s %s %s %s" % (args[0], a, args[1], b, args[2])
    if name[0].isalpha():
        return "%s(%s)" % (name, ", ".join(args))
    return None


# ------------------------------------------------------------------ worker
_rec = None


def _install():
    global _rec
    if _rec is not None:
        return
    import ka.interpret as I
    _rec = []
    orig = I.error

    def error(msg, index, s, errout):
        _rec.append((msg, index, s))
        return orig(msg, index, s, errout)
    I.error = error
    os.environ["MPLBACKEND"] = "Agg"


def impl_case(text):
    _install()
    del _rec[:]
    o = C.observe(text)
    o["markers"] = list(_rec[:1])     # execute() ran first inside observe
    # prefix validity for a reported position
    if o["markers"]:
        from ka.tokens import tokenise
        msg, index, s = o["markers"][0]
        try:
            tokenise(s[:index]) if 0 <= index <= len(s) else None
            o["prefix_ok"] = 0 <= index <= len(s)
        except Exception as x:
            o["prefix_ok"] = False
            o["prefix_err"] = type(x).__name__
    return o


def impl_cmd(line):
    import io, contextlib
    import ka.interpret as I
    from ka.functions import ExitKaSignal
    buf = io.StringIO()
    try:
        with contextlib.redirect_stdout(buf):
            I.execute_interpreter_command(line)
        return dict(line=line, ok=True, out=buf.getvalue()[:200])
    except ExitKaSignal:
        return dict(line=line, ok=True, quit=True)
    except C.CaseTimeout:
        raise
    except BaseException as x:
        return dict(line=line, ok=False, escaped=type(x).__name__)


DEFAULT_RECURSION_LIMIT = 1000      # CPython's, which `ka` never changes


def impl_deep(text):
    """execute() only: the harness's own encoders recurse, and must not stand in for Ka's stack"""
    import io
    from ka.interpret import execute
    from ka.eval import EvalEnvironment
    o, e = io.StringIO(), io.StringIO()
    old = sys.getrecursionlimit()
    sys.setrecursionlimit(DEFAULT_RECURSION_LIMIT)      # the workers raise it for the harness's own encoders; a user has the default
    try:
        st = execute(text, EvalEnvironment(), out=o, errout=e)
        return dict(status=st, out=o.getvalue()[:200], err=e.getvalue()[:200])
    except C.CaseTimeout:
        raise
    except BaseException as x:
        return dict(status=None, escaped=type(x).__name__, out=o.getvalue()[:200], err=e.getvalue()[:200])
    finally:
        sys.setrecursionlimit(old)


def impl_deep_session(spec):
    """spec = (first input, repeated input, times, probes): a value grown step by step over one session; the first
    outcome that is not well formed is returned (with the step), else the last one"""
    import io
    from ka.interpret import execute
    from ka.eval import EvalEnvironment
    first, again, times, probes = spec
    env = EvalEnvironment()
    last = None
    old = sys.getrecursionlimit()
    sys.setrecursionlimit(DEFAULT_RECURSION_LIMIT)
    try:
        for step, text in enumerate([first] + [again] * times + list(probes)):
            o, e = io.StringIO(), io.StringIO()
            try:
                st = execute(text, env, out=o, errout=e)
                last = dict(step=step, text=text, status=st, out=o.getvalue()[:80], err=e.getvalue()[:200])
            except C.CaseTimeout:
                raise
            except BaseException as x:
                return dict(step=step, text=text, status=None, escaped=type(x).__name__, out=o.getvalue()[:80], err=e.getvalue()[:200])
            if not C.well_formed_outcome(last)[0]:
                return last
        return last
    finally:
        sys.setrecursionlimit(old)


def deep_inputs():
    """nesting and length far beyond what the Python stack carries: every construct that recurses in the parser, the
    evaluator or the display"""
    out = []
    for n in (30, 45, 60, 75, 90, 99, 120, 200, 480, 990, 3000, 20000):
        out += [("paren", "(" * n + "1" + ")" * n), ("array", "{" * n + "1" + "}" * n), ("call", "abs(" * n + "1" + ")" * n),
                ("minus", "-" * n + "1"), ("call2", "max(1, " * n + "1" + ")" * n), ("unit", "(" * n + "1 m" + ")" * n + " to cm"),
                ("comprehension", "{x : x in " * n + "{1}" + "}" * n), ("interval", "[0, " * n + "1" + "]" * n),
                ("mixed", "{(-abs(" * n + "1" + "))}" * n), ("open", "(" * n + "1"), ("open-array", "{" * n)]
    for n in (12, 25, 40, 70, 150, 400):
        w = ("totalResistanceOfParallelBranch" * (n // 30 + 1))[:n]
        out += [("long-function-name", "%s(1)" % w), ("long-variable-name", "%s + 1" % w), ("long-unit-name", "1 %s" % w), ("long-name-assigned", "%s = 2; %s * 3" % (w, w)),
                ("long-keyword-name", "sin(1, %s: 2)" % w), ("long-string", "\"%s\"" % (w * 10)), ("long-conversion-target", "1 m to %s" % w)]
    for n in (300, 600, 900, 960, 975, 985, 990, 1000, 1500, 4000, 30000):
        out += [("sum", "+".join(["1"] * n)), ("product", "*".join(["2"] * n)), ("power", "^".join(["1"] * n)), ("compare", "<".join(["1"] * n)),
                ("sum-units", " + ".join(["1 m"] * n)), ("statements", ";".join(["x=1"] * n)), ("elements", "{" + ",".join(["1"] * n) + "}"),
                ("factorials", "1" + "!" * n), ("division", "/".join(["1"] * n)), ("units", "1" + " m" * n), ("range-chain", "..".join(["1"] * n)),
                ("assign-sum", "x = " + "+".join(["1"] * n) + "; x")]
    return out


def layout(ctx, ind, ln, index):
    low = max(0, index - ctx)
    high = min(ln, index + ctx + 1)
    lf = 0 if low == 0 else 3
    rf = 0 if high == ln else 3
    return low, high, lf, rf, ind + lf + index - low


def check_marker(o, d):
    """the printed diagnostic is what error() lays out, and the caret lies under the context line"""
    msg, index, s = o["markers"][0]
    if not (0 <= index <= len(s)):
        return "position %d outside the input (length %d)" % (index, len(s))
    if not o.get("prefix_ok"):
        return "text before the marker is not lexically valid (%s)" % o.get("prefix_err")
    if not s:
        return None
    low, high, lf, rf, col = layout(d["error_context_size"], d["indent"], len(s), index)
    lines = o["err"].split("\n")
    want_ctx = " " * d["indent"] + ("..." if lf else "") + s[low:high] + ("..." if rf else "")
    want_caret = " " * col + "^"
    # the context may itself contain newlines (input with '\n'): compare joined text
    body = "\n".join(lines[2:])
    if not body.startswith(want_ctx + "\n" + want_caret):
        return "diagnostic layout differs from error(): %r" % (o["err"][:120],)
    if not (d["indent"] + lf <= col <= d["indent"] + lf + (high - low)):
        return "caret column %d outside the context line" % col
    return None


NUM_LIT = re.compile(r"0[bodx][0-9A-Fa-f]+|(\d+)(?:\.(\d*))?(?:[eE]([+-]?\d+))?|\.(\d+)(?:[eE]([+-]?\d+))?")
AMPLIFIERS = re.compile(r"\^|!|\.\.|\b(?:range|factorial|choose|C|perm|P|sample|repeat|linspace)\s*\(")


def small_input(text):
    """C06 promises promptness only 'for inputs whose literals, exponents, factorial arguments and range lengths are
    small'.  A time-out is therefore held against the implementation only when the text is plainly small: every numeric
    literal has at most 4 significant places and a scientific exponent within +-4, at most one size-amplifying
    construct (^, !, .., range/factorial/choose/sample...) and at most one product.  Anything else is counted, with
    examples, as slow-on-large-argument and not reported."""
    for m in NUM_LIT.finditer(text):
        lit = m.group(0)
        if lit[:2].lower() in ("0b", "0o", "0d", "0x"):
            if len(lit) > 6:
                return False
            continue
        digs = len((m.group(1) or "").lstrip("0")) + len(m.group(2) or m.group(4) or "")
        ex = m.group(3) or m.group(5) or "0"
        if digs > 4 or abs(int(ex)) > 4:
            return False
    return len(AMPLIFIERS.findall(text)) <= 1 and text.count("*") <= 1


def strict_text(text):
    """plot-valued calls reach matplotlib, which writes its own warnings: their streams are not held against Ka"""
    return not any(n + "(" in text for n in PLOT_NAMES)


def sig_of(text, why):
    head = text.split("(")[0].strip()[:12] if text and text[0].isalpha() else "expr"
    return dict(kind="outcome", why=why[:60], head=head)


def run(ctx):
    C.config_matrix(ctx["report"], ctx["rundir"], "C06", ["1+1", "1/0", "10^400/3", "(10^400/3) m", "x = 2^2000/7; x", "171!*171!/173", "5 Hz + 2 s", "3 ohm < 2 S", "sin(1, zz: 2)", "nosuchfn(1)", "\"abc", "1 +", "5 m to s", "{1, 2 m}", "#2024-02-30#", "10^5000", "(1/3) m", "[1/3, 0.5]", "{10^400/7}"])
    rep, tier, seed = ctx["report"], ctx["tier"], ctx["seed"]
    d = json.load(open(C.BUILD + "/dump.json"))
    rng = random.Random(seed * 65537 + 6)
    cases = []          # (family, text, strict)
    # ---- A: every registered function x every kind of value
    for reg in d["registry"]:
        name = reg["name"]
        if name in ("quit",):
            continue
        arities = sorted(set(len(s["args"]) for s in reg["sigs"]) | ({0, 1, 2, 3} if any(s["vararg"] for s in reg["sigs"]) else set()))
        for ar in arities:
            if ar == 0:
                combos = [()]
            elif ar == 1:
                combos = [(v,) for v in VALUES]
            elif ar == 2:
                combos = list(itertools.product(VALUES, repeat=2))
                if tier == "quick" and name not in INFIX:
                    combos = rng.sample(combos, 500)
            else:
                combos = [tuple(rng.choice(VALUES) for _ in range(ar)) for _ in range(300 if tier == "quick" else 4000)]
            for combo in combos:
                t = call_text(name, [v for _, v in combo])
                if t:
                    strict = name not in PLOT_NAMES and not any(k == "plot" for k, _ in combo)
                    cases.append(("call:%s/%d" % (name, ar), t, strict))
        # wrong arity and keywords
        if name[0].isalpha():
            cases.append(("call:%s/arity" % name, "%s(%s)" % (name, ", ".join(["1"] * 5)), name not in PLOT_NAMES))
            cases.append(("call:%s/kw" % name, "%s(1, zz: 2)" % name, name not in PLOT_NAMES))
            for s in reg["sigs"]:
                for kw, _ in s["kws"][:3]:
                    for _, v in rng.sample(VALUES, 4):
                        args = ", ".join({"Array": "{1,2}", "Number": "1", "String": "\"s\""}.get(a, "1") for a in s["args"])
                        cases.append(("call:%s/kw" % name, "%s(%s%s%s: %s)" % (name, args, ", " if args else "", kw, v), False))
    cases.append(("call:unknown", "nosuchfn(1)", True))
    # conversions and unit tagging of every kind
    for k, v in VALUES:
        cases += [("tag", "%s m" % v, k != "plot"), ("conv", "%s to m" % v, k != "plot"), ("conv", "%s to degC" % v, k != "plot"),
                  ("array", "{%s, %s}" % (v, v), k != "plot"), ("interval", "[%s, %s]" % (v, v), k != "plot"),
                  ("range", "%s..%s" % (v, v), k != "plot"), ("assign", "x = %s; x" % v, k != "plot"),
                  ("comp", "{y : y in %s}" % v, k != "plot"), ("comp", "{1 : y in {1,2}, %s}" % v, k != "plot")]
    n_calls = len(cases)
    # ---- B: all short strings
    maxlen = 3 if tier == "quick" else 3
    alpha = ALPHABET if tier != "quick" else ALPHABET
    for n in range(0, 3):
        for t in itertools.product(alpha, repeat=n):
            cases.append(("string", "".join(t), True))
    for t in (itertools.product(alpha[:24], repeat=3) if tier == "quick" else itertools.product(alpha, repeat=3)):
        cases.append(("string", "".join(t), True))
    # ---- C: token soups
    for _ in range(6000 if tier == "quick" else 120000):
        n = rng.randrange(1, 9)
        sep = rng.choice(["", " ", " ", "  "])
        cases.append(("soup", sep.join(rng.choice(TOKEN_TEXTS) for _ in range(n)), True))
    # ---- D: well-formed programs from the other properties' generators
    for _ in range(1500 if tier == "quick" else 30000):
        cases.append(("program", c01.ka_text(c01.rand_tree(rng, rng.choice([2, 3, 4]))), True))
        cases.append(("program", c05.ka_text(c05.rand_tree(rng, rng.choice([2, 3, 4]))), True))
    # regression corpus
    corpus = ["max(1)", "min()", "ceil(#2024-01-31#)", "#2024-01-01# + 1500 ms", "#2024-01-01T10:00:00+02:00# - #2024-01-01T10:00:00#",
              "log(8,0)", "log(8,-2)", "1.5e999", "10^5000", "range(1,5,0)", "range(1,5,-1)", "sample(Geometric(1))",
              "P(Binomial(3,0.5) <= 5/2)", "5!/(0*3!)", "3! m", "abs(3! m)", "instant", "15.0e308", "options(title: \"a\")", "1 kilodegC",
              "1 μs to s", "sin(1e308*10.5)", "x = 1.5e308*10; round(x-x)", "1e308*10.5", "1e308*10.5 - 1e308*10.5", "floor(1e308*10.5)",
              "#2024-01-01# + (1e308*10.5) s", "㎞ +", "㎏ ㎏ )", "1 ½", "㎞ ?", "", " ", "(", "1 +", "\"abc", "#2024", "0b102", "x", "1/0", "2^(1/2)", "{x : 1 < 2}",
              "n = 2; {n : n in 1..(n+1)}", "{true : true in 1..(true+1)}", "k = {1,2}; {k : k in k}", "x = 1; {x : x in {x, x+1}, x in {x}}", "log(8, 1)", "log(1, 1)",
              "b = 1; log(1000, b)", "{log(x, 1) : x in 1..3}", "max({#2020-01-01#, #2021-06-01#})", "min({[1,2],[3,4]})", "max({x! : x in 1..4})",
              "3! in {1, 2, 6}", "C(5,2) in 1..10", "4! == \"24\"", "max({{1},{2}})", "1/sin(1e-320)", "sin(1/sin(1e-320))", "cos(0, x: 0)"]
    cases = [("corpus", t, True) for t in corpus] + cases
    if ctx.get("replay"):
        r = json.load(open(ctx["replay"]))
        cases = [("replay", x["text"], True) for x in [r["replay"]] + r.get("more", []) if "text" in x]
    # dedupe
    seen, uniq = set(), []
    for c in cases:
        if c[1] not in seen:
            seen.add(c[1])
            uniq.append(c)
    cases = uniq
    obs = C.run_impl(impl_case, [c[1] for c in cases], ctx["rundir"], limit=5.0 if tier == "quick" else 10.0,
                     env_extra={"MPLBACKEND": "Agg"})
    # an input that did not return within the limit gets a second, much longer chance on its own before it is called a
    # hang (the workers share the machine with whatever else is running)
    slow = [i for i, o in enumerate(obs) if o.get("hung") and cases[i][2] and small_input(cases[i][1]) and "10^30" not in cases[i][1]]
    if slow:
        again = C.run_impl(impl_case, [cases[i][1] for i in slow], ctx["rundir"], limit=60.0, env_extra={"MPLBACKEND": "Agg"}, chunksize=1, procs=min(8, len(slow)))
        for i, o in zip(slow, again):
            obs[i] = o
    hist, fam, nontrivial, samples, markers = {}, {}, 0, [], 0
    slow_examples = []
    for (family, text, strict), o in zip(cases, obs):
        fam[family.split(":")[0]] = fam.get(family.split(":")[0], 0) + 1
        if o.get("hung") and ("10^30" in text or not small_input(text)):
            # the property promises promptness only for small literals, exponents, factorial arguments and range lengths
            hist["slow-on-large-argument"] = hist.get("slow-on-large-argument", 0) + 1
            if len(slow_examples) < 12:
                slow_examples.append(text[:80])
            continue
        if o.get("hung") and not strict:
            # plot-valued calls reach matplotlib (first import builds a font cache, seconds on a fresh machine):
            # rendering is outside the model, and its wall-clock is not the evaluator's
            hist["slow-plot-rendering"] = hist.get("slow-plot-rendering", 0) + 1
            continue
        if o.get("hung"):
            hist["hung"] = hist.get("hung", 0) + 1
            rep.violation(dict(kind="hang", head=sig_of(text, "")["head"]), "C06 fails: `%s` did not return within the time limit" % text[:200],
                          dict(text=text, outcome="hung"))
            continue
        ok, why = C.well_formed_outcome(o)
        key = "value" if o.get("status") == 0 else ("diagnosed" if o.get("status") == 1 else "escaped")
        hist[key] = hist.get(key, 0) + 1
        if key != "diagnosed" or o.get("markers"):
            nontrivial += 1
        if not ok and (strict or o.get("escaped")):
            rep.violation(sig_of(text, why), "C06 fails: `%s`: %s" % (text[:200], why),
                          dict(text=text, outcome=why, status=o.get("status"), out=(o.get("out") or "")[:200], err=(o.get("err") or "")[:300]))
            continue
        if ok and o["status"] == 0 and strict:
            lo = (o.get("out") or "").lower()
            if "nan" in lo.split() or " inf" in (" " + lo) or "infinity" in lo:
                rep.violation(dict(kind="nan-or-inf", head=sig_of(text, "")["head"]), "`%s` displays %r" % (text[:200], o["out"][:60]),
                              dict(text=text, out=o["out"][:200]))
        if o.get("markers"):
            markers += 1
            bad = check_marker(o, d)
            if bad:
                rep.violation(dict(kind="marker", why=bad[:50]), "C06 fails: `%s`: %s" % (text[:200], bad),
                              dict(text=text, err=o.get("err"), marker=o["markers"][0][:2]))
        if len(samples) < 8 and len(text) > 3 and hash(text) % 3001 == 7:
            samples.append(dict(input=text, status=o.get("status"), out=(o.get("out") or "")[:60], err=(o.get("err") or "")[:60]))
    # ---- G: nesting and length beyond the Python stack (the parser, the evaluator and the display all recurse)
    deep = deep_inputs() if not ctx.get("replay") else []
    dobs = C.run_impl(impl_deep, [t for _, t in deep], ctx["rundir"], limit=20.0, chunksize=8)
    for (family, text), o in zip(deep, dobs):
        fam["deep"] = fam.get("deep", 0) + 1
        short = text if len(text) < 60 else "%s…%s (%d characters, %s)" % (text[:24], text[-12:], len(text), family)
        if o.get("hung"):
            if family in ("factorials", "power", "product"):
                continue        # amplifiers: promptness is promised for small arguments only
            rep.violation(dict(kind="hang", head="deep:" + family), "C06 fails: `%s` did not return within the time limit" % short, dict(text=text, outcome="hung"))
            continue
        ok, why = C.well_formed_outcome(o)
        hist["deep:" + ("value" if o.get("status") == 0 else "diagnosed" if o.get("status") == 1 else "escaped")] = \
            hist.get("deep:" + ("value" if o.get("status") == 0 else "diagnosed" if o.get("status") == 1 else "escaped"), 0) + 1
        if not ok:
            rep.violation(dict(kind="deep", family=family, why=why[:40]), "C06 fails: `%s`: %s" % (short, why),
                          dict(text=text, outcome=why, status=o.get("status"), out=o.get("out"), err=o.get("err")))
    grown = [("a = {1}", "a = {a}", 700, ["a", "{a}", "len(a)"]), ("a = 1", "a = (a + 1)", 1500, ["a"]), ("a = {1}", "a = {a, a}", 18, ["a"]),
             ("a = [0, 1]", "a = a + a", 1200, ["a"]), ("a = 1 m", "a = a * (1 m)", 1200, ["a"])] if not ctx.get("replay") else []
    for spec, o in zip(grown, C.run_impl(impl_deep_session, grown, ctx["rundir"], limit=120.0, chunksize=1)):
        fam["deep"] = fam.get("deep", 0) + 1
        what = "`%s` then %d times `%s`" % (spec[0], spec[2], spec[1])
        if o.get("hung"):
            rep.violation(dict(kind="hang", head="deep-session"), "C06 fails: the session %s did not return" % what, dict(text=what, outcome="hung"))
            continue
        ok, why = C.well_formed_outcome(o)
        if not ok:
            rep.violation(dict(kind="deep", family="session", why=why[:40]),
                          "C06 fails: in the session %s, step %d `%s`: %s (output %r, diagnostic %r)" % (what, o.get("step"), o.get("text"), why, o.get("out"), (o.get("err") or "")[:60]),
                          dict(text=what, first=spec[0], repeated=spec[1], times=spec[2], step=o.get("step"), input=o.get("text"), outcome=why, out=o.get("out"), err=o.get("err")))
    # ---- E: `%` commands
    names = [n for c in d["commands"] for n in c["names"]] + ["", "zz", "unit", "U"]
    lines = ["%"] + ["%" + sp + n + a for n in names for sp in ("", " ") for a in ("", " m", " sin", " kilodegC", " a b", "  ", " \t x")]
    cobs = C.run_impl(impl_cmd, lines, ctx["rundir"], limit=10.0)
    for o in cobs:
        if o.get("hung") or not o.get("ok"):
            rep.violation(dict(kind="command", cls=o.get("escaped", "hung")), "C06 fails: interpreter command %r: %s" % (o.get("line"), o.get("escaped", "hung")),
                          dict(command=o.get("line"), outcome=o.get("escaped", "hung")))
    # ---- F: CLI exit code equals the status
    cli = ["1+1", "1/0", "(", "max()", "x = 3", "\"a\"", "1 m + 1 s", "3!", "sqrt(-1)", "{1,2}", "5 Hz + 2 s", "3 ohm < 2 S", "4 m^-1 == 4 m", "sin(1, zz: 2)",
           "vline(1, weight: \"a\")", "nosuchfn(1)", "SQRT(2)", "mdegC(3)", "km(3)", "#2024-02-30#", "\"abc", "1 +", "5 m to s", "1 kdegC", "10^400/3", "(10^400/3) m", "(" * 150 + "1" + ")" * 150, "+".join(["1"] * 1500), "{" * 120 + "1" + "}" * 120]
    # one input per distinct diagnostic (first 24 characters of the message): the streams of the real process count
    seen_diag = set()
    for (f, t, strict), ob in zip(cases, obs):
        if ob.get("status") == 1 and strict and len(t) < 60 and "\n" not in t and "\x00" not in t:
            k = (ob.get("err") or "").strip()[:24]
            if k and k not in seen_diag and len(seen_diag) < (30 if tier == "quick" else 200):
                seen_diag.add(k)
                cli.append(t)
    home = os.path.join(ctx["rundir"], "clihome")
    os.makedirs(home, exist_ok=True)

    def run_cli(expr):
        try:
            return subprocess.run(["/venv/bin/python", "-m", "ka.cli", expr], env=dict(os.environ, HOME=home, PYTHONPATH=C.SRC, MPLBACKEND="Agg"),
                                  stdout=subprocess.PIPE, stderr=subprocess.PIPE, text=True, timeout=60)
        except (subprocess.TimeoutExpired, ValueError) as x:
            return x
    from concurrent.futures import ThreadPoolExecutor
    with ThreadPoolExecutor(8) as ex:
        procs = list(ex.map(run_cli, cli))
    known = {t: ob for (f, t, s), ob in zip(cases, obs)}
    missing = [e for e in cli if e not in known]
    for e, ob in zip(missing, C.run_impl(impl_case, missing, ctx["rundir"], limit=10.0) if missing else []):
        known[e] = ob
    cli_deep = [e for e in cli if len(e) > 200]
    for e, ob in zip(cli_deep, C.run_impl(impl_deep, cli_deep, ctx["rundir"], limit=20.0) if cli_deep else []):
        known[e] = ob           # under the default recursion limit, as the command line runs
    for expr, p in zip(cli, procs):
        if isinstance(p, ValueError):
            continue            # an argument the operating system cannot pass (embedded NUL)
        o = known[expr]
        if isinstance(p, subprocess.TimeoutExpired):
            if not o.get("hung"):
                rep.violation(dict(kind="cli-status"), "C06 fails: `ka %r` does not return" % (expr,), dict(text=expr))
            continue
        if o.get("hung") or (not strict_text(expr)):
            continue
        bad = None
        if p.returncode != o.get("status") or "Traceback" in p.stderr:
            bad = "exits with %r, execute() status is %r" % (p.returncode, o.get("status"))
        elif p.returncode == 1 and p.stdout.strip() != "":
            bad = "exits with 1 but writes %r on the output stream" % p.stdout.strip()[:80]
        elif p.returncode == 1 and p.stderr.strip() == "":
            bad = "exits with 1 and an empty diagnostic"
        elif p.returncode == 0 and p.stderr.strip() != "":
            bad = "exits with 0 but writes %r on the error stream" % p.stderr.strip()[:80]
        if bad:
            rep.violation(dict(kind="cli-status"), "C06 fails: `ka %r` %s" % (expr, bad),
                          dict(text=expr, exit=p.returncode, status=o.get("status"), stdout=p.stdout[-200:], stderr=p.stderr[-300:]))
    # ---- the command line on a terminal: the streams are told apart even when one of them is a tty
    import pty

    def run_cli_tty(spec):
        expr, which = spec
        m, sl = pty.openpty()
        try:
            p = subprocess.run(["/venv/bin/python", "-m", "ka.cli", expr], env=dict(os.environ, HOME=home, PYTHONPATH=C.SRC, MPLBACKEND="Agg", TERM="xterm"),
                               stdin=subprocess.DEVNULL, stdout=(sl if which == "stdout" else subprocess.PIPE), stderr=(sl if which == "stderr" else subprocess.PIPE), timeout=60)
        except subprocess.TimeoutExpired as x:
            return x
        finally:
            os.close(sl)
        data = b""
        try:
            os.set_blocking(m, False)
            while True:
                chunk = os.read(m, 65536)
                if not chunk:
                    break
                data += chunk
        except OSError:
            pass
        finally:
            os.close(m)
        return p, data
    tty_specs = [(e, w) for e in ("1+1", "1/0", "(", "nosuchfn(1)", "1 m + 1 s", "1/3", "{1, 2 m}", "sin(1, zz: 2)", "\"abc") for w in ("stderr", "stdout")]
    with ThreadPoolExecutor(6) as ex:
        tty_runs = list(ex.map(run_cli_tty, tty_specs))
    for (expr, which), r in zip(tty_specs, tty_runs):
        if isinstance(r, subprocess.TimeoutExpired):
            rep.violation(dict(kind="cli-status"), "C06 fails: `ka %r` with a terminal on %s does not return" % (expr, which), dict(text=expr, terminal_on=which))
            continue
        p, data = r
        piped = (p.stdout if which == "stderr" else p.stderr) or b""
        out_b, err_b = (piped, data) if which == "stderr" else (data, piped)
        st = known.get(expr, {}).get("status")
        bad = None
        if st is not None and p.returncode != st:
            bad = "exits with %r, execute() status is %r" % (p.returncode, st)
        elif p.returncode == 1 and out_b.strip() != b"":
            bad = "exits with 1 but writes %r on the output stream" % out_b[:60]
        elif p.returncode == 1 and err_b.strip() == b"":
            bad = "exits with 1 and an empty diagnostic"
        elif p.returncode == 0 and err_b.strip() != b"":
            bad = "exits with 0 but writes %r on the error stream" % err_b[:60]
        if bad:
            rep.violation(dict(kind="cli-status", terminal_on=which), "C06 fails: `ka %r` with a terminal on %s %s" % (expr, which, bad),
                          dict(text=expr, terminal_on=which, exit=p.returncode, stdout=repr(out_b[-200:]), stderr=repr(err_b[-300:])))
    # ---- correspondence of the error layout with the Coq model on every distinct (len, index)
    disagreements = 0
    if ctx["model_ok"]:
        pairs = sorted(set((len(o["markers"][0][2]), o["markers"][0][1]) for o in obs if o.get("markers") and o["markers"][0][2]
                           and 0 <= o["markers"][0][1] <= len(o["markers"][0][2])))[:3000]
        terms = ["(%d%%nat, %d%%nat)" % p for p in pairs]
        show = ("fun p => let L := layout %d %d (fst p) (snd p) in show_nat (e_low L) ++ \",\" ++ show_nat (e_high L) ++ \",\" ++ show_nat (e_left_fade L) ++ \",\" ++ show_nat (e_right_fade L) ++ \",\" ++ show_nat (e_caret_col L)"
                % (d["error_context_size"], d["indent"]))
        mo = C.run_model(ctx["rundir"], "c06", IMPORTS, show, terms, shard=1500, case_type="nat * nat")
        for (ln, ix), m in zip(pairs, mo):
            if m != ",".join(str(x) for x in layout(d["error_context_size"], d["indent"], ln, ix)):
                disagreements += 1
                rep.violation(dict(kind="correspondence", family="layout"), "error layout model disagrees for len=%d index=%d: %s" % (ln, ix, m),
                              dict(len=ln, index=ix, model=m), found_input=False)
    rep.coverage.update(dict(
        evaluations=len(cases) + len(lines) + len(cli), distinct_nontrivial=nontrivial,
        rule="every registered function/operator x argument tuples over %d representative values of every kind (exhaustive for arity<=1 and infix operators, sampled otherwise), wrong arities and keywords, every kind tagged/converted/in arrays, intervals, ranges, comprehensions (%d); all strings of length<=2 over a %d-symbol alphabet and length 3 (reduced alphabet in quick); token soups; well-formed arithmetic/combinatoric programs; every %% command line shape; CLI exit codes; non-trivial = distinct input that produced a value or a positioned diagnostic" % (len(VALUES), n_calls, len(ALPHABET)),
        exhaustive=False, samples=samples, outcome_histogram=hist, slow_on_large_argument_examples=slow_examples, families=fam, positioned_diagnostics_checked=markers,
        command_lines=len(lines), cli_runs=len(cli), traces_validated_against_impl=len(cases), disagreements=disagreements))
    rep.assumptions += ["plot results: rendering (matplotlib) is outside the model; for plot-valued calls only escapes and hangs are reported",
                        "per-input wall-clock limit stands in for 'returns promptly'; memory exhaustion is not observed"]
