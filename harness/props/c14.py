"""C14 — variables, sessions and namespaces behave like a calculator memory.
Theorems: coq/Properties/C14.v (last write wins over all histories, constants, isolation over all
interleavings, namespaces, one input = n inputs up to the first failing statement, unassigned reads).
Tie: histories of 1-12 statements over the names x, y, pi, e, true, sin (also a function), m (also a
unit), max (also a function) — assignments, reads, arithmetic on reads, calls and quantities through
shadowed names, comprehensions (which leave their variable bound), one failing statement — cut into
successive execute() calls in every way (exhaustive for short histories), interleaved over two live
EvalEnvironments; observed: every outcome, the full binding tables of both sessions and
ka.eval.CONSTANTS; compared with Model/Session.v evaluated in the Coq VM, and the property's own
relation (one input vs n inputs) checked directly on the implementation."""
import random, json, itertools, math
from fractions import Fraction
import common as C

ID = "C14"
COQ_TARGETS = ["Properties/C14.vo", "GenFacts/EvalSrcFacts.vo"]
MODEL_TARGETS = ["Model/Session.vo"]
IMPORTS = "From Ka Require Import Model.Session.\nOpen Scope string_scope.\n"

NAMES = ["x", "y", "pi", "e", "true", "sin", "m", "max"]
UNBOUND = "zz"
BOPS = {"BAdd": "+", "BSub": "-", "BMul": "*", "BDiv": "/"}


# ------------------------------------------------------------------ rendering
def e_text(e, top=False):
    k = e[0]
    if k == "lit":
        return "1e3" if e[1] == 1000 else str(e[1])
    if k == "var":
        return e[1]
    if k == "bin":
        return "(%s %s %s)" % (e_text(e[2]), BOPS[e[1]], e_text(e[3]))
    if k == "call1":
        return "%s(%s)" % (e[1], e_text(e[2]))
    if k == "call2":
        return "%s(%s, %s)" % (e[1], e_text(e[2]), e_text(e[3]))
    if k == "qty":
        a = e_text(e[1])
        if e[1][0] not in ("lit", "var"):
            a = "(%s)" % a
        s = "%s %s" % (a, e[2])
        return s if top else "(%s)" % s
    if k == "comp":
        return "{%s : %s in %d..%d}" % (e_text(e[1]), e[2], e[3], e[4])
    raise ValueError(e)


def s_text(s):
    return "%s = %s" % (s[1], e_text(s[2], top=True)) if s[0] == "assign" else e_text(s[1], top=True)


def input_text(group):
    return "; ".join(s_text(s) for s in group)


def e_coq(e):
    k = e[0]
    if k == "lit":
        return "(ELit %s)" % C.coq_Z(e[1])
    if k == "var":
        return "(EVar %s)" % C.coq_str(e[1])
    if k == "bin":
        return "(EBin %s %s %s)" % (e[1], e_coq(e[2]), e_coq(e[3]))
    if k == "call1":
        return "(ECall1 %s %s)" % (C.coq_str(e[1]), e_coq(e[2]))
    if k == "call2":
        return "(ECall2 %s %s %s)" % (C.coq_str(e[1]), e_coq(e[2]), e_coq(e[3]))
    if k == "qty":
        return "(EQty %s %s)" % (e_coq(e[1]), C.coq_str(e[2]))
    return "(EComp %s %s %s %s)" % (e_coq(e[1]), C.coq_str(e[2]), C.coq_Z(e[3]), C.coq_Z(e[4]))


def s_coq(s):
    return "Assign %s %s" % (C.coq_str(s[1]), e_coq(s[2])) if s[0] == "assign" else "Expr %s" % e_coq(s[1])


def hist_coq(h):
    return "[%s]" % "; ".join("(%d%%nat, [%s])" % (sid, "; ".join(s_coq(s) for s in g)) for sid, g in h)


# ------------------------------------------------------------------ generators
def lit_only(rng):
    a = ("lit", rng.choice([1, 2, 3, 4, 7]))
    if rng.random() < 0.2:
        return ("bin", rng.choice(["BAdd", "BMul"]), a, ("lit", rng.choice([1, 2, 5])))
    return a


def pick_var(rng, bound):
    """mostly names that are bound at this point of the history, sometimes any name of the pool, rarely a never-bound one"""
    r = rng.random()
    if r < 0.8 and bound:
        return rng.choice(sorted(bound))
    return rng.choice(NAMES) if r < 0.97 else UNBOUND


def gen_expr(rng, depth, bound=()):
    r = rng.random()
    if depth == 0 or r < 0.25:
        if rng.random() < 0.55:
            return ("var", pick_var(rng, bound))
        return ("lit", rng.choice([0, 1, 2, 3, 5, 10, 1000]))
    if r < 0.7:
        op = rng.choice(["BAdd", "BSub", "BMul", "BDiv"])
        a = gen_expr(rng, depth - 1, bound)
        # divisors are literal-only (no division by a float-tainted variable: rounding would decide ZeroDivision)
        b = lit_only(rng) if op == "BDiv" else gen_expr(rng, depth - 1, bound)
        return ("bin", op, a, b)
    if r < 0.8:
        return ("call1", "sin", ("lit", 0))
    if r < 0.9:
        return ("call2", rng.choice(["max", "max", "min"]), gen_expr(rng, depth - 1, bound), gen_expr(rng, depth - 1, bound))
    return ("call1", rng.choice(["abs", "floor", "sin"]), gen_expr(rng, depth - 1, bound))


def gen_top_expr(rng, bound=()):
    r = rng.random()
    if r < 0.12:
        mag = ("lit", rng.choice([2, 3, 10])) if rng.random() < 0.6 else ("var", pick_var(rng, bound))
        return ("qty", mag, rng.choice(["m", "m", "km", "s"]))
    if r < 0.24:
        v = rng.choice(["x", "y", "m", "e", "k"])
        body = rng.choice([("bin", "BMul", ("var", v), ("lit", 2)), ("bin", "BAdd", ("var", v), ("var", pick_var(rng, bound))), ("var", v),
                           ("call2", "max", ("var", v), ("lit", 2))])
        lo = rng.choice([0, 1, 1, 2])
        return ("comp", body, v, lo, lo + rng.choice([-1, 0, 1, 2, 3]))
    return gen_expr(rng, rng.choice([0, 1, 2, 2, 3]), bound)


def gen_stmt(rng, bound):
    """bound: the names bound so far in this history if every earlier statement succeeds (updated)"""
    if rng.random() < 0.6:
        s = ("assign", rng.choice(NAMES), gen_top_expr(rng, bound))
    else:
        s = ("expr", gen_top_expr(rng, bound))
    e = s[2] if s[0] == "assign" else s[1]
    if e[0] == "comp" and e[4] >= e[3]:
        bound.add(e[2])
    if s[0] == "assign":
        bound.add(s[1])
    return s


FAILING = [
    ("expr", ("var", UNBOUND)),
    ("assign", "y", ("bin", "BDiv", ("lit", 1), ("bin", "BSub", ("lit", 2), ("lit", 2)))),
    ("expr", ("call1", "x", ("lit", 2))),
    ("assign", "x", ("bin", "BAdd", ("var", UNBOUND), ("lit", 1))),
    ("expr", ("comp", ("bin", "BDiv", ("lit", 1), ("bin", "BSub", ("var", "k"), ("lit", 2))), "k", 1, 3)),
    ("expr", ("qty", ("lit", 2), "nosuchunit")),
]


def gen_history(rng, n):
    bound = {"pi", "e", "true", "false"}
    ss = [gen_stmt(rng, bound) for _ in range(n)]
    if rng.random() < 0.5:
        ss[rng.randrange(n)] = rng.choice(FAILING)
    return ss


def compositions(n):
    """all ways of cutting n statements into successive non-empty inputs (as lists of sizes)"""
    for mask in range(2 ** (n - 1)):
        sizes, cur = [], 1
        for i in range(n - 1):
            if mask >> i & 1:
                sizes.append(cur)
                cur = 1
            else:
                cur += 1
        sizes.append(cur)
        yield sizes


def cut(ss, sizes):
    out, i = [], 0
    for k in sizes:
        out.append(ss[i:i + k])
        i += k
    return out


def random_sizes(rng, n):
    return next(itertools.islice(compositions(n), rng.randrange(2 ** (n - 1)), None))


SMALL = [("assign", "x", ("lit", 1)), ("assign", "x", ("bin", "BAdd", ("var", "x"), ("lit", 1))), ("assign", "y", ("var", "x")),
         ("expr", ("var", "x")), ("expr", ("var", "y")), ("assign", "pi", ("lit", 3)), ("expr", ("var", "pi")), ("expr", ("var", UNBOUND)),
         ("assign", "sin", ("lit", 3)), ("expr", ("call1", "sin", ("lit", 0))), ("assign", "m", ("lit", 5)), ("expr", ("qty", ("lit", 2), "m")),
         ("expr", ("comp", ("bin", "BMul", ("var", "x"), ("lit", 2)), "x", 1, 3))]
CORPUS = [
    [("assign", "a", ("lit", 1)), ("assign", "b", ("bin", "BDiv", ("lit", 1), ("lit", 0))), ("assign", "c", ("lit", 2))],
    [("assign", "x", ("bin", "BAdd", ("var", "x"), ("lit", 1)))],
    [("assign", "e", ("lit", 5)), ("expr", ("lit", 1000)), ("expr", ("var", "e"))],
    [("assign", "sin", ("lit", 3)), ("expr", ("call1", "sin", ("lit", 0))), ("expr", ("var", "sin"))],
    [("assign", "m", ("lit", 5)), ("expr", ("qty", ("lit", 2), "m")), ("expr", ("qty", ("var", "m"), "m")), ("expr", ("var", "m"))],
    [("assign", "max", ("lit", 1)), ("expr", ("call2", "max", ("lit", 2), ("lit", 3))), ("expr", ("call2", "max", ("var", "max"), ("lit", 0)))],
    [("expr", ("comp", ("bin", "BMul", ("var", "x"), ("lit", 2)), "x", 1, 3)), ("expr", ("var", "x"))],
    [("assign", "x", ("lit", 7)), ("expr", ("comp", ("var", "x"), "x", 3, 1)), ("expr", ("var", "x"))],
    [("assign", "true", ("lit", 0)), ("assign", "pi", ("bin", "BMul", ("var", "pi"), ("lit", 2))), ("expr", ("var", "true")), ("expr", ("var", "false"))],
    [("assign", "y", ("qty", ("lit", 2), "km")), ("expr", ("qty", ("var", "y"), "m")), ("expr", ("var", "y"))],
]


# ------------------------------------------------------------------ worker side
def _run(text, env):
    import io
    from ka.interpret import execute

    class Box:
        value = None
    o, e, box = io.StringIO(), io.StringIO(), Box()
    try:
        st = execute(text, env, out=o, errout=e, result_box=box)
        return dict(status=st, value=C.enc_value(box.value) if st == 0 else None, err=e.getvalue().strip().split("\n")[0][:100], out=o.getvalue())
    except C.CaseTimeout:
        raise
    except BaseException as x:
        return dict(status=None, value=None, escaped=type(x).__name__, err=str(x)[:100], out=o.getvalue())


def _table(env):
    return [[k, C.enc_value(v)] for k, v in env._variables.items()]


def _consts():
    import ka.eval as E
    return [[k, C.enc_value(v)] for k, v in E.CONSTANTS.items()]


def impl_hist(case):
    """an interleaved history on two live environments"""
    from ka.eval import EvalEnvironment
    before = _consts()
    envs = [EvalEnvironment(), EvalEnvironment()]
    outs = [_run(text, envs[sid]) for sid, text in case["inputs"]]
    return dict(outs=outs, tables=[_table(envs[0]), _table(envs[1])], consts=_consts(), consts_before=before,
                fresh=_table(EvalEnvironment()))


def impl_split(case):
    """the property's relation on the implementation: one input vs successive inputs (stopping at the first failing one)"""
    from ka.eval import EvalEnvironment
    before = _consts()
    res = []
    for groups in case["runs"]:
        env = EvalEnvironment()
        last = None
        for g in groups:
            last = _run(g, env)
            if last["status"] != 0:
                break
        res.append(dict(last=last, table=_table(env)))
    return dict(res=res, consts=_consts(), consts_before=before)


def impl_corpus(_):
    """behaviours read off the code that have no counterpart in the model's statement language"""
    from ka.eval import EvalEnvironment
    import ka.eval as E
    out = {}
    env = EvalEnvironment()
    out["paren_assign"] = [_run("x = 3", env), _run("(x = 4)", env), _run("x", env)]
    env = EvalEnvironment()
    out["keyword_names"] = [_run("to = 3", env), _run("in = 3", env), _table(env)]
    out["env_none"] = [_run("q = 4", None), _run("q", None)]
    e1, e2 = EvalEnvironment(), EvalEnvironment()
    out["reassign_constant"] = [_run("pi = 3", e1), _run("pi", e2), _run("pi", e1), C.enc_value(E.CONSTANTS["pi"]), _run("pi", EvalEnvironment())]
    env = EvalEnvironment()
    out["parse_error_runs_nothing"] = [_run("a = 1; b = ; c = 2", env), _table(env)]
    env = EvalEnvironment()
    out["trailing_separator"] = [_run("a = 1;", env), _run("", env), _table(env)]
    out["consts"] = _consts()
    return out


# ------------------------------------------------------------------ comparison
def num_of(enc):
    """numeric value of an encoded number, or None"""
    if enc is None:
        return None
    if enc.startswith("I:"):
        return Fraction(int(enc[2:]))
    if enc.startswith("F:"):
        a, b = enc[2:].split("/")
        return Fraction(int(a), int(b))
    if enc.startswith("X:"):
        body = enc[2:]
        if "/" in body:
            a, b = body.split("/")
            return Fraction(int(a), int(b))
        f = float.fromhex(body)
        return Fraction(f) if math.isfinite(f) else None
    return None


def split_top(s, sep):
    out, depth, cur = [], 0, ""
    for ch in s:
        if ch == "[":
            depth += 1
        elif ch == "]":
            depth -= 1
        if ch == sep and depth == 0:
            out.append(cur)
            cur = ""
        else:
            cur += ch
    out.append(cur)
    return out


def same_value(m, i):
    """model text vs implementation enc_value: exact kinds exactly, floats within tolerance"""
    if m == i:
        return True
    if m is None or i is None:
        return False
    if m.startswith("A:[") and i.startswith("A:["):
        a, b = m[3:-1], i[3:-1]
        la, lb = (split_top(a, ";") if a else []), (split_top(b, ";") if b else [])
        return len(la) == len(lb) and all(same_value(x, y) for x, y in zip(la, lb))
    if m.startswith("Q:") and i.startswith("Q:"):
        (ma, md), (ia, idd) = m[2:].rsplit("|", 1), i[2:].rsplit("|", 1)
        return md == idd and same_value(ma, ia)
    a, b = num_of(m), num_of(i)
    if a is None or b is None:
        return False
    if not (m.startswith("X:") or i.startswith("X:")):
        return a == b and m[:2] == i[:2]
    return abs(a - b) <= Fraction(1, 10 ** 9) * max(1, abs(a), abs(b))


ERR_PATTERNS = {
    "EvalError": ("Unassigned variable", "Unknown unit", "Tried to add units", "Can't apply a prefix"),
    "ZeroDivisionError": ("Attempted to divide by zero",),
    "UnknownFunctionError": ("Unknown function",),
    "FunctionArgError": ("Tried to get",),
    "OverflowError": ("Overflow",),
}


def same_outcome(m, o):
    """model outcome text vs one implementation observation; None when the model declines"""
    if m == "E:Unmodelled":
        return None
    if o.get("escaped"):
        return False
    if m.startswith("E:"):
        pats = ERR_PATTERNS.get(m[2:], ())
        return o["status"] == 1 and any(p in o["err"] for p in pats)
    if o["status"] != 0:
        return False
    if m == "N":
        return o["value"] in (None, "N")
    return same_value(m, o["value"])


def parse_table(s):
    if s == "":
        return []
    return [b.split("=", 1) for b in split_top(s, "&")]


def same_table(mt, it):
    return len(mt) == len(it) and all(a[0] == b[0] and same_value(a[1], b[1]) for a, b in zip(mt, it))


def obs_key(o):
    return (o["status"], o["value"], o["err"], o.get("escaped"))


# ------------------------------------------------------------------ the check
def _no_env_calls(texts):
    import io
    from ka.interpret import execute
    out = []
    for t in texts:
        o, e = io.StringIO(), io.StringIO()
        try:
            st = execute(t, out=o, errout=e)
        except C.CaseTimeout:
            raise
        except BaseException as x:
            st = "escaped " + type(x).__name__
        out.append([st, o.getvalue().strip(), e.getvalue().strip()[:80]])
    return out


def sessions_are_separate(ctx):
    """a call of execute() that is given no session starts from the standard bindings: nothing assigned in one such call
    is visible in the next, and a name never assigned reads as an error"""
    rep = ctx["report"]
    seqs = [["pi = 3", "2*pi"], ["rate = 12", "rate"], ["e = 1", "e"], ["true = 0", "true"], ["x = 5; x", "x"], ["f = 2", "f + 1"]]
    for texts, res in zip(seqs, C.run_impl(_no_env_calls, seqs, ctx["rundir"], limit=20.0, chunksize=1)):
        if not isinstance(res, list):
            continue
        alone = C.run_impl(_no_env_calls, [[texts[-1]]], ctx["rundir"], limit=20.0, procs=1)[0]
        if isinstance(alone, list) and res[-1] != alone[-1]:
            rep.violation(dict(kind="sessions-not-separate", name=texts[0].split(" ")[0]),
                          "C14 fails: execute(%r) without a session, after execute(%r) without a session, gives %r; in a fresh process it gives %r" % (texts[-1], texts[0], res[-1], alone[-1]),
                          dict(texts=texts, impl=res, expected_last=alone[-1]))


def run(ctx):
    # an input whose last statement is refused for its depth has assigned its earlier statements at most once (whether
    # the stack gives out in the parser, before anything ran, or in the evaluator is C06's business)
    _ones = " + 1" * 1200
    _one_of = lambda *vs: (lambda o: o.get("status") == 0 and o.get("value") in vs)
    C.expect_sessions(ctx["report"], ctx["rundir"], "C14",
                      [(["w = 8", "w = w / 2; w" + _ones, "w"], _one_of("I:4", "I:8"), "a variable halved at most once by an input whose last statement is refused"),
                       (["n = 0", "n = n + 1; n" + _ones, "n = n + 1; n" + _ones, "n"], _one_of("I:2", "I:1", "I:0"), "a counter stepped at most once by each of two such inputs"),
                       (["a = {1}", "a = {size(a), a}; 0" + _ones, "a"], _one_of("A:[I:1;A:[I:1]]", "A:[I:1]"), "an array rebuilt at most once by such an input"),
                       (["w = 8", "w = w / 2; w" + _ones], (lambda o: (o.get("status") == 1 and not o.get("escaped")) or o.get("value") == "I:1204"), "the refused input itself"),
                       (["w = 8", "w = w / 2; w + 1", "w"], "I:4", "a variable halved once by an ordinary input")],
                      kind="refused-tail")
    sessions_are_separate(ctx)
    C.config_matrix(ctx["report"], ctx["rundir"], "C14", ["x = 5; x + 1", "pi = 3; 2 * pi", "x = 5; sqr(x)", "x = 5; y = x; x = 6; y", "e", "true + 1", "m = 2; 3 m", "sin = 2; sin(0)", "x = C(5,2); x*2"])
    # --- coordinator: a reassigned constant is read inside comprehension bodies and conditions as well,
    #     and a variable holding a lazy value keeps its value after it was displayed
    _items = [(["pi = 3", "{pi*2 : k in {0}}"], "A:[I:6]", "reassigned pi inside a comprehension body"),
              (["pi = 3; {pi*2 : k in {0}}"], "A:[I:6]", "reassigned pi inside a comprehension body, one input"),
              (["true = 0", "{x : x in 1..3, true}"], "A:[]", "reassigned true as a comprehension condition"),
              (["e = 2", "{e^k : k in 1..3}"], "A:[I:2;I:4;I:8]", "reassigned e inside a comprehension body"),
              (["false = 1", "{x : x in {5, 6}, false}"], "A:[I:5;I:6]", "reassigned false as a comprehension condition"),
              (["p = C(5,2)", "p", "p*1"], "I:10", "a variable holding C(5,2), displayed, then multiplied"),
              (["k = C(10,3)", "k + 0", "k*2"], "I:240", "a variable holding C(10,3), used, then multiplied"),
              (["f = 5!", "f", "f/4!"], "I:5", "a variable holding 5!, displayed, then divided")]
    # a variable reads as the value assigned, whatever the right-hand side is (a conversion, a comparison, a lazy value)
    for _rhs in ("5 m to cm", "2 hours to minutes", "1 + 2 kg to g", "3 < 4", "(3 < 4) + 1", "5!/3!", "{1, 2} ", "[1, 2] * 2", "90 deg to rad"):
        _items += [(["%s" % _rhs], None, None)]     # placeholder replaced below
    _rhs_list = [i[0][0] for i in _items if i[1] is None]
    _items = [i for i in _items if i[1] is not None]
    _vals = C.run_sessions(ctx["rundir"], [[r] for r in _rhs_list])
    for _r, _o in zip(_rhs_list, _vals):
        _want = _o[-1].get("value") if isinstance(_o, list) and _o[-1].get("status") == 0 else None
        if _want is not None:
            _items += [(["x = %s" % _r, "x"], _want, "x reads as the value of the right-hand side it was assigned"),
                       (["x = %s; x" % _r], _want, "x reads as the value of the right-hand side (one input)"),
                       (["y = 1", "x = %s" % _r, "y = x", "y"], _want, "the value survives a second assignment")]
    # reading an unassigned name is an error (a diagnosed one), whatever the name looks like: a unit, a prefixed unit,
    # a prefix on an offset unit, a function, a keyword-like word
    _diag = (lambda o: o.get("status") == 1 and not o.get("escaped") and (o.get("err") or "").strip() != "" and (o.get("out") or "") == "")
    for _n in ("kdegC", "mdegF", "kilodegC", "millidegF", "km", "metre", "sin", "eur", "zz9", "kK", "udegC", "YdegF"):
        _items += [([_n], _diag, "reading the unassigned name %s is a diagnosed error" % _n),
                   (["a = 1", "b = %s + 1" % _n, "a"], "I:1", "a failing statement that reads an unassigned name leaves earlier bindings alone"),
                   (["a = 1; b = %s + 1; c = 3" % _n], _diag, "reading an unassigned name inside a statement list is a diagnosed error")]
    # functions applied to a variable do not change what the variable reads as
    for _f in ("median", "max", "min", "sum", "mean", "size", "prod"):
        _items += [(["a = {3, 1, 2, 5}", "m = %s(a)" % _f, "a"], "A:[I:3;I:1;I:2;I:5]", "%s(a) leaves a unchanged" % _f),
                   (["a = {3 m, 100 cm, 2 m}; b = a; m = %s(b); a" % _f], "A:[Q:I:3|0,1,0,0,0,0,0,0;Q:I:1|0,1,0,0,0,0,0,0;Q:I:2|0,1,0,0,0,0,0,0]", "%s(b) leaves the aliased a unchanged" % _f)]
    _items += [(["n = 10!", "n / 8!"], "I:90", "a lazy value assigned in one input and divided in the next"),
               (["n = 5!", "n", "n * 2"], "I:240", "a lazy value displayed and then multiplied")]
    # sessions far longer than a random generator's: a counter, many names, re-binding after errors
    _items += [(["x = 0"] + ["x = x + 1"] * 300 + ["x"], "I:300", "300 updates of one variable"),
               (["v%d = %d" % (i, i * i) for i in range(150)] + ["v0 + v77 + v149"], "I:%d" % (77 * 77 + 149 * 149), "150 names in one session"),
               (["x = 1"] + [t for i in range(60) for t in ("x = x * 2", "nosuch%d + 1" % i, "1/0")] + ["x"], "I:%d" % 2 ** 60, "60 updates interleaved with 120 failing inputs"),
               (["a = {}"] + ["a = {size(a)} "] * 40 + ["a"], "A:[I:1]", "an array rebuilt 40 times"),
               (["s = 0"] + ["s = s + sum(1..%d)" % i for i in range(1, 101)] + ["s"], "I:%d" % sum(i * (i + 1) // 2 for i in range(1, 101)), "100 updates through a function call"),
               (["; ".join("w%d = %d" % (i, i) for i in range(400)) + "; w399 - w1"], "I:398", "400 assignments in one input")]
    C.expect_sessions(ctx["report"], ctx["rundir"], "C14", _items)
    rep, tier, seed = ctx["report"], ctx["tier"], ctx["seed"]
    rng = random.Random(seed * 7877 + 14)
    quick = tier == "quick"
    exh_n = 6 if quick else 8
    replay = None
    if ctx.get("replay"):
        r = json.load(open(ctx["replay"]))
        replay = [x for x in [r["replay"]] + r.get("more", []) if "stmts" in x]

    # ---- statement lists
    lists, origin = [], []
    if replay is not None:
        for x in replay:
            lists.append([totuple(s) for s in x["stmts"]])
            origin.append("replay")
    else:
        for L in CORPUS:
            lists.append(L)
            origin.append("corpus")
        for n in (1, 2, 3):
            for tup in itertools.product(SMALL, repeat=n):
                lists.append(list(tup))
                origin.append("exhaustive-small")
        n_rand = 400 if quick else 5000
        seen = set()
        while len(lists) < len(CORPUS) + 13 + 169 + 2197 + n_rand:
            n = rng.choice([1, 2, 3, 4, 5, 6, 6, 7, 8, 9, 10, 11, 12])
            ss = gen_history(rng, n)
            key = input_text(ss)
            if key in seen or len(key) > 700:
                continue
            seen.add(key)
            lists.append(ss)
            origin.append("random")

    # ---- (1) the relation on the implementation: one input vs every split
    split_cases, split_meta = [], []
    for ss, org in zip(lists, origin):
        n = len(ss)
        if n <= exh_n and (org != "exhaustive-small" or n <= 3):
            sizes_list = list(compositions(n))
        else:
            sizes_list = [[n], [1] * n] + [random_sizes(rng, n) for _ in range(20 if quick else 60)]
        uniq = []
        for sz in sizes_list:
            if sz not in uniq:
                uniq.append(sz)
        split_cases.append(dict(runs=[[input_text(g) for g in cut(ss, sz)] for sz in uniq]))
        split_meta.append(uniq)
    sobs = C.run_impl(impl_split, split_cases, ctx["rundir"], limit=20.0)

    stats = dict(statement_lists=len(lists), split_runs=0, splits_exhaustive_lists=0, failing_lists=0, hist_cases=0, hist_inputs=0,
                 outcomes_compared=0, tables_compared=0, model_declined_inputs=0)
    consts0 = None
    for ss, org, meta, o in zip(lists, origin, split_meta, sobs):
        rp = dict(stmts=ss, text=input_text(ss))
        if o.get("hung"):
            rep.violation(dict(kind="hang"), "no result within 20 s for %s" % input_text(ss)[:200], rp)
            continue
        if len(meta) == 2 ** (len(ss) - 1):
            stats["splits_exhaustive_lists"] += 1
        stats["split_runs"] += len(meta)
        if o["consts"] != o["consts_before"]:
            rep.violation(dict(kind="constants-mutated"), "C14 fails: ka.eval.CONSTANTS changed from %r to %r by %s" % (o["consts_before"], o["consts"], input_text(ss)[:200]), rp)
        consts0 = consts0 or o["consts_before"]
        one = o["res"][0]          # sizes [n]: the single input
        assert meta[0] == [len(ss)]
        if one["last"]["status"] != 0:
            stats["failing_lists"] += 1
        if one["last"].get("escaped"):
            rep.violation(dict(kind="escaped", exc=one["last"]["escaped"]), "%s escapes with %s" % (input_text(ss)[:200], one["last"]["escaped"]), rp)
        for sz, res in zip(meta[1:], o["res"][1:]):
            if obs_key(res["last"]) != obs_key(one["last"]) or res["table"] != one["table"]:
                what = "outcome %r vs %r" % (obs_key(res["last"])[:3], obs_key(one["last"])[:3]) if obs_key(res["last"]) != obs_key(one["last"]) \
                    else "bindings %r vs %r" % (res["table"], one["table"])
                rep.violation(dict(kind="split-differs", failing=one["last"]["status"] != 0),
                              "C14 fails: '%s' as one input and cut as %r give different results: %s" % (input_text(ss)[:300], sz, what[:400]),
                              dict(rp, sizes=sz))
                break

    # ---- (2) correspondence: interleaved histories on two sessions, implementation vs model
    hists = []
    if replay is not None:
        for x in replay:
            ss = [totuple(s) for s in x["stmts"]]
            hists.append(dict(h=[(0, ss)], a=ss, b=[]))
            hists.append(dict(h=[(0, [s]) for s in ss], a=ss, b=[]))
    else:
        idx = list(range(len(lists)))
        for i, (ss, org) in enumerate(zip(lists, origin)):
            if org == "exhaustive-small" and len(ss) == 3 and i % (4 if quick else 1):
                continue
            other = lists[rng.choice(idx)] if rng.random() < 0.8 else []
            ga = cut(ss, random_sizes(rng, len(ss))) if rng.random() < 0.7 else [ss]
            gb = cut(other, random_sizes(rng, len(other))) if other else []
            order = [0] * len(ga) + [1] * len(gb)
            rng.shuffle(order)
            ia, ib, h = iter(ga), iter(gb), []
            for sid in order:
                h.append((sid, next(ia) if sid == 0 else next(ib)))
            hists.append(dict(h=h, a=ss, b=other))
    hobs = C.run_impl(impl_hist, [dict(inputs=[(sid, input_text(g)) for sid, g in x["h"]]) for x in hists], ctx["rundir"], limit=20.0)
    model = None
    if ctx["model_ok"] and hists:
        model = C.run_model(ctx["rundir"], "c14", IMPORTS, "vm_hist", [hist_coq(x["h"]) for x in hists], shard=150,
                            case_type="list (nat * list stmt)")
    hist_out = {}
    samples = []
    nontrivial = set()
    for k, (x, o) in enumerate(zip(hists, hobs)):
        rp = dict(stmts=x["a"], other_session=x["b"], history=[[sid, input_text(g)] for sid, g in x["h"]])
        stats["hist_cases"] += 1
        stats["hist_inputs"] += len(x["h"])
        if o.get("hung"):
            rep.violation(dict(kind="hang"), "no result within 20 s for the history %r" % rp["history"][:4], rp)
            continue
        if len(x["h"]) >= 2 or any(len(g) >= 2 for _, g in x["h"]):
            nontrivial.add(json.dumps(rp["history"]))
        if o["consts"] != o["consts_before"]:
            rep.violation(dict(kind="constants-mutated"), "C14 fails: ka.eval.CONSTANTS changed by the history %r" % rp["history"][:6], rp)
        if o["fresh"] != o["consts_before"]:
            rep.violation(dict(kind="fresh-session-differs"), "C14 fails: a session created after the history starts from %r, not from the constants %r" % (o["fresh"], o["consts_before"]), rp)
        # isolation on the implementation itself: each session's table equals the table of running its own inputs alone
        if model is None:
            continue
        mouts, mt0, mt1, mc = split_hash(model[k])
        mouts = mouts.split("~") if mouts else []
        declined = [False, False]
        for (sid, g), mo, io in zip(x["h"], mouts, o["outs"]):
            if declined[sid]:
                stats["model_declined_inputs"] += 1
                continue
            v = same_outcome(mo, io)
            cls = "declined" if v is None else ("E" if mo.startswith("E:") else "V")
            hist_out[cls] = hist_out.get(cls, 0) + 1
            if v is None:
                declined[sid] = True
                stats["model_declined_inputs"] += 1
                continue
            stats["outcomes_compared"] += 1
            if len(samples) < 8 and (k * 5 + len(g)) % 97 == 11:
                samples.append(dict(session=sid, input=input_text(g)[:120], impl=io["value"] if io["status"] == 0 else io["err"][:60], model=mo[:120]))
            if not v:
                judge_disagreement(rep, rp, sid, g, mo, io)
                declined[sid] = True
        for sid, mt in ((0, mt0), (1, mt1)):
            if declined[sid]:
                continue
            stats["tables_compared"] += 1
            if not same_table(parse_table(mt), o["tables"][sid]):
                rep.violation(dict(kind="bindings-differ"),
                              "C14 fails: after the history %r session %d holds %r, the calculator-memory model %r" % (rp["history"][:8], sid, o["tables"][sid], mt[:300]), rp)
        if not same_table(parse_table(mc), o["consts"]):
            rep.violation(dict(kind="constants-differ"), "CONSTANTS %r vs the regenerated table %r" % (o["consts"], mc), rp, found_input=False)

    # ---- (3) behaviours outside the model's statement language
    if replay is None:
        co = C.run_impl(impl_corpus, [0], ctx["rundir"], limit=20.0)[0]
        judge_corpus(rep, co)

    rep.coverage.update(dict(
        evaluations=stats["split_runs"] + stats["hist_inputs"], distinct_nontrivial=len(nontrivial),
        rule="statement lists: a fixed corpus (%d), every sequence of length 1-3 over %d small statements (%d), and seeded random histories of 1-12 statements over the names %s (assignments, reads, arithmetic, calls and quantities through shadowed names, comprehensions, reads biased to names bound earlier in the history, one deliberately failing statement with probability 0.5); each list entered as one input and cut into successive inputs in every way when it has <= %d statements (all 2^(n-1) cuts), otherwise all-in-one, one-by-one and sampled cuts; then interleaved with a second session's inputs and compared with the model. non-trivial = a history of at least two statements; distinct by the rendered inputs" % (
            len(CORPUS), len(SMALL), 13 + 169 + 2197, ",".join(NAMES), exh_n),
        exhaustive=False, samples=samples, outcome_histogram=hist_out, stats=stats,
        traces_validated_against_impl=stats["outcomes_compared"], kernel_lane_cases=len(model) if model else 0))
    rep.assumptions += [
        "dispatch(name, args) and lookup_unit(name) receive no environment: modelled as fixed tables; C14_namespaces is near-definitional in the model and rests on these runs",
        "floats (pi, e and arithmetic on them) are idealised as exact rationals: compared within 1e-9; generated divisors are literal-only so that rounding never decides a ZeroDivisionError",
        "well-formed statements only: a parse error anywhere in a multi-statement input runs none of its statements (observed, outside the property's premise)",
        "function bodies other than sin(0), abs, floor, max, min and units with offsets are not modelled (the model declines; the one-input/n-input relation is still checked on the implementation)",
    ]


def split_hash(s):
    parts = s.split("#")
    return parts[0], parts[1], parts[2], parts[3]


def judge_disagreement(rep, rp, sid, g, mo, io):
    """the model is the calculator-memory specification: a disagreement on an input is a failure of the property
    unless the model's own value is suspect (never observed so far)"""
    text = input_text(g)
    got = io["value"] if io["status"] == 0 else ("status %r: %s %s" % (io["status"], io["err"], io.get("escaped") or ""))
    cause = "unassigned-read" if "Unassigned" in (io.get("err") or "") or mo == "E:EvalError" else ("value" if not mo.startswith("E:") else mo[2:])
    rep.violation(dict(kind="outcome-differs", cause=cause),
                  "C14 fails: in session %d the input '%s' gives %s; reading the history as a calculator memory gives %s" % (sid, text[:200], got, mo[:200]), rp)


def judge_corpus(rep, co):
    rp = dict(corpus=True)
    a, b, c = co["paren_assign"]
    if not (a["status"] == 0 and b["status"] == 1 and c["value"] == "I:3"):
        rep.violation(dict(kind="paren-assign"), "C14: 'x = 3' then '(x = 4)' then 'x' give %r %r %r (the parenthesised form is a comparison and must not rebind x)" % (
            obs_key(a), obs_key(b), obs_key(c)), rp)
    t, i, tab = co["keyword_names"]
    if not (t["status"] == 1 and i["status"] == 1 and tab == co["consts"]):
        rep.violation(dict(kind="keyword-names"), "C14: 'to = 3' / 'in = 3' give %r / %r and leave %r" % (obs_key(t), obs_key(i), tab), rp)
    q1, q2 = co["env_none"]
    if not (q1["value"] == "I:4" and q2["status"] == 1 and "Unassigned" in q2["err"]):
        rep.violation(dict(kind="env-none-shared"), "C14 fails: execute('q = 4') and then execute('q') without an environment give %r and %r (a fresh session each time is expected)" % (
            obs_key(q1), obs_key(q2)), rp)
    p = co["reassign_constant"]
    pi_enc = "X:%s" % math.pi.hex()
    if not (p[0]["value"] == "I:3" and p[1]["value"] == pi_enc and p[2]["value"] == "I:3" and p[3] == pi_enc and p[4]["value"] == pi_enc):
        rep.violation(dict(kind="constant-leak"), "C14 fails: 'pi = 3' in one session: other session reads %r, same session %r, CONSTANTS %r, later session %r" % (
            p[1]["value"], p[2]["value"], p[3], p[4]["value"]), rp)
    pe, tab = co["parse_error_runs_nothing"]
    if not (pe["status"] == 1 and tab == co["consts"]):
        rep.violation(dict(kind="parse-error-partial"), "'a = 1; b = ; c = 2' gives %r and leaves %r" % (obs_key(pe), tab), rp, found_input=False)
    ts, em, tab = co["trailing_separator"]
    if not (ts["value"] == "I:1" and em["status"] == 0 and tab[-1] == ["a", "I:1"]):
        rep.violation(dict(kind="trailing-separator"), "'a = 1;' then '' give %r %r %r" % (obs_key(ts), obs_key(em), tab), rp, found_input=False)


def totuple(x):
    return tuple(totuple(y) for y in x) if isinstance(x, (list, tuple)) else x
