"""C12 — ranges, comprehensions and array aggregates follow their stated semantics.
Theorems: coq/Properties/C12.v (integer range, stepped range with its fuel bound, the comprehension loop
against its declarative reading for any evaluator, every aggregate over exact numbers and over scalars
of one dimension, the sort under median, mixed-dimension and empty-array cases).
Tie: expression trees (ranges, array literals over ints / fractions / floats / lazy values / quantities /
nested arrays, every aggregate, `in`, comprehensions with 0-3 generators and 0-2 conditions, bindings read
back afterwards) through execute() vs the Gallina evaluator Model/Arrays.v `run` in the Coq VM vs an
independent Python oracle of the property (Fractions, sorted(), by hand).  Floats are compared within 1e-9
(the model carries their ideal values); a float-stepped range may differ by its boundary element."""
import json, math, random, time
from fractions import Fraction
import common as C
from props import qtycommon as Q

ID = "C12"
COQ_TARGETS = ["Properties/C12.vo", "GenFacts/EvalSrcFacts.vo"]
MODEL_TARGETS = ["Model/Arrays.vo"]
IMPORTS = "From Ka Require Import Model.Num Model.Qty Model.Arrays.\nOpen Scope string_scope.\n"
TOL = 1e-9

AGGS = {"ASum": "sum", "AProd": "prod", "AMean": "mean", "AMedian": "median", "AMin": "min", "AMax": "max", "ASize": "size"}
QOP = {"QAdd": "+", "QSub": "-", "QMul": "*", "QDiv": "/"}
QCMP = {"QLt": "<", "QLe": "<=", "QEq": "==", "QNe": "!="}
UNIT_NAMES = ["m", "cm", "km", "s", "ms", "kg", "mi"]

# regression corpus (run first): text, check kind, expectation
REGRESSION = [
    ("range(1,5,0)", "diagnosed", None),
    ("range(1,5,-1)", "diagnosed", None),
    ("mean({1 m, 2 m})", "value", "Q:F:3/2|0,1,0,0,0,0,0,0"),
    ("3 in {1,2,3}", "out", "1\n"),
    ("{3!}", "out", "{6}\n"),
    ("max(1)", "value", "I:1"),
    ("min()", "diagnosed", None),
    ("{x : x in 1..3, {1}}", "diagnosed", None),
    ("{x*2 : x in 1..3}; x", "value", "I:3"),
    # range bounds that are lazy values: integral ones work, fractional ones are a diagnosed error (never a host TypeError)
    ("1..(5!/7)", "diagnosed", None), ("(5!/7)..20", "diagnosed", None), ("range(C(5,2)/4, 9)", "diagnosed", None),
    ("range(1, 3!/4!)", "diagnosed", None), ("1..(3!/2)", "value", "A:[I:1;I:2;I:3]"), ("range(1, 3!, 2)", "value", "A:[I:1;I:3;I:5]"),
    ("range(0, C(5,2), 3)", "value", "A:[I:0;I:3;I:6;I:9]"), ("size(1..5!)", "value", "I:120"),
    # medians of values a double cannot tell apart, and beyond the double range
    ("median({9007199254740993, 9007199254740992, 9007199254740994})", "value", "I:9007199254740993"),
    ("median({200!, 1, 2})", "value", "I:2"), ("median({10^400, 10^400+2, 10^400+1})", "out", None),
    ("max({1/3, 0.3333333333333333})", "value", "F:1/3"),
    ("size(range(1, 10^30, 10^29))", "value", "I:10"), ("max(range(0, 3*10^17 - 1, 10^17)) <= 3*10^17 - 1", "value", "I:1"), ("size(range(0, 3*10^17 - 1, 10^17))", "value", "I:3"),
    ("size(range(0, 2^60, 2^58))", "value", "I:5"), ("{x : x in 1..2, x in 4..6}", "value", "A:[I:4;I:5]"), ("size({x : x in {}, x in 1..3})", "value", "I:0"),
    ("a = {3, 1, 2}; {median(a) + x : x in a}", "value", "A:[I:5;I:3;I:4]"),
]


# ------------------------------------------------------------------ trees
# ("int", n) ("flt", "0.5") ("fact", n) ("choose", n, k) ("var", x) ("tag", e, unit) ("conv", e, unit)
# ("bin", op, a, b) ("cmp", c, a, b) ("arr", (e..)) ("range", a, b, form) ("range3", a, b, c) ("agg", f, a)
# ("varargs", is_max, (e..)) ("in", a, b) ("comp", body, ((name, gen)..), (cond..), interleave)
# ("seq", a, b) ("assign", x, a)
def I(n):
    return ("int", n)


def Fr(a, b):
    return ("bin", "QDiv", I(a), I(b))


def ka_text(t, top=False):
    k = t[0]
    if k == "int":
        return str(t[1]) if t[1] >= 0 else "(-%d)" % -t[1]
    if k == "flt":
        return t[1]
    if k == "fact":
        return "%d!" % t[1]
    if k == "choose":
        return "C(%d, %d)" % (t[1], t[2])
    if k == "var":
        return t[1]
    if k == "tag":
        return "((%s) %s)" % (ka_text(t[1]), t[2])
    if k == "conv":
        return "(%s to %s)" % (ka_text(t[1]), t[2])
    if k == "bin":
        return "(%s %s %s)" % (ka_text(t[2]), QOP[t[1]], ka_text(t[3]))
    if k == "cmp":
        return "(%s %s %s)" % (ka_text(t[2]), QCMP[t[1]], ka_text(t[3]))
    if k == "arr":
        return "{%s}" % ", ".join(ka_text(x) for x in t[1])
    if k == "range":
        if t[3] == "fn":
            return "range(%s, %s)" % (ka_text(t[1]), ka_text(t[2]))
        def operand(x):
            if x[0] == "int":
                return str(x[1])           # -3..-1 : the sign belongs to the operand
            if x[0] in ("fact", "var"):
                return ka_text(x)
            return "(%s)" % ka_text(x)
        return "(%s..%s)" % (operand(t[1]), operand(t[2]))
    if k == "range3":
        return "range(%s, %s, %s)" % (ka_text(t[1]), ka_text(t[2]), ka_text(t[3]))
    if k == "agg":
        return "%s(%s)" % (AGGS[t[1]], ka_text(t[2]))
    if k == "varargs":
        return "%s(%s)" % ("max" if t[1] else "min", ", ".join(ka_text(x) for x in t[2]))
    if k == "in":
        return "(%s in %s)" % (ka_text(t[1]), ka_text(t[2]))
    if k == "comp":
        gens = ["%s in %s" % (n, ka_text(g)) for n, g in t[2]]
        conds = [ka_text(c) if c[0] in ("cmp", "bin", "in", "tag") else "(%s)" % ka_text(c) for c in t[3]]
        if t[4] and gens and conds:         # clauses may come in any order: generators are collected first
            clauses = gens[:1] + conds[:1] + gens[1:] + conds[1:]
        else:
            clauses = gens + conds
        return "{%s : %s}" % (ka_text(t[1]), ", ".join(clauses))
    if k == "seq":
        return "%s; %s" % (ka_text(t[1]), ka_text(t[2]))
    if k == "assign":
        return "%s = %s" % (t[1], ka_text(t[2]))
    raise ValueError(k)


def coq_num_of_float(s):
    f = Fraction(float(s))
    n = "(%d)" % f.numerator if f.numerator < 0 else str(f.numerator)
    return "NFlt (%s # %d)" % (n, f.denominator)


def coq_usig(u, units):
    return Q.coq_sig(([(u, 1)], []), units)


def coq_list(xs):
    return "[" + "; ".join(xs) + "]"


def coq_term(t, units):
    k = t[0]
    r = lambda x: "(%s)" % coq_term(x, units)
    if k == "int":
        return "ENum (NInt %s)" % C.coq_Z(t[1])
    if k == "flt":
        return "ENum (%s)" % coq_num_of_float(t[1])
    if k == "fact":
        return "EFact %s" % C.coq_Z(t[1])
    if k == "choose":
        return "EChoose %s %s" % (C.coq_Z(t[1]), C.coq_Z(t[2]))
    if k == "var":
        return "EVar %s" % C.coq_str(t[1])
    if k == "tag":
        return "ETag %s %s" % (r(t[1]), coq_usig(t[2], units))
    if k == "conv":
        return "EConv %s %s" % (r(t[1]), coq_usig(t[2], units))
    if k == "bin":
        return "EBin %s %s %s" % (t[1], r(t[2]), r(t[3]))
    if k == "cmp":
        return "ECmp %s %s %s" % (t[1], r(t[2]), r(t[3]))
    if k == "arr":
        return "EArr %s" % coq_list([coq_term(x, units) for x in t[1]])
    if k == "range":
        return "ERange %s %s" % (r(t[1]), r(t[2]))
    if k == "range3":
        return "ERange3 %s %s %s" % (r(t[1]), r(t[2]), r(t[3]))
    if k == "agg":
        return "EAgg %s %s" % (t[1], r(t[2]))
    if k == "varargs":
        return "EVarargs %s %s" % ("true" if t[1] else "false", coq_list([coq_term(x, units) for x in t[2]]))
    if k == "in":
        return "EIn %s %s" % (r(t[1]), r(t[2]))
    if k == "comp":
        return "EComp %s %s %s %s" % (r(t[1]), coq_list([C.coq_str(n) for n, _ in t[2]]),
                                      coq_list([coq_term(g, units) for _, g in t[2]]),
                                      coq_list([coq_term(c, units) for c in t[3]]))
    if k == "seq":
        return "ESeq %s %s" % (r(t[1]), r(t[2]))
    if k == "assign":
        return "EAssign %s %s" % (C.coq_str(t[1]), r(t[2]))
    raise ValueError(k)


def subtrees(t):
    yield t
    for x in t[1:]:
        if isinstance(x, tuple):
            if x and isinstance(x[0], str) and x[0] in KINDS:
                yield from subtrees(x)
            else:
                for y in x:
                    if isinstance(y, tuple) and y and isinstance(y[0], str) and y[0] in KINDS:
                        yield from subtrees(y)
                    elif isinstance(y, tuple) and len(y) == 2 and isinstance(y[1], tuple):   # (name, gen)
                        yield from subtrees(y[1])


KINDS = {"int", "flt", "fact", "choose", "var", "tag", "conv", "bin", "cmp", "arr", "range", "range3", "agg",
         "varargs", "in", "comp", "seq", "assign"}


def has_kind(t, kinds):
    return any(s[0] in kinds for s in subtrees(t))


def totuple(x):
    return tuple(totuple(y) if isinstance(y, list) else y for y in x)


# ------------------------------------------------------------------ the independent oracle of the property
class Err(Exception):
    """the property (or ordinary Ka semantics of the scalar operators) demands a diagnosed error"""


class Abstain(Exception):
    """the property says nothing about this input"""


UNCERTAIN = object()     # a variable whose value after a comprehension the property does not fix


class Oracle:
    def __init__(self, units, ndims):
        self.units, self.ndims = units, ndims
        self.zero = tuple([0] * ndims)

    # values: ("s", Fraction, exact, dims, is_qty) | ("a", [values])
    def num(self, f, exact=True):
        return ("s", Fraction(f), exact, self.zero, False)

    def unit(self, name):
        u = self.units[name]
        if u["off"][1] != 0:
            raise Abstain()
        return Fraction(u["mult"][1], u["mult"][2]), u["mult"][0] != "x", tuple(u["dim"])

    def scal(self, v):
        if v[0] != "s":
            raise Abstain()
        return v

    def arith(self, op, a, b):
        a, b = self.scal(a), self.scal(b)
        ex, isq = a[2] and b[2], a[4] or b[4]
        if op in ("QAdd", "QSub"):
            if a[3] != b[3]:
                raise Err("dimension")
            return ("s", a[1] + b[1] if op == "QAdd" else a[1] - b[1], ex, a[3], isq)
        if op == "QMul":
            return ("s", a[1] * b[1], ex, tuple(x + y for x, y in zip(a[3], b[3])), isq)
        if b[1] == 0:
            raise Err("division by zero")
        return ("s", a[1] / b[1], ex, tuple(x - y for x, y in zip(a[3], b[3])), isq)

    def compare(self, c, a, b):
        a, b = self.scal(a), self.scal(b)
        if a[3] != b[3]:
            raise Err("dimension")
        if not (a[2] and b[2]) and Q.close(a[1], b[1], 1e-6):
            raise Abstain()             # nearly equal floats: the outcome of a comparison is not stable
        x, y = a[1], b[1]
        return self.num(int({"QLt": x < y, "QLe": x <= y, "QEq": x == y, "QNe": x != y}[c]))

    def elems(self, v):
        if v[0] != "a":
            raise Abstain()
        return v[1]

    def same_dim_scalars(self, xs):
        xs = [self.scal(x) for x in xs]
        if any(x[3] != xs[0][3] for x in xs):
            raise Err("mixed dimensions")
        return xs

    def order(self, xs):
        """ascending by magnitude, stable; abstains when float ties make the order unstable"""
        for i, x in enumerate(xs):
            for y in xs[i + 1:]:
                if not (x[2] and y[2]) and x[1] != y[1] and Q.close(x[1], y[1], 1e-6):
                    raise Abstain()
        return sorted(xs, key=lambda x: x[1])

    def agg(self, f, v):
        xs = self.elems(v)
        if f == "ASize":
            return self.num(len(xs))
        if not xs:
            if f == "ASum":
                return self.num(0)
            if f == "AProd":
                return self.num(1)
            raise Err("empty array")
        if f == "AProd":
            r = self.num(1)
            for x in xs:
                r = self.arith("QMul", self.scal(x), r)
            return r
        if any(x[0] != "s" for x in xs):
            raise Abstain()             # aggregates over nested arrays: the property is silent
        if len(xs) == 1 and f in ("ASum", "AMedian", "AMin", "AMax"):
            return xs[0]
        xs = self.same_dim_scalars(xs)
        ex, isq, d = all(x[2] for x in xs), any(x[4] for x in xs), xs[0][3]
        if f == "ASum":
            return ("s", sum(x[1] for x in xs), ex, d, isq)
        if f == "AMean":
            return ("s", sum(x[1] for x in xs) / len(xs), ex, d, isq)
        if f in ("AMin", "AMax"):
            return self.extreme(xs, f == "AMax")
        s = self.order(xs)
        n = len(s)
        if n % 2:
            return self.tied(s, s[n // 2])
        a, b = self.tied(s, s[n // 2 - 1]), self.tied(s, s[n // 2])
        return ("s", (a[1] + b[1]) / 2, a[2] and b[2], d, a[4] or b[4])

    def tied(self, xs, x):
        """x, marked inexact when an element of equal magnitude is a float (which of them is delivered
        is not the property's business)"""
        return ("s", x[1], all(y[2] for y in xs if y[1] == x[1]), x[3], x[4])

    def extreme(self, xs, is_max):
        s = self.order(xs)
        return self.tied(s, s[-1] if is_max else s[0])

    def ev(self, t, env):
        k = t[0]
        if k == "int":
            return self.num(t[1])
        if k == "flt":
            return self.num(Fraction(float(t[1])), False)
        if k == "fact":
            return self.num(math.factorial(t[1]) if t[1] >= 2 else 1)
        if k == "choose":
            n, kk = t[1], t[2]
            return self.num(0 if (kk > n or n < 0 or kk < 0) else math.comb(n, kk))
        if k == "var":
            if t[1] not in env:
                raise Err("unassigned variable")
            if env[t[1]] is UNCERTAIN:
                raise Abstain()
            return env[t[1]]
        if k == "tag":
            v = self.ev(t[1], env)
            if v[0] != "s" or v[4]:
                raise Err("units on a non-number")
            m, ex, d = self.unit(t[2])
            return ("s", v[1] * m, v[2] and ex, d, True)
        if k == "conv":
            v = self.ev(t[1], env)
            m, ex, d = self.unit(t[2])
            if v[0] != "s" or not v[4] or v[3] != d:
                raise Err("conversion")
            return ("s", v[1] / m, v[2] and ex, self.zero, False)
        if k == "bin":
            a = self.ev(t[2], env)
            b = self.ev(t[3], env)
            return self.arith(t[1], a, b)
        if k == "cmp":
            a = self.ev(t[2], env)
            b = self.ev(t[3], env)
            return self.compare(t[1], a, b)
        if k == "arr":
            return ("a", [self.ev(x, env) for x in t[1]])
        if k == "range":
            a = self.ev(t[1], env)
            b = self.ev(t[2], env)
            for v in (a, b):
                if v[0] != "s" or v[4] or not v[2] or v[1].denominator != 1:
                    raise Err("range bounds must be integers")
            return ("a", [self.num(i) for i in range(int(a[1]), int(b[1]) + 1)])
        if k == "range3":
            vs = [self.ev(x, env) for x in t[1:4]]
            for v in vs:
                if v[0] != "s" or v[4]:
                    raise Err("range arguments must be numbers")
            lo, hi, st = (v[1] for v in vs)
            ex = all(v[2] for v in vs)
            if not ex and (Q.close(lo, hi, 1e-6) and lo != hi or Q.close(st, 0, 1e-6) and st != 0):
                raise Abstain()
            if lo > hi or st <= 0:
                raise Err("range guard")
            n = math.floor((hi - lo) / st)
            return ("a", [("s", lo + i * st, ex, self.zero, False) for i in range(n + 1)])
        if k == "agg":
            v = self.ev(t[2], env)
            if v[0] == "s":
                if t[1] in ("AMax", "AMin") and not v[4]:
                    return v                     # max(5) is the one-argument call
                raise Err("not an array")
            return self.agg(t[1], v)
        if k == "varargs":
            vs = [self.ev(x, env) for x in t[2]]
            if not vs:
                raise Err("no arguments")
            if any(v[0] != "s" or v[4] for v in vs):
                raise Abstain()
            return self.extreme(vs, t[1])
        if k == "in":
            x = self.ev(t[1], env)
            xs = self.elems(self.ev(t[2], env))
            if x[0] != "s":
                raise Abstain()
            hit = False
            for e in xs:
                if e[0] != "s" or e[3] != x[3]:
                    raise Abstain()
                if not (e[2] and x[2]) and e[1] != x[1] and Q.close(e[1], x[1], 1e-6):
                    raise Abstain()
                hit = hit or e[1] == x[1]
            return self.num(int(hit))
        if k == "comp":
            if not t[2]:
                raise Err("no generator")
            arrs = [self.ev(g, env) for _, g in t[2]]      # all generators first, in the current scope
            if any(a[0] != "a" for a in arrs):
                raise Err("generator is not an array")
            names = [n for n, _ in t[2]]
            n = min(len(a[1]) for a in arrs)
            out = []
            for i in range(n):
                for nm, a in zip(names, arrs):
                    env[nm] = a[1][i]
                keep = True
                for c in t[3]:
                    v = self.ev(c, env)
                    if v[0] != "s" or v[4] or v[1] not in (0, 1):
                        raise Err("condition is not 0 or 1")
                    if v[1] == 0:
                        keep = False
                if keep:
                    out.append(self.ev(t[1], env))
            # whether a generator longer than the shortest leaves its next element bound is not
            # fixed by the property
            for nm, a in zip(names, arrs):
                if len(a[1]) > n:
                    env[nm] = UNCERTAIN
            return ("a", out)
        if k == "seq":
            self.ev(t[1], env)
            return self.ev(t[2], env)
        if k == "assign":
            v = self.ev(t[2], env)
            env[t[1]] = v
            return v
        raise ValueError(k)

    def run(self, t):
        """('val', v) | ('err',) | ('abstain',)"""
        try:
            return ("val", self.ev(t, {"true": self.num(1), "false": self.num(0)}))
        except Err as e:
            return ("err", str(e))
        except Abstain:
            return ("abstain",)


# ------------------------------------------------------------------ encoded values
def split_top(s):
    out, depth, cur = [], 0, ""
    for ch in s:
        if ch == "[":
            depth += 1
        elif ch == "]":
            depth -= 1
        if ch == ";" and depth == 0:
            out.append(cur)
            cur = ""
        else:
            cur += ch
    if cur != "" or out:
        out.append(cur)
    return out


def parse_enc(s):
    """('err', cls) | ('s', Fraction, exact, kind, dims|None) | ('a', [..]) | ('other', s)"""
    if s is None:
        return ("other", None)
    if s.startswith("E:"):
        return ("err", s[2:])
    if s.startswith("A:["):
        return ("a", [parse_enc(x) for x in split_top(s[3:-1])])
    p = Q.parse_enc(s)
    if p[0] == "num":
        return ("s", p[1], p[2], s[:1], None)
    if p[0] == "qty":
        if not p[1] or len(p[1]) < 2:
            return ("other", s)
        return ("s", p[1][0], p[1][1], "Q" + s[2:3], p[2])
    return ("other", s)


def same_model(pm, pi):
    """model value vs implementation value: exact kinds must agree literally, floats within tolerance"""
    if pm[0] != pi[0]:
        return False
    if pm[0] == "err":
        return pm[1] == pi[1]
    if pm[0] == "a":
        return len(pm[1]) == len(pi[1]) and all(same_model(a, b) for a, b in zip(pm[1], pi[1]))
    if pm[0] == "s":
        if pm[4] != pi[4]:
            return False
        if pm[2]:
            return pi[2] and pm[1] == pi[1] and pm[3] == pi[3]
        return Q.close(pm[1], pi[1], TOL)
    return pm == pi


def same_oracle(ov, pi, zero):
    """oracle value vs implementation value: magnitudes and dimensions (a plain number is dimensionless)"""
    if ov[0] == "a":
        return pi[0] == "a" and len(ov[1]) == len(pi[1]) and all(same_oracle(a, b, zero) for a, b in zip(ov[1], pi[1]))
    if pi[0] != "s":
        return False
    dims = pi[4] if pi[4] is not None else zero
    if tuple(dims) != tuple(ov[3]):
        return False
    if ov[2]:
        kind = pi[3][-1]
        return pi[2] and pi[1] == ov[1] and (kind == "I") == (ov[1].denominator == 1)
    return Q.close(ov[1], pi[1], TOL)


def float_range_ok(pm, pi):
    """a float-stepped range: common prefix within tolerance, at most the boundary element differs"""
    if pm[0] != "a" or pi[0] != "a":
        return False
    a, b = pm[1], pi[1]
    if abs(len(a) - len(b)) > 1:
        return False
    n = min(len(a), len(b))
    return all(x[0] == "s" and y[0] == "s" and Q.close(x[1], y[1], 1e-9) for x, y in zip(a[:n], b[:n]))


def show_oracle(v):
    if v[0] == "a":
        return "{" + ", ".join(show_oracle(x) for x in v[1]) + "}"
    s = str(v[1]) if v[2] else "~%g" % float(v[1])
    return s + ("" if not any(v[3]) else " [dims %s]" % ",".join(map(str, v[3])))


# ------------------------------------------------------------------ implementation side
def impl_case(text):
    return C.observe(text)


def impl_outcome(o):
    if o.get("hung"):
        return "HUNG"
    r = o.get("raw")
    if o.get("escaped") or o.get("status") not in (0, 1):
        return "E:%s escaped from execute() (status %r)" % (o.get("escaped") or (r or "")[2:], o.get("status"))
    if r and r.startswith("E:"):
        if o.get("status") != 1 or o.get("out") != "" or (o.get("err") or "").strip() == "":
            return r + " not diagnosed (status %r, out %r, err %r)" % (o.get("status"), o.get("out"), (o.get("err") or "")[:40])
        return r
    if o.get("value") != r:
        return "%s but execute() delivered %r" % (r, o.get("value"))
    return r


# ------------------------------------------------------------------ generators
def elem_pools():
    m = lambda e, u: ("tag", e, u)
    return {
        "int": [I(n) for n in (-3, -1, 0, 1, 2, 3, 5, 7)] + [I(10 ** 20)],
        "frac": [Fr(1, 2), Fr(1, 3), Fr(2, 3), Fr(3, 2), Fr(-1, 2), Fr(7, 3), Fr(4, 2)],
        "float": [("flt", s) for s in ("0.5", "0.25", "1.5", "2.5", "0.125", "3.75")],
        "lazy": [("fact", 3), ("fact", 4), ("fact", 0), ("choose", 5, 2), ("choose", 4, 2), ("choose", 3, 5),
                 ("bin", "QDiv", ("fact", 5), ("fact", 3))],
        "length": [m(I(1), "m"), m(I(100), "cm"), m(I(2), "km"), m(I(50), "cm"), m(Fr(1, 2), "m"), m(I(3), "m"),
                   m(I(250), "cm"), m(("fact", 3), "m")],
        "time": [m(I(1), "s"), m(I(2), "s"), m(I(500), "ms"), m(Fr(3, 2), "s")],
        "floatqty": [m(("flt", "0.5"), "m"), m(("flt", "1.5"), "m"), m(I(1), "mi")],
        "dimless": [("bin", "QDiv", m(I(1), "m"), m(I(1), "m")), ("bin", "QDiv", m(I(3), "m"), m(I(2), "m"))],
        "nested": [("arr", (I(1),)), ("arr", (I(1), I(2))), ("arr", ()), ("arr", (("arr", (I(1),)),))],
    }


MIXES = [("int",), ("frac",), ("int", "frac"), ("float",), ("int", "float"), ("frac", "float"), ("lazy",), ("lazy", "int", "frac"),
         ("length",), ("time",), ("length", "time"), ("length", "int"), ("floatqty",), ("length", "floatqty"),
         ("dimless", "int"), ("dimless", "frac"), ("nested",), ("nested", "int"), ("length", "nested")]


def arrays_for(rng, pools, mix, count, maxlen=6):
    src = [e for k in mix for e in pools[k]]
    out = []
    for _ in range(count):
        n = rng.choice([1, 2, 2, 3, 3, 4, 5, maxlen])
        out.append(("arr", tuple(rng.choice(src) for _ in range(n))))
    return out


def fixed_cases(pools):
    """exhaustive-small slices"""
    cases = []
    # --- integer ranges, both spellings
    for lo in range(-3, 5):
        for hi in range(-3, 5):
            cases.append(("range", I(lo), I(hi), "dots"))
            cases.append(("range", I(lo), I(hi), "fn"))
    for lo, hi in [(10 ** 20, 10 ** 20 + 3), (-10 ** 30 - 2, -10 ** 30), (0, 300), (5, -10 ** 9), (-(2 ** 64), -(2 ** 64) + 1)]:
        cases.append(("range", I(lo), I(hi), "dots"))
        cases.append(("agg", "ASize", ("range", I(lo), I(hi), "fn")))
    for a, b in [(Fr(1, 2), I(3)), (I(1), Fr(7, 2)), (Fr(4, 2), I(3)), (("flt", "0.5"), I(3)), (I(1), ("flt", "2.5")),
                 (("tag", I(1), "m"), I(3)), (("arr", (I(1),)), I(3)), (I(1), ("fact", 3)), (("fact", 0), I(3)),
                 (I(1), ("choose", 4, 2)), (("fact", 3), ("fact", 4)), (I(1), ("bin", "QAdd", I(1), I(2)))]:
        cases.append(("range", a, b, "dots"))
        cases.append(("range", a, b, "fn"))
    cases.append(("seq", ("assign", "n", ("fact", 3)), ("range", I(1), ("var", "n"), "dots")))
    cases.append(("seq", ("assign", "n", I(4)), ("range", I(1), ("var", "n"), "dots")))
    # --- stepped ranges
    steps = [I(-1), I(0), Fr(1, 2), I(1), I(2), Fr(1, 3), ("flt", "0.5"), ("flt", "2.5"), Fr(-1, 2), Fr(0, 3)]
    for lo in range(-2, 4):
        for hi in range(-2, 4):
            for st in steps:
                cases.append(("range3", I(lo), I(hi), st))
    for a, b, c in [(Fr(1, 2), I(2), Fr(1, 2)), (Fr(1, 3), Fr(7, 3), Fr(2, 3)), (I(0), I(1), Fr(1, 7)), (Fr(-3, 2), Fr(3, 2), Fr(3, 4)),
                    (("flt", "0.5"), I(2), ("flt", "0.5")), (I(0), I(10), ("flt", "2.5")), (("flt", "0.25"), ("flt", "0.25"), I(1)),
                    (("fact", 3), I(8), I(1)), (I(1), I(8), ("fact", 3)), (I(1), ("fact", 3), I(2)), (I(0), I(100), I(1)),
                    (I(0), I(1), Fr(1, 100)), (I(10 ** 20), I(10 ** 20 + 2), I(1)), (I(0), I(10 ** 20), I(10 ** 19)),
                    (("tag", I(1), "m"), ("tag", I(3), "m"), ("tag", I(1), "m")), (I(1), I(3), ("tag", I(1), "m")),
                    (I(1), ("arr", (I(3),)), I(1)), (I(1), I(5), Fr(-1, 3)), (I(5), I(1), I(-1)), (I(5), I(1), I(0))]:
        cases.append(("range3", a, b, c))
    # float steps that accumulate rounding error: compared with tolerance, boundary element excepted
    for a, b, c in [("0", "1", "0.1"), ("0", "0.3", "0.1"), ("0", "0.7", "0.1"), ("1", "2", "0.2"), ("0", "1", "0.3"), ("0.1", "0.5", "0.1")]:
        mk = lambda s: I(int(s)) if s.isdigit() else ("flt", s)
        cases.append(("range3", mk(a), mk(b), mk(c)))
    # --- empty arrays x every aggregate, `in`
    for f in AGGS:
        cases.append(("agg", f, ("arr", ())))
        cases.append(("agg", f, ("range", I(3), I(1), "dots")))
        cases.append(("agg", f, I(5)))
        cases.append(("agg", f, ("tag", I(5), "m")))
    cases += [("in", I(1), ("arr", ())), ("in", ("arr", ()), ("arr", ())), ("in", I(1), I(1)), ("in", ("arr", (I(1),)), I(1)),
              ("varargs", True, ()), ("varargs", False, ()), ("varargs", True, (I(1), I(2), I(3))),
              ("varargs", False, (Fr(1, 2), ("flt", "0.25"), I(1))), ("varargs", True, (Fr(1, 2), ("flt", "0.5"))),
              ("varargs", True, (("flt", "0.5"), Fr(1, 2))), ("varargs", False, (("fact", 3), I(7))),
              ("varargs", True, (I(1), ("tag", I(2), "m"))), ("varargs", True, (("arr", (I(1),)), I(2)))]
    # --- every aggregate on every element of every pool (singletons) and on all ordered pairs of pool heads
    heads = [pools[k][i] for k in pools for i in (0, 1) if len(pools[k]) > i]
    for f in AGGS:
        for e in heads:
            cases.append(("agg", f, ("arr", (e,))))
        for a in heads:
            for b in heads:
                cases.append(("agg", f, ("arr", (a, b))))
    for a in heads:
        for b in heads:
            cases.append(("in", a, ("arr", (b,))))
            cases.append(("in", a, ("arr", (pools["int"][0], b, a))))
    # --- the property's own examples and the candidates named in the task
    L = lambda *xs: ("arr", tuple(xs))
    m = lambda e, u: ("tag", e, u)
    named = [
        ("agg", "AMean", L(m(I(1), "m"), m(I(2), "m"))), ("agg", "AMean", L(m(I(1), "m"), m(I(100), "cm"), m(I(2), "km"))),
        ("agg", "AMedian", L(m(I(1), "m"), m(I(2), "m"))), ("agg", "AMedian", L(m(I(1), "m"), m(I(200), "cm"), m(I(3), "m"))),
        ("agg", "AMedian", L(m(I(4), "m"), m(I(1), "m"), m(I(300), "cm"), m(I(2), "m"))),
        ("agg", "AMin", L(I(2), pools["dimless"][0])), ("agg", "AMax", L(pools["dimless"][0], I(2))), ("agg", "AMin", L(I(1), pools["dimless"][0])),
        ("agg", "ASum", L(L(I(1)), L(I(2)))), ("agg", "ASum", L(L(I(1)))), ("agg", "AMean", L(L(I(1)))), ("agg", "AMedian", L(L(I(1)))),
        ("in", m(I(1), "m"), L(m(I(100), "cm"))), ("in", m(I(1), "m"), L(m(I(1), "s"))), ("in", I(1), L(I(1), m(I(1), "s"))),
        ("in", I(1), L(m(I(1), "s"), I(1))), ("in", L(I(1), I(2)), L(L(I(1), I(2)))),
        ("agg", "AProd", L(m(I(1), "m"), m(I(2), "m"))), ("agg", "AProd", L(m(I(1), "m"), m(I(2), "s"), I(3))), ("agg", "AProd", L(m(I(2), "m"), Fr(1, 2))),
        ("agg", "AMean", L(("fact", 3), ("choose", 5, 2))), ("agg", "AProd", L(("fact", 3), ("choose", 5, 2))), ("agg", "AProd", L(("fact", 3), Fr(1, 2))),
        ("agg", "AMedian", L(("fact", 3), ("choose", 5, 2))), ("agg", "AMedian", L(I(4), I(1), ("fact", 3))),
        ("agg", "ASize", L(L(I(1), I(2)), L(I(3)))), ("agg", "ASize", L(L(), L())), ("agg", "ASum", ("range", I(1), I(100), "dots")),
        ("agg", "AProd", ("range", I(1), I(20), "dots")), ("agg", "AMean", ("range", I(1), I(4), "dots")),
        ("agg", "AMedian", L(I(3), I(1), I(2))), ("agg", "AMedian", L(I(3), I(1), I(2), I(4))), ("agg", "AMedian", L(I(1), I(1), I(1), I(1))),
        ("agg", "AMedian", L(Fr(1, 2), ("flt", "0.5"), Fr(1, 2))), ("agg", "AMax", L(Fr(1, 2), ("flt", "0.5"))), ("agg", "AMax", L(("flt", "0.5"), Fr(1, 2))),
        ("agg", "ASum", L(("flt", "0.5"), ("flt", "0.5"))), ("agg", "ASum", ("range3", I(0), I(2), ("flt", "0.5"))),
        ("agg", "ASum", L(I(1), m(I(1), "m"))), ("agg", "ASum", L(m(I(1), "m"), m(I(1), "s"))), ("agg", "AMax", L(m(I(1), "m"), m(I(1), "s"))),
        ("agg", "AMedian", L(m(I(1), "m"), m(I(1), "s"))), ("agg", "AMean", L(m(I(1), "m"), I(2))),
        ("agg", "ASum", L(m(I(1), "km"), m(I(1), "mi"))), ("arr", (("fact", 3),)), L(m(I(1), "m"), m(I(100), "cm"), m(I(2), "km")),
        ("bin", "QDiv", I(1), ("range", I(2), I(3), "dots")),
    ]
    cases += named
    # --- comprehensions: generators x conditions x bodies
    X, Y, Z = ("var", "x"), ("var", "y"), ("var", "z")
    gens1 = [("range", I(1), I(3), "dots"), L(I(5), I(6)), L(), ("range", I(1), I(5), "dots"), L(m(I(1), "m"), m(I(2), "m")),
             ("range3", I(0), I(1), Fr(1, 3)), L(I(0), I(1), I(1), I(0)), L(L(I(1)), L(I(2), I(3)))]
    conds = [("cmp", "QLt", X, I(3)), ("cmp", "QNe", X, I(2)), ("bin", "QAdd", X, I(1)), I(1), I(0), I(2), ("in", X, L(I(2), I(3), I(5))),
             m(I(1), "m"), L(I(1)), L(), ("flt", "1.0"), ("fact", 1), ("choose", 1, 2), ("bin", "QDiv", m(I(1), "m"), m(I(1), "m")),
             ("cmp", "QEq", X, X), X, ("cmp", "QLt", X, m(I(150), "cm")), ("bin", "QDiv", I(1), ("bin", "QSub", X, I(2))), Fr(1, 2), ("var", "undefined")]
    bodies1 = [X, ("bin", "QMul", X, I(2)), L(X, X), ("agg", "ASum", L(X, I(1))), I(7), ("var", "undefined")]
    for g in gens1:
        for b in bodies1[:3]:
            cases.append(("comp", b, (("x", g),), (), False))
            cases.append(("seq", ("comp", b, (("x", g),), (), False), X))
        for c in conds:
            cases.append(("comp", X, (("x", g),), (c,), False))
    g0 = gens1[0]
    for c1 in conds:
        for c2 in conds:
            cases.append(("comp", X, (("x", g0),), (c1, c2), False))
    for b in bodies1:
        cases.append(("comp", b, (("x", g0),), (conds[0],), False))
    lens = [("range", I(1), I(n), "dots") for n in (0, 1, 2, 3)] + [L(I(10), I(20)), L(I(7), I(8), I(9), I(10))]
    bodies2 = [("bin", "QAdd", X, Y), L(X, Y), Y]
    for ga in lens:
        for gb in lens:
            for b in bodies2:
                cases.append(("comp", b, (("x", ga), ("y", gb)), (), False))
            cases.append(("comp", bodies2[0], (("x", ga), ("y", gb)), (("cmp", "QLt", X, Y),), True))
            for v in (X, Y):
                cases.append(("seq", ("comp", bodies2[0], (("x", ga), ("y", gb)), (), False), v))
                cases.append(("seq", ("assign", v[1], I(99)), ("seq", ("comp", bodies2[0], (("x", ga), ("y", gb)), (), False), v)))
    for ga in lens[1:]:
        for gb in lens[2:]:
            for gc in (lens[1], lens[3], lens[5]):
                gs = (("x", ga), ("y", gb), ("z", gc))
                cases.append(("comp", ("bin", "QAdd", ("bin", "QAdd", X, Y), Z), gs, (), False))
                cases.append(("comp", L(X, Y, Z), gs, (("cmp", "QLt", X, Z), ("cmp", "QNe", Y, I(2))), True))
                for v in (X, Y, Z):
                    cases.append(("seq", ("comp", X, gs, (), False), v))
    cases += [
        ("comp", X, (), (("cmp", "QLt", I(1), I(2)),), False), ("comp", I(1), (), (I(1),), False),
        ("comp", X, (("x", I(5)),), (), False), ("comp", X, (("x", m(I(5), "m")),), (), False),
        ("comp", X, (("x", g0), ("y", I(5))), (), False), ("comp", X, (("x", I(5)), ("y", ("var", "undefined"))), (), False),
        ("comp", X, (("x", X),), (), False), ("seq", ("assign", "x", L(I(1), I(2))), ("comp", X, (("x", X),), (), False)),
        ("seq", ("assign", "x", L(I(1), I(2))), ("seq", ("comp", X, (("x", X),), (), False), X)),
        ("comp", X, (("x", g0), ("x", L(I(7), I(8)))), (), False),                      # the later generator rebinds the same name
        ("comp", Y, (("x", g0), ("y", L(X))), (), False),                               # generators are evaluated before any binding
        ("seq", ("assign", "x", I(4)), ("comp", Y, (("x", g0), ("y", ("range", I(1), X, "dots"))), (), False)),
        ("comp", ("comp", ("bin", "QMul", X, Y), (("y", ("range", I(1), X, "dots")),), (), False), (("x", g0),), (), False),
        ("seq", ("comp", ("comp", Y, (("y", ("range", I(1), X, "dots")),), (), False), (("x", g0),), (), False), Y),
        ("comp", ("agg", "ASum", ("comp", Y, (("y", ("range", I(1), X, "dots")),), (("cmp", "QNe", Y, I(2)),), False)), (("x", ("range", I(1), I(4), "dots")),), (), False),
        ("comp", X, (("x", g0),), (("in", I(2), ("comp", Y, (("y", ("range", I(1), X, "dots")),), (), False)),), False),
        ("comp", ("conv", X, "cm"), (("x", L(m(I(1), "m"), m(I(2), "m"))),), (), False),
        ("comp", X, (("x", L(m(I(1), "m"), m(I(2), "m"))),), (("cmp", "QLt", X, m(I(150), "cm")),), False),
        ("agg", "ASum", ("comp", ("bin", "QMul", X, X), (("x", ("range", I(1), I(10), "dots")),), (("cmp", "QNe", X, I(5)),), False)),
        ("agg", "AMean", ("comp", ("tag", X, "m"), (("x", ("range", I(1), I(4), "dots")),), (), False)),
        ("seq", ("comp", ("bin", "QMul", X, I(2)), (("x", ("range", I(1), I(3), "dots")),), (), False), X),
        ("seq", ("comp", X, (("x", L()),), (), False), X), ("seq", ("assign", "x", I(7)), ("seq", ("comp", X, (("x", L()),), (), False), X)),
        ("seq", ("comp", X, (("x", g0),), (("bin", "QAdd", X, I(1)),), False), X),
    ]
    return cases


def rand_scalar(rng, pools, kinds):
    return rng.choice(pools[rng.choice(kinds)])


def rand_array(rng, pools, depth):
    r = rng.random()
    if r < 0.55 or depth <= 0:
        mix = rng.choice(MIXES)
        n = rng.choice([0, 1, 2, 2, 3, 3, 4, 5, 6, 8])
        src = [e for k in mix for e in pools[k]]
        return ("arr", tuple(rng.choice(src) for _ in range(n)))
    if r < 0.7:
        return ("range", I(rng.randrange(-4, 5)), I(rng.randrange(-4, 9)), rng.choice(["dots", "fn"]))
    if r < 0.8:
        st = rng.choice([Fr(1, 2), Fr(1, 3), I(1), I(2), Fr(3, 2), ("flt", "0.5"), ("flt", "0.25"), I(0), Fr(-1, 2)])
        return ("range3", rng.choice([I(rng.randrange(-3, 3)), Fr(rng.randrange(-5, 5), 2)]), rng.choice([I(rng.randrange(-2, 6)), Fr(rng.randrange(-3, 12), 3)]), st)
    return rand_comp(rng, pools, depth - 1)


def rand_cond(rng, names, pools):
    v = ("var", rng.choice(names))
    r = rng.random()
    if r < 0.55:
        return ("cmp", rng.choice(list(QCMP)), v, rng.choice([I(rng.randrange(-2, 6)), Fr(rng.randrange(1, 9), 2), ("var", rng.choice(names))]))
    if r < 0.7:
        return ("in", v, ("arr", tuple(I(rng.randrange(-2, 6)) for _ in range(rng.randrange(0, 4)))))
    if r < 0.8:
        return rng.choice([I(1), I(0), ("fact", 1), ("choose", 1, 2), ("flt", "1.0")])
    return rng.choice([("bin", "QAdd", v, I(1)), I(2), ("tag", I(1), "m"), ("arr", (I(1),)), v, Fr(1, 2), ("bin", "QMul", v, I(0))])


def rand_body(rng, names):
    v = lambda: ("var", rng.choice(names))
    r = rng.random()
    if r < 0.3:
        return v()
    if r < 0.6:
        return ("bin", rng.choice(list(QOP)), v(), rng.choice([v(), I(rng.randrange(-2, 5)), Fr(1, 2)]))
    if r < 0.75:
        return ("arr", (v(), v()))
    if r < 0.85:
        return ("agg", rng.choice(["ASum", "AProd", "AMax", "ASize"]), ("arr", (v(), I(2), v())))
    return rng.choice([I(3), ("cmp", "QLt", v(), v()), ("tag", v(), "m")])


def rand_comp(rng, pools, depth):
    ng = rng.choice([1, 1, 2, 2, 3])
    names = [rng.choice(["x", "y", "z", "k"]) for _ in range(ng)]
    if rng.random() < 0.85:
        names = ["x", "y", "z"][:ng]
    gens = []
    for nm in names:
        r = rng.random()
        if r < 0.7:
            g = ("range", I(rng.randrange(-1, 3)), I(rng.randrange(0, 7)), "dots")
        elif r < 0.93 or depth <= 0:
            g = ("arr", tuple(rand_scalar(rng, pools, ["int", "frac", "lazy", "length"]) for _ in range(rng.randrange(0, 6))))
        else:
            g = rng.choice([I(5), ("var", "w"), ("tag", I(1), "m")])
        gens.append((nm, g))
    conds = tuple(rand_cond(rng, names, pools) for _ in range(rng.choice([0, 0, 1, 1, 2])))
    return ("comp", rand_body(rng, names), tuple(gens), conds, rng.random() < 0.3)


def rand_case(rng, pools):
    r = rng.random()
    if r < 0.5:
        a = rand_array(rng, pools, 2)
        return ("agg", rng.choice(list(AGGS)), a)
    if r < 0.62:
        a = rand_array(rng, pools, 1)
        x = rand_scalar(rng, pools, ["int", "frac", "lazy", "length", "time", "float", "dimless"])
        if a[0] == "arr" and a[1] and rng.random() < 0.5:
            x = rng.choice(a[1])
        return ("in", x, a)
    if r < 0.85:
        c = rand_comp(rng, pools, 1)
        if rng.random() < 0.4:
            return ("seq", c, ("var", rng.choice([n for n, _ in c[2]] + ["x"])))
        if rng.random() < 0.3:
            return ("agg", rng.choice(list(AGGS)), c)
        return c
    if r < 0.93:
        return rand_array(rng, pools, 2)
    return ("varargs", rng.random() < 0.5, tuple(rand_scalar(rng, pools, ["int", "frac", "float", "lazy"]) for _ in range(rng.randrange(0, 5))))


# ------------------------------------------------------------------ classification of a disagreement
def signature_for(t, got, exp_kind):
    top = t[0]
    f = t[1] if top == "agg" else ""
    if "escaped" in got:
        where = "comprehension-condition" if has_kind(t, {"comp"}) else top
        return dict(kind="escape", where=where, exc=got.split()[0][2:])
    if got == "HUNG":
        return dict(kind="hang", top=top)
    if got.startswith("E:NoMatching") and any(x[0] == "range" and (has_kind(x[1], {"fact", "choose", "var"}) or has_kind(x[2], {"fact", "choose", "var"}))
                                              for x in subtrees(t)):
        return dict(kind="lazy-range-bound")
    return dict(kind="wrong-" + exp_kind, top=top, agg=f, got=got[:2])


# ------------------------------------------------------------------ the check
def run(ctx):
    C.config_matrix(ctx["report"], ctx["rundir"], "C12", ["sum(1..10)", "median({3, 1, 2})", "{x*x : x in 1..4, x % 2 == 0}", "range(1, 2, 1/4)", "mean({1 m, 3 m})", "max({1/3, 0.3})", "1/3 in {1/3}", "{x : x in 1..2, x in 4..6}", "size(range(1, 10^30, 10^29))", "a = {3, 1, 2}; {median(a) + x : x in a}"])
    # --- history relations (coordinator): an aggregate leaves the array it was applied to unchanged, and lazy
    #     values are accepted on either side of `..`
    _items = []
    for _f in ("median", "sum", "prod", "mean", "min", "max", "size"):
        _items.append((["a = {3, 1, 2, 5}", "m = %s(a)" % _f, "a"], "A:[I:3;I:1;I:2;I:5]", "%s(a) leaves a unchanged" % _f))
        _items.append((["a = {3 m, 100 cm, 2 m}", "m = %s(a)" % _f, "{x : x in a}"] if _f not in ("prod",) else ["a = {3, 1, 2}", "m = prod(a)", "{x*y : x in a, y in {10, 20, 30}}"],
                       "A:[Q:I:3|0,1,0,0,0,0,0,0;Q:I:1|0,1,0,0,0,0,0,0;Q:I:2|0,1,0,0,0,0,0,0]" if _f not in ("prod",) else "A:[I:30;I:20;I:60]", "%s(a) leaves a unchanged (comprehension over a)" % _f))
    _items += [(["2!..4"], "A:[I:2;I:3;I:4]", "lazy lower bound"), (["sum(3!..10)"], "I:40", "lazy lower bound"), (["4!..3"], "A:[]", "lazy lower bound above the upper bound"),
               (["1..3!"], "A:[I:1;I:2;I:3;I:4;I:5;I:6]", "lazy upper bound"), (["3!..C(5,2)"], "A:[I:6;I:7;I:8;I:9;I:10]", "lazy bounds")]
    # sizes no small random expression reaches: thousands of elements through ranges, aggregates, comprehensions, membership
    _items += [(["sum(1..5000)"], "I:%d" % (5000 * 5001 // 2), "a range of 5000 elements"), (["size(1..12000)"], "I:12000", "a range of 12000 elements"),
               (["max(1..7000) - min(1..7000)"], "I:6999", "extremes of 7000 elements"), (["median(1..3001)"], "I:1501", "median of 3001 elements"),
               (["median(1..3000)"], "F:3001/2", "median of 3000 elements"), (["mean(1..4000)"], "F:4001/2", "mean of 4000 elements"),
               (["sum({x*x : x in 1..3000})"], "I:%d" % sum(x * x for x in range(1, 3001)), "a comprehension over 3000 elements"),
               (["size({x : x in 1..6000, x % 7 == 0})"], "I:%d" % (6000 // 7), "a filter over 6000 elements"),
               (["sum({x*y : x in 1..3000, y in 1..3000})"], "I:%d" % sum(x * x for x in range(1, 3001)), "two generators of 3000 elements side by side"),
               (["size({x : x in 1..4000, y in 2..4001, x < y, y % 2 == 0})"], "I:2000", "two generators and two conditions over 4000 elements"),
               (["2999 in 1..3000"], "I:1", "membership at the far end"), (["3001 in 1..3000"], "I:0", "membership beyond the far end"),
               (["sum(range(0, 1000, 1/3))"], "I:1500500", "3000 fractional steps"),
               (["size(range(0, 1000, 1/3))"], "I:3001", "3000 fractional steps"),
               (["a = 1..2500", "b = {x : x in a, x > 2400}", "sum(b)"], "I:%d" % sum(range(2401, 2501)), "a long array kept in a variable"),
               (["sum({" + ", ".join(str(i) for i in range(1, 1501)) + "})"], "I:%d" % (1500 * 1501 // 2), "an array literal of 1500 elements"),
               (["max({" + ", ".join("%d m" % i for i in range(1, 1201)) + "}) to km"], "F:6/5", "an array literal of 1200 quantities")]
    C.expect_sessions(ctx["report"], ctx["rundir"], "C12", _items)
    rep, tier, seed = ctx["report"], ctx["tier"], ctx["seed"]
    rng = random.Random(seed * 65537 + 12)
    t0 = time.time()
    stage = lambda name: C.log("  [C12] %-24s %.1fs" % (name, time.time() - t0))
    d = json.load(open(C.BUILD + "/dump.json"))
    ndims = len(d["base_units"])
    res = C.run_impl(Q.resolve_units, [UNIT_NAMES], ctx["rundir"], limit=120.0, procs=1)[0]
    units = {n: u for n, u in res.items() if isinstance(u, dict)}
    missing = [n for n in UNIT_NAMES if n not in units]
    if missing:
        rep.violation(dict(kind="harness-units"), "unit names %r do not resolve on the implementation" % missing, dict(names=missing), found_input=False)
        return
    oracle = Oracle(units, ndims)
    zero = tuple([0] * ndims)

    # ---- (A) regression corpus, first
    reg_texts = [r[0] for r in REGRESSION]
    replay_texts = []
    replay_trees = None
    if ctx.get("replay"):
        r = json.load(open(ctx["replay"]))
        items = [r["replay"]] + r.get("more", [])
        replay_trees = [totuple(x["tree"]) for x in items if isinstance(x, dict) and x.get("tree")]
        replay_texts = [x["text"] for x in items if isinstance(x, dict) and x.get("text") and not x.get("tree")]
    obs = C.run_impl(impl_case, reg_texts + replay_texts, ctx["rundir"], limit=5.0)
    for (text, kind, want), o in zip(REGRESSION, obs):
        wf, why = C.well_formed_outcome(o)
        if kind == "diagnosed":
            ok, exp = wf and o.get("status") == 1, "a diagnosed error (status 1) returned promptly"
        elif kind == "value":
            ok, exp = wf and o.get("status") == 0 and o.get("value") == want, "the value %s" % want
        elif want is None:
            ok, exp = wf and o.get("status") == 0, "a value (status 0)"
        else:
            ok, exp = wf and o.get("status") == 0 and o.get("out") == want, "the display %r" % want
        if not ok:
            rep.violation(dict(kind="regression", input=text),
                          "C12 regression input %r: expected %s, got %s (status %r value %r out %r err %r %s)"
                          % (text, exp, "a hang" if o.get("hung") else "this", o.get("status"), o.get("value"), o.get("out"), (o.get("err") or "")[:80], why),
                          dict(text=text, observed=o))
    for text, o in zip(replay_texts, obs[len(REGRESSION):]):
        C.log("replay %r -> %r" % (text, o))

    stage("regression corpus")
    # ---- (B) trees
    pools = elem_pools()
    trees = fixed_cases(pools)
    per_mix = 6 if tier == "quick" else 40
    for mix in MIXES:
        for a in arrays_for(rng, pools, mix, per_mix):
            for f in AGGS:
                trees.append(("agg", f, a))
            if a[1]:
                trees.append(("in", rng.choice(a[1]), a))
                trees.append(("in", rng.choice(pools[mix[0]]), a))
    n_fixed = len(trees)
    n_rand = 2500 if tier == "quick" else 40000
    seen, out = set(), []
    for t in trees:
        s = ka_text(t)
        if s not in seen:
            seen.add(s)
            out.append(t)
    n_fixed = len(out)
    tries = 0
    while len(out) < n_fixed + n_rand and tries < n_rand * 5:
        tries += 1
        t = rand_case(rng, pools)
        s = ka_text(t)
        if s in seen or len(s) > 400:
            continue
        seen.add(s)
        out.append(t)
    trees = out
    if replay_trees is not None:
        trees = replay_trees
    texts = [ka_text(t) for t in trees]
    obs = C.run_impl(impl_case, texts, ctx["rundir"], limit=5.0)
    stage("implementation runs")
    model = None
    if ctx["model_ok"] and trees:
        model = C.run_model(ctx["rundir"], "c12", IMPORTS, "fun e => show_res show_value (run %d%%nat e)" % ndims,
                            ["(%s)" % coq_term(t, units) for t in trees], shard=250)

    stage("model runs")
    hist, nontrivial, samples = {}, set(), []
    disagreements = oracle_checked = model_checked = 0
    for i, (t, s, o) in enumerate(zip(trees, texts, obs)):
        got = impl_outcome(o)
        pi = parse_enc(got)
        m = model[i] if model else None
        orc = oracle.run(t)
        top = t[0] if t[0] != "seq" else "seq+" + (t[2][0] if t[1][0] != "assign" else "assign")
        key = "%s/%s" % (top + ("." + AGGS[t[1]] if t[0] == "agg" else ""), orc[0])
        hist[key] = hist.get(key, 0) + 1
        if t[0] not in ("int", "flt", "var"):
            nontrivial.add(s)
        if len(samples) < 8 and i % 611 == 3:
            samples.append(dict(input=s, impl=got, model=m, oracle=(show_oracle(orc[1]) if orc[0] == "val" else orc[0])))
        if ctx.get("replay"):
            C.log("replay %s -> impl %s | model %s | oracle %s" % (s, got, m, show_oracle(orc[1]) if orc[0] == "val" else orc))
        floaty_range = has_kind(t, {"range3"}) and has_kind(t, {"flt"})
        # --- the property itself on the implementation
        bad = None
        if got == "HUNG" or "escaped" in got or "not diagnosed" in got or "but execute() delivered" in got:
            bad = ("outcome", "a value or a diagnosed error")
        elif orc[0] == "val":
            oracle_checked += 1
            ok = same_oracle(orc[1], pi, zero) if pi[0] in ("s", "a") else False
            if not ok and floaty_range and t[0] == "range3" and pi[0] == "a":
                ok = float_range_ok(("a", [("s", x[1], x[2], "X", None) for x in orc[1][1]]), pi)
            if not ok:
                bad = ("value", show_oracle(orc[1]))
        elif orc[0] == "err":
            oracle_checked += 1
            if pi[0] != "err":
                bad = ("error", "a diagnosed error (%s)" % orc[1])
        if bad:
            disagreements += 1
            rep.violation(signature_for(t, got, bad[0]),
                          "C12 fails on the implementation: %s gives %s; the property requires %s" % (s, got, bad[1]),
                          dict(tree=t, text=s, impl=got, expected=bad[1], model=m))
            continue
        # --- correspondence of the model
        if m is not None:
            pm = parse_enc(m)
            if pm == ("err", "Unmodelled") or pm == ("err", "OutOfFuel"):
                if pm[1] == "OutOfFuel":
                    rep.violation(dict(kind="model-out-of-fuel"), "the model ran out of fuel on %s" % s, dict(tree=t, text=s, model=m), found_input=False)
                continue
            model_checked += 1
            ok = same_model(pm, pi)
            if not ok and floaty_range and t[0] == "range3":
                ok = float_range_ok(pm, pi)
            if not ok and floaty_range:
                ok = True      # aggregates over a float-stepped range inherit the boundary element: tolerance only at top level
            if not ok and pm[0] == "err" and pi[0] == "err" and has_kind(t, {"arr"}) and len({pm[1], pi[1]} - {"NoMatchingFunctionSignatureError", "IncompatibleQuantitiesError"}) == 0 and t[0] == "agg" and t[1] == "AMedian":
                ok = True      # which of two different failures a sort meets first depends on its comparison order
            if not ok:
                disagreements += 1
                rep.violation(dict(kind="correspondence", top=t[0], agg=t[1] if t[0] == "agg" else ""),
                              "model and implementation disagree on %s: impl %s, model %s (oracle: %s)" % (s, got, m, orc[0]),
                              dict(tree=t, text=s, impl=got, model=m), found_input=False)
    stage("comparison")
    rep.coverage.update(dict(
        evaluations=len(trees) + len(REGRESSION), distinct_nontrivial=len(nontrivial),
        rule="distinct by rendered text; non-trivial = not a bare literal/variable. Exhaustive slices: lo..hi and range(lo,hi) for lo,hi in -3..4 (+5 big pairs, 12 non-integer/lazy bound pairs); range(lo,hi,step) for lo,hi in -2..3 x 10 steps (non-positive, fractions, floats) + 26 named triples; 7 aggregates x {empty, scalar, every pool-head singleton, every ordered pair of pool heads}; `in` over the same pairs; comprehensions: 8 generators x 20 conditions, all 400 condition pairs, 6x6 generator-length pairs x bodies (+ the variables read back afterwards), 3-generator combinations, 27 named; %d fixed in all, plus %d arrays per element mix (%d mixes) x 7 aggregates, plus %d seeded random trees"
             % (n_fixed, per_mix, len(MIXES), len(trees) - n_fixed),
        exhaustive=False, samples=samples, outcome_histogram=hist, traces_validated_against_impl=model_checked,
        oracle_checked=oracle_checked, disagreements=disagreements, kernel_lane_cases=len(model) if model else 0,
        regression_corpus=len(REGRESSION), hangs=sum(1 for o in obs if o.get("hung"))))
    rep.assumptions += [
        "lazy combinatoric elements are modelled by their resolved values (C05 proves resolving never changes a value)",
        "floats: the model and the oracle carry ideal values, compared within 1e-9; comparisons of nearly equal floats are not judged; a float-stepped range may differ from the ideal one by its boundary element (no theorem about float accumulation: C12_stepped is about int/Fraction arguments)",
        "Python's list.sort is taken to be a stable comparison sort (modelled as stable insertion by ka_cmp(a,b) < 0); which of two different errors a sort over unsortable elements meets first is not compared",
        "unit names are resolved on the live implementation (C13's subject); scalar operators are Model/Qty.v (C03/C04)",
        "the value a variable keeps after a comprehension whose generators have different lengths is fixed by the model (code: the generators before the first shortest one are bound once more) but not judged by the oracle",
    ]
