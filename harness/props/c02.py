"""C02 — expressions group exactly as the documented precedence and associativity.
Theorems: coq/Properties/C02.v (round trip parse(print p) = desugar p for the minimal and the fully
parenthesised token text, by induction over ALL well-formed programs / surface trees: every construct, any depth;
Proofs/ParserProofs{,2,3}.v).
Tie (the parser model is hand-written, so this is essential):
 (i)   model parser vs ka.parse.parse_tokens on ALL token-tag sequences up to a length bound (one
       representative payload per tag), compared on a structural dump of the tree or on the
       ParsingError token index;
 (ii)  surface trees (exhaustive small + seeded random to depth 7) printed by the model's printer in
       minimal and full form, rendered to text (also with random whitespace), lexed and parsed by the
       implementation and compared with the model's desugar; parse(min) == parse(full) is checked on the
       implementation's own results (the property itself);
 (iii) both renderings evaluated through execute() with variables pre-assigned: same outcome.
Plus the position rules (keyword argument, assignment) and a hand-written regression corpus."""
import itertools, json, random, re
import common as C

ID = "C02"
COQ_TARGETS = ["Properties/C02.vo", "GenFacts/ParserFacts.vo", "GenFacts/ParserSrcFacts.vo"]
MODEL_TARGETS = ["Model/Parser.vo", "Model/Printer.vo"]
IMPORTS = "From Ka Require Import Model.Parser Model.Printer.\nOpen Scope string_scope.\n"

# ------------------------------------------------------------------------------------ tokens
CONST = [("=", "KAssign"), (";", "KSemi"), ("(", "KLP"), (")", "KRP"), ("+", "KPlus"), ("-", "KMinus"),
         ("*", "KMul"), ("/", "KDiv"), ("%", "KMod"), ("^", "KExp"), ("±", "KPm"), (",", "KComma"),
         ("!", "KBang"), ("|", "KBar"), ("to", "KTo"), ("==", "KEq"), ("!=", "KNeq"), ("<", "KLt"),
         ("<=", "KLeq"), (">", "KGt"), (">=", "KGeq"), ("{", "KLBrace"), ("}", "KRBrace"), (":", "KColon"),
         ("in", "KIn"), ("..", "KDots"), ("[", "KLBrack"), ("]", "KRBrack")]
CONST_COQ = dict(CONST)
INST = "2020-01-01"
# (key, coq term, tag, metadata) — one representative payload per tag (two identifiers, int / non-int number)
PAYLOAD = [("n", 'KNum (ZLit 2)', "number", dict(value=2)),
           ("x", 'KNum (XLit "2.5")', "number", dict(value=2.5)),
           ("a", 'KVar "a"', "identifier", dict(name="a")),
           ("b", 'KVar "b"', "identifier", dict(name="b")),
           ("s", 'KStr "s"', "string", dict(value="s")),
           ("t", 'KInst "%s"' % INST, "instant", dict(value=INST))]
ALPHA_FULL = [(t, c, t, {}) for t, c in CONST] + PAYLOAD
CORE_KEYS = ["(", ")", "+", "*", "^", "!", ",", ":", "|", "to", "<", ">", "=", "in", "..", "{", "}", ";", "n", "a"]
ALPHA_CORE = [e for e in ALPHA_FULL if e[0] in CORE_KEYS]
ALPHAS = dict(full=ALPHA_FULL, core=ALPHA_CORE)


def coq_alpha(alpha):
    return "[" + "; ".join(e[1] for e in alpha) + "]"


SEQ_DEFS = """
From Coq Require Import Ascii NArith.
Definition hmask : N := (N.shiftl 1 61 - 1)%N.
Fixpoint hash (s : string) (h : N) : N :=
  match s with
  | EmptyString => h
  | String c r => hash r (N.land (N.shiftl h 5 + h + N_of_ascii c)%N hmask)
  end.
Definition show_hash (s : string) : string := show_N (hash s 5381%N).
Fixpoint seqs (al : list tok) (k : nat) : list (list tok) :=
  match k with O => [[]] | S k' => flat_map (fun a => map (cons a) (seqs al k')) al end.
Definition show_seq (ts : list tok) : string :=
  match parse_idx ts with
  | POk t => show_ptree t ++ "@" ++ show_toks (print_full (unparse_prog t)) ++ "@" ++ show_ptree (desugar_prog (unparse_prog t))
  | PErr k => "E" ++ show_nat (List.length ts - k)
  | PFuel => "OutOfFuel"
  end.
Definition block (al : list tok) (lens : list nat) (p : list tok) : string :=
  String.concat "~" (map (fun s => show_parse (p ++ s)) (flat_map (seqs al) lens)).
Definition block_detail (al : list tok) (lens : list nat) (p : list tok) : string :=
  String.concat "~" (map (fun s => show_seq (p ++ s)) (flat_map (seqs al) lens)).
Definition show_case (p : prog) : string :=
  let d := show_ptree (desugar_prog p) in
  show_toks (print_min p) ++ "#" ++ show_toks (print_full p) ++ "#" ++ d ++ "#" ++
  (if wf_prog p then
     (if String.eqb (show_parse (print_min p)) d && String.eqb (show_parse (print_full p)) d then "wf,roundtrip" else "wf,NO-ROUNDTRIP")
   else "not-wf").
"""


# ------------------------------------------------------------------------------------ implementation side
def dump_node(n, gen=False):
    """Structural dump of a ka.parse.ParseNode in the format of Syntax.show_ptree."""
    from ka.eval import EvalModes as M
    meta = dict(n.meta)
    flags = ""
    if gen:
        if not meta.pop("generator", False):
            flags += "!nogen"
        meta.pop("name", None)
    em = n.eval_mode
    if em == M.ARRAY_WITH_CONDITION:
        k = meta.pop("num_assignments", None)
        if n.eval_children:
            flags += "!evalchildren"
    elif not n.eval_children:
        flags += "!noevalchildren"
    if meta:
        flags += "!meta" + ",".join(sorted(meta))
    ch = list(n.children)
    if em == M.LEAF:
        v = n.value
        if isinstance(n.label, str) and n.label.startswith('"') and isinstance(v, str):
            r = "S(" + v + ")"
        elif type(v).__name__ == "Instant":
            r = "T(" + n.label + ")"
        else:
            r = "N(" + n.label + ")"
        if ch:
            flags += "!children"
    elif em == M.VARIABLE:
        r = "V(" + n.label + ")"
        if n.value != n.label or ch:
            flags += "!var"
    elif em == M.FUNCALL:
        pos = [c for c in ch if c.eval_mode != M.KEYWORD_ARG]
        kws = [c for c in ch if c.eval_mode == M.KEYWORD_ARG]
        if ch != pos + kws:
            flags += "!kworder"
        if n.value != n.label:
            flags += "!label"
        for c in kws:
            if len(c.children) != 1:
                flags += "!kwshape"
        r = "C[" + n.label + " " + ",".join(dump_node(c) for c in pos) + " " + \
            ",".join(c.label + ":" + dump_node(c.children[0]) for c in kws) + "]"
    elif em == M.ASSIGNMENT:
        r = "A[" + n.label + " " + dump_node(ch[0]) + "]"
        if len(ch) != 1 or n.value != n.label:
            flags += "!assign"
    elif em == M.STATEMENTS:
        r = "P[" + ";".join(dump_node(c) for c in ch) + "]"
    elif em in (M.QUANTITY, M.CONVERT_UNIT):
        u = n.value
        us = " ".join("%s^%d" % (a, b) for a, b in u.units) + "|" + " ".join("%s^%d" % (a, b) for a, b in u.inverted_units)
        r = ("Q[" if em == M.QUANTITY else "K[") + dump_node(ch[0]) + " " + us + "]"
        if len(ch) != 1:
            flags += "!qty"
    elif em == M.ARRAY:
        r = "L[" + ",".join(dump_node(c) for c in ch) + "]"
    elif em == M.ARRAY_WITH_CONDITION:
        if not isinstance(k, int) or k < 0 or k + 1 > len(ch):
            flags += "!numassign"
            k = 0
        gens = ch[1:1 + k]
        r = "M[" + dump_node(ch[0]) + " " + ",".join(str(c.meta.get("name")) + "~" + dump_node(c, gen=True) for c in gens) + \
            " " + ",".join(dump_node(c) for c in ch[1 + k:]) + "]"
    else:
        r = "?" + str(em)
    return r + flags


def parse_dump_tokens(toks):
    from ka.parse import parse_tokens, ParsingError
    try:
        return dump_node(parse_tokens(toks))
    except ParsingError as e:
        return "E%d" % e.token_index
    except RecursionError:
        return "X:RecursionError"
    except C.CaseTimeout:
        raise
    except BaseException as x:
        return "X:" + type(x).__name__


def mk_tokens(alpha, idxs):
    from ka.tokens import Token
    return [Token(alpha[i][2], k, k + 1, **alpha[i][3]) for k, i in enumerate(idxs)]


def impl_block(job):
    """(i): all sequences prefix ++ suffix, suffix lengths in `lens`, in the model's order."""
    akey, prefix, lens = job
    alpha = ALPHAS[akey]
    n = len(alpha)
    out = []
    for ln in lens:
        for suf in itertools.product(range(n), repeat=ln):
            out.append(parse_dump_tokens(mk_tokens(alpha, tuple(prefix) + suf)))
    return "~".join(out)


def parse_dump_text(text):
    from ka.tokens import tokenise
    try:
        toks = tokenise(text)
    except C.CaseTimeout:
        raise
    except BaseException as x:
        return "LEX:" + type(x).__name__
    return parse_dump_tokens(toks)


PRELUDE = "a = 2; b = 3; c = 5; x = 7; y = 1; k = 4; "


def outcome(text):
    r = C.observe(PRELUDE + text)
    return [r.get("status"), r.get("value"), r.get("raw"), r.get("escaped")]


def impl_tree(case):
    """(ii)/(iii): texts of one surface tree."""
    r = dict(min=parse_dump_text(case["min"]), full=parse_dump_text(case["full"]),
             ws=[parse_dump_text(t) for t in case.get("ws", [])])
    if case.get("eval"):
        r["vmin"] = outcome(case["min"])
        r["vfull"] = outcome(case["full"])
    return r


def impl_texts(texts):
    return [parse_dump_text(t) for t in texts]


def impl_lex(text):
    from ka.tokens import tokenise
    out = []
    for t in tokenise(text):
        out.append((t.tag, t._meta.get("value", t._meta.get("name"))))
    return out


# ------------------------------------------------------------------------------------ rendering token text
def tok_text(t):
    if t.startswith("n:I") or t.startswith("n:O"):
        return t[3:]
    if t.startswith("v:"):
        return t[2:]
    if t.startswith("s:"):
        return '"' + t[2:] + '"'
    if t.startswith("t:"):
        return "#" + t[2:] + "#"
    return t


TIGHT = set("( ) , ; { } [ ]".split())


def render(toks, rng=None, tight=False):
    parts = [tok_text(t) for t in toks.split(" ")] if toks else []
    if rng is None and not tight:
        return " ".join(parts)
    out = []
    for i, p in enumerate(parts):
        if i:
            if tight:
                out.append("" if (p in TIGHT or parts[i - 1] in TIGHT) else " ")
            else:
                out.append("".join(rng.choice(" \t") for _ in range(rng.randint(1, 3))))
        out.append(p)
    s = "".join(out)
    if rng is not None and not tight:
        s = " " * rng.randint(0, 2) + s + "\t" * rng.randint(0, 1) + " " * rng.randint(0, 2)
    return s


def coq_tok_of_lexed(tag, payload):
    if tag in CONST_COQ:
        return CONST_COQ[tag]
    if tag == "number":
        if isinstance(payload, int):
            return "KNum (ZLit %s)" % C.coq_Z(payload)
        return "KNum (XLit %s)" % C.coq_str(str(payload))
    if tag == "identifier":
        return "KVar %s" % C.coq_str(payload)
    if tag == "string":
        return "KStr %s" % C.coq_str(payload)
    if tag == "instant":
        return "KInst %s" % C.coq_str(payload)
    raise ValueError(tag)


# ------------------------------------------------------------------------------------ surface trees (python tuples)
BIN = {"^": "BPow", "*": "BMul", "/": "BDiv", "%": "BMod", "+": "BAdd", "-": "BSub", "±": "BPm"}
CMP = {"==": "CEq", "!=": "CNeq", "<": "CLt", ">": "CGt", "<=": "CLeq", ">=": "CGeq", "=": "CAssign", "in": "CIn"}
USIGS = [([("m", 1)], []), ([("m", 2)], []), ([("s", -1)], []), ([("m", 1), ("s", -2)], []),
         ([("m", 1)], [("s", 1)]), ([("kg", 1), ("m", 2)], [("s", 2), ("K", 1)]), ([("ft", 3)], [])]
NUM2, VARA = ("num", 2), ("var", "a")
LEAVES = [NUM2, ("xnum", "2.5"), VARA, ("var", "b"), ("str", "s"), ("inst", INST)]


def coq_usig(u):
    f = lambda l: "[" + "; ".join("(%s, %s)" % (C.coq_str(n), C.coq_Z(e)) for n, e in l) + "]"
    return "(%s, %s)" % (f(u[0]), f(u[1]))


def coq_sst(t):
    k = t[0]
    S = coq_sst
    if k == "num": return "SNum (ZLit %s)" % C.coq_Z(t[1])
    if k == "xnum": return "SNum (XLit %s)" % C.coq_str(t[1])
    if k == "var": return "SVar %s" % C.coq_str(t[1])
    if k == "str": return "SStr %s" % C.coq_str(t[1])
    if k == "inst": return "SInst %s" % C.coq_str(t[1])
    if k == "paren": return "SParen (%s)" % S(t[1])
    if k == "sign": return "SSign %s (%s)" % ("true" if t[1] else "false", S(t[2]))
    if k == "fact": return "SFact (%s)" % S(t[1])
    if k == "bin": return "SBin %s (%s) (%s)" % (BIN[t[1]], S(t[2]), S(t[3]))
    if k == "range": return "SRange (%s) (%s)" % (S(t[1]), S(t[2]))
    if k == "interval": return "SInterval (%s) (%s)" % (S(t[1]), S(t[2]))
    if k == "call":
        return "SCall %s [%s] [%s]" % (C.coq_str(t[1]), "; ".join(S(x) for x in t[2]),
                                       "; ".join("(%s, %s)" % (C.coq_str(n), S(x)) for n, x in t[3]))
    if k == "arr": return "SArr [%s]" % "; ".join(S(x) for x in t[1])
    if k == "compr":
        return "SCompr (%s) [%s]" % (S(t[1]), "; ".join("(%s, %s)" % ("Some %s" % C.coq_str(n) if n else "None", S(x)) for n, x in t[2]))
    if k == "qty": return "SQty (%s) %s" % (S(t[1]), coq_usig(t[2]))
    if k == "conv": return "SConv (%s) %s" % (S(t[1]), coq_usig(t[2]))
    if k == "cmp1": return "SCmp1 %s (%s) (%s)" % (CMP[t[1]], S(t[2]), S(t[3]))
    if k == "cmp2": return "SCmp2 %s %s (%s) (%s) (%s)" % (CMP[t[1]], CMP[t[2]], S(t[3]), S(t[4]), S(t[5]))
    raise ValueError(k)


def coq_prog(p):
    return "[" + "; ".join("StExpr (%s)" % coq_sst(s[1]) if s[0] == "expr" else "StAssign %s (%s)" % (C.coq_str(s[1]), coq_sst(s[2]))
                           for s in p) + "]"


def children(t):
    k = t[0]
    if k in ("num", "xnum", "var", "str", "inst"): return []
    if k in ("paren", "fact"): return [t[1]]
    if k == "sign": return [t[2]]
    if k == "bin": return [t[2], t[3]]
    if k in ("range", "interval"): return [t[1], t[2]]
    if k == "call": return list(t[2]) + [x for _, x in t[3]]
    if k == "arr": return list(t[1])
    if k == "compr": return [t[1]] + [x for _, x in t[2]]
    if k in ("qty", "conv"): return [t[1]]
    if k == "cmp1": return [t[2], t[3]]
    if k == "cmp2": return [t[3], t[4], t[5]]
    raise ValueError(k)


def head(t):
    k = t[0]
    if k == "bin": return "bin" + t[1]
    if k == "cmp1": return "cmp" + t[1]
    if k == "cmp2": return "cmp" + t[1] + "_" + t[2]
    if k == "sign": return "sign" + ("-" if t[1] else "+")
    if k == "call": return "call%d+%d" % (len(t[2]), len(t[3]))
    if k == "compr": return "compr" + "".join("g" if n else "c" for n, _ in t[2])
    if k in ("qty", "conv"): return k + ("|" if t[2][1] else "")
    return k


def tsize(t):
    return 1 + sum(tsize(c) for c in children(t))


def subtrees(t):
    yield t
    for c in children(t):
        yield from subtrees(c)


def heavy(t):
    """pow/factorial count: evaluation only for cheap trees"""
    return sum(1 for s in subtrees(t) if (s[0] == "bin" and s[1] == "^") or s[0] == "fact")


def constructs(kids1, kids2, kids3, full_ops=True):
    """every construct over the given child pools (kids1: unary positions, kids2: pairs, kids3: triples)"""
    out = []
    for x in kids1:
        out += [("paren", x), ("sign", True, x), ("sign", False, x), ("fact", x)]
        out += [("call", "f", [x], []), ("call", "f", [], [("k", x)]), ("arr", [x])]
        out += [("compr", x, [("y", NUM2)]), ("compr", VARA, [("y", x)]), ("compr", VARA, [("y", NUM2), (None, x)]),
                ("compr", VARA, [(None, x), ("y", NUM2)])]
        for u in USIGS:
            out.append(("qty", x, u))
        for u in USIGS[:3] + USIGS[4:5]:
            out.append(("conv", x, u))
    for x, y in kids2:
        for op in BIN:
            out.append(("bin", op, x, y))
        out += [("range", x, y), ("interval", x, y), ("call", "f", [x, y], []), ("call", "g", [x], [("k", y)]),
                ("arr", [x, y]), ("compr", x, [("y", y)]), ("compr", VARA, [("y", x), ("z", y)]),
                ("compr", VARA, [("y", x), (None, y)]), ("call", "f", [], [("k", x), ("j", y)])]
        for op in CMP:
            out.append(("cmp1", op, x, y))
    for x, y, z in kids3:
        ops = list(CMP) if full_ops else ["<", ">", "==", "=", "in", ">="]
        for o1 in ops:
            for o2 in ops:
                out.append(("cmp2", o1, o2, x, y, z))
        out += [("call", "f", [x, y], [("k", z)]), ("arr", [x, y, z]), ("compr", x, [("y", y), (None, z)])]
    out += [("call", "f", [], []), ("arr", [])]
    return out


def exhaustive(tier):
    d0 = list(LEAVES)
    d1 = constructs(d0, list(itertools.product(d0, repeat=2)),
                    [(x, y, z) for x in (NUM2, VARA) for y in (VARA, ("str", "s")) for z in (NUM2, ("var", "b"))])
    # one representative per construct shape for the next layer
    reps, seen = [], set()
    for t in constructs([VARA], [(VARA, NUM2)], [(VARA, ("var", "b"), NUM2)], full_ops=False):
        h = head(t)
        if h not in seen:
            seen.add(h)
            reps.append(t)
    pool = [NUM2, VARA] + reps
    if tier == "quick":
        pairs = [(x, NUM2) for x in pool] + [(VARA, x) for x in pool] + [(x, x) for x in pool]
        triples = [(x, VARA, NUM2) for x in pool[::2]] + [(VARA, x, NUM2) for x in pool[1::2]] + [(VARA, NUM2, x) for x in pool[::3]]
        d2 = constructs(pool, pairs, triples, full_ops=False)
    else:
        pairs = list(itertools.product(pool, repeat=2))
        triples = [(x, VARA, NUM2) for x in pool] + [(VARA, x, NUM2) for x in pool] + [(VARA, NUM2, x) for x in pool]
        d2 = constructs(pool, pairs, triples, full_ops=True)
    progs = [[("expr", t)] for t in d0 + d1 + d2]
    # statements and assignments
    for t in [NUM2, VARA, ("cmp1", "=", VARA, NUM2), ("cmp1", "==", VARA, NUM2), ("bin", "+", VARA, NUM2),
              ("conv", ("cmp1", "=", VARA, NUM2), USIGS[0]), ("cmp2", "=", "<", VARA, NUM2, NUM2)]:
        progs += [[("assign", "a", t)], [("expr", t), ("expr", t)], [("assign", "b", t), ("expr", t)],
                  [("expr", t), ("assign", "a", t), ("expr", VARA)]]
    progs.append([])
    return progs


FUNS = ["f", "g", "abs", "max", "sin", "sqrt"]
VARS = ["a", "b", "c", "x", "y"]
UNITS = ["m", "s", "kg", "ft", "K"]


def rand_usig(rng):
    def ul():
        return [(rng.choice(UNITS), rng.choice([1, 1, 1, 2, 3, -1, -2, 0])) for _ in range(rng.choice([1, 1, 2, 3]))]
    return (ul(), ul() if rng.random() < 0.35 else [])


def rand_tree(rng, depth):
    if depth <= 0 or rng.random() < 0.12:
        r = rng.random()
        if r < 0.40: return ("num", rng.choice([0, 1, 2, 3, 4, 5, 10]))
        if r < 0.47: return ("xnum", rng.choice(["2.5", "0.25", "1.5"]))
        if r < 0.90: return ("var", rng.choice(VARS))
        if r < 0.95: return ("str", rng.choice(["s", "hello"]))
        return ("inst", rng.choice([INST, "1999-12-31T23:59"]))
    R = lambda: rand_tree(rng, depth - 1)
    r = rng.random()
    if r < 0.36: return ("bin", rng.choice(list(BIN)), R(), R())
    if r < 0.44: return ("sign", rng.random() < 0.7, R())
    if r < 0.50: return ("fact", R())
    if r < 0.55: return ("paren", R())
    if r < 0.60: return ("range", R(), R())
    if r < 0.63: return ("interval", R(), R())
    if r < 0.71:
        na, nk = rng.choice([0, 1, 1, 2, 3]), rng.choice([0, 0, 0, 1, 2])
        return ("call", rng.choice(FUNS), [R() for _ in range(na)], [(rng.choice(["k", "j", "base"]), R()) for _ in range(nk)])
    if r < 0.75: return ("arr", [R() for _ in range(rng.choice([0, 1, 2, 3]))])
    if r < 0.79:
        cl = [((rng.choice(VARS) if rng.random() < 0.6 else None), R()) for _ in range(rng.choice([1, 1, 2, 3]))]
        return ("compr", R(), cl)
    if r < 0.86: return ("qty", R(), rand_usig(rng))
    if r < 0.90: return ("conv", R(), rand_usig(rng))
    if r < 0.96: return ("cmp1", rng.choice(list(CMP)), R(), R())
    return ("cmp2", rng.choice(list(CMP)), rng.choice(list(CMP)), R(), R(), R())


def rand_prog(rng):
    n = rng.choice([1, 1, 1, 1, 1, 2, 3])
    p = []
    for _ in range(n):
        t = rand_tree(rng, rng.choice([2, 3, 4, 5, 6, 7]))
        p.append(("assign", rng.choice(VARS), t) if (n > 1 and rng.random() < 0.4) else ("expr", t))
    return p


def prog_trees(p):
    return [s[1] if s[0] == "expr" else s[2] for s in p]


# hand-written regression corpus: text -> expected dump (written from the property's rule list, not from the model)
def _c(name, *args):
    return "C[%s %s ]" % (name, ",".join(args))


V = lambda x: "V(%s)" % x
N = lambda x: "N(%s)" % x
CORPUS = [
    ("a-b-c", "P[%s]" % _c("-", _c("-", V("a"), V("b")), V("c"))),
    ("a/b*c", "P[%s]" % _c("*", _c("/", V("a"), V("b")), V("c"))),
    ("a^b^c", "P[%s]" % _c("^", _c("^", V("a"), V("b")), V("c"))),
    ("-a!", "P[%s]" % _c("-", _c("!", V("a")))),
    ("-a^b", "P[%s]" % _c("^", _c("-", V("a")), V("b"))),
    ("a b^2|c d", "P[Q[V(a) b^2|c^1 d^1]]"),
    ("a..b+1", "P[%s]" % _c("+", _c("range", V("a"), V("b")), N("1"))),
    ("a<b to u", "P[K[%s u^1|]]" % _c("<", V("a"), V("b"))),
    ("f(x, k: {y : y in 1..3, y<2})", "P[C[f V(x) k:M[V(y) y~%s %s]]]" % (_c("range", N(1), N(3)), _c("<", V("y"), N(2)))),
    ("x = 3; x == 3", "P[A[x N(3)];%s]" % _c("==", V("x"), N(3))),
    ("2^3!*5+1", "P[%s]" % _c("+", _c("*", _c("^", N(2), _c("!", N(3))), N(5)), N(1))),
    ("((2^(3!))*5)+1", "P[%s]" % _c("+", _c("*", _c("^", N(2), _c("!", N(3))), N(5)), N(1))),
    ("-2 m", "P[Q[%s m^1|]]" % _c("-", N(2))),
    ("1..3^2", "P[%s]" % _c("^", _c("range", N(1), N(3)), N(2))),
    ("2 m^2", "P[Q[N(2) m^2|]]"),
    ("a..b..c", "E3"),
    ("1 < 2 < 3 < 4", "E5"),
    ("3 > 2 >= 1", "P[%s]" % _c("<=_<", N(1), N(2), N(3))),
    ("3 > 2 < 5", "P[%s]" % _c(">_<", N(3), N(2), N(5))),
    ("(x = 3)", "P[%s]" % _c("=", V("x"), N(3))),
    ("y; x = 3", "P[V(y);A[x N(3)]]"),
    ("2 + x = 3", "P[%s]" % _c("=", _c("+", N(2), V("x")), N(3))),
    ("f(x, k: v)", "P[C[f V(x) k:V(v)]]"),
    ("f(k: v, x)", "E7"),
    ("f(k: v, j: x)", "P[C[f  k:V(v),j:V(x)]]"),
    ("f((k): v)", "E5"),
    ("a*b+c*d", "P[%s]" % _c("+", _c("*", V("a"), V("b")), _c("*", V("c"), V("d")))),
    ("a+b<c+d", "P[%s]" % _c("<", _c("+", V("a"), V("b")), _c("+", V("c"), V("d")))),
    ("a ± b - c", "P[%s]" % _c("-", _c("±", V("a"), V("b")), V("c"))),
    ("a % b / c", "P[%s]" % _c("/", _c("%", V("a"), V("b")), V("c"))),
    ("2 m..3 m", "P[%s]" % _c("range", "Q[N(2) m^1|]", "Q[N(3) m^1|]")),
    ("- - a", "E1"), ("a!!", "E2"), ('-"s"', "E1"), ('"s"!', "E1"), ("{1,2} m", "E5"), ("[1,2]..3", "E5"),
    ("2 m^2.5", "E3"), ("2 m^-2", "P[Q[N(2) m^-2|]]"),
]


# ------------------------------------------------------------------------------------ python port of Printer.v / desugar
# Every case computed here is re-computed by the Coq model (Printer.v, Syntax.v, Parser.v) and compared by hash
# (show_case in SEQ_DEFS), so the port is validated on every case it is used for, never trusted.
def khash(s):
    h = 5381
    for c in s.encode("utf-8"):
        h = ((h << 5) + h + c) & ((1 << 61) - 1)
    return h


LEVELS = {"num": 0, "xnum": 0, "var": 0, "paren": 0, "call": 0, "fact": 1, "sign": 2, "qty": 3, "range": 4, "str": 5, "inst": 5,
         "arr": 5, "compr": 5, "interval": 5, "cmp1": 9, "cmp2": 9, "conv": 10}
BINLEVEL = {"^": 6, "*": 7, "/": 7, "%": 7, "+": 8, "-": 8, "±": 8}


def level(t):
    return BINLEVEL[t[1]] if t[0] == "bin" else LEVELS[t[0]]


def ends_units(t):
    k = t[0]
    if k == "qty":
        return True
    if k == "range":
        return t[2][0] == "qty"
    if k == "bin" and t[1] == "^":
        b = t[3]
        return b[0] == "qty" or (b[0] == "range" and b[2][0] == "qty")
    return False


def wrap(m, L, powleft, t):
    if m == "full":
        return level(t) != 0
    return level(t) > L or (powleft and ends_units(t))


def parens(b, ts):
    return ["("] + ts + [")"] if b else ts


def pr_units(u):
    out = []
    for n, z in u:
        out.append("v:" + n)
        if z != 1:
            out += ["^", "-", "n:I%d" % -z] if z < 0 else ["^", "n:I%d" % z]
    return out


def pr_usig(u):
    return pr_units(u[0]) + ((["|"] + pr_units(u[1])) if u[1] else [])


def joinl(sep, ls):
    out = []
    for i, l in enumerate(ls):
        if i:
            out.append(sep)
        out += l
    return out


def guard(tag, ts):
    return parens(len(ts) >= 2 and ts[0].startswith("v:") and ts[1] == tag, ts)


def raw(m, t):
    k = t[0]
    op = lambda L, x, pl=False: parens(wrap(m, L, pl, x), raw(m, x))
    if k == "num": return ["n:I%d" % t[1]]
    if k == "xnum": return ["n:O" + t[1]]
    if k == "var": return ["v:" + t[1]]
    if k == "str": return ["s:" + t[1]]
    if k == "inst": return ["t:" + t[1]]
    if k == "paren": return ["("] + raw(m, t[1]) + [")"]
    if k == "sign": return ["-" if t[1] else "+"] + op(1, t[2])
    if k == "fact": return op(0, t[1]) + ["!"]
    if k == "bin":
        L = BINLEVEL[t[1]]
        return op(L, t[2], t[1] == "^") + [t[1]] + op(L - 1, t[3])
    if k == "range": return op(3, t[1]) + [".."] + op(3, t[2])
    if k == "interval": return ["["] + op(10, t[1]) + [","] + op(10, t[2]) + ["]"]
    if k == "call":
        items = [op(10, x) for x in t[2]] + [["v:" + n, ":"] + op(10, x) for n, x in t[3]]
        return ["v:" + t[1], "("] + joinl(",", items) + [")"]
    if k == "arr": return ["{"] + joinl(",", [op(10, x) for x in t[1]]) + ["}"]
    if k == "compr":
        cl = [(["v:" + n, "in"] + op(10, x)) if n else guard("in", op(10, x)) for n, x in t[2]]
        return ["{"] + op(10, t[1]) + [":"] + joinl(",", cl) + ["}"]
    if k == "qty": return op(2, t[1]) + pr_usig(t[2])
    if k == "conv": return op(9, t[1]) + ["to"] + pr_usig(t[2])
    if k == "cmp1": return op(8, t[2]) + [t[1]] + op(8, t[3])
    if k == "cmp2": return op(8, t[3]) + [t[1]] + op(8, t[4]) + [t[2]] + op(8, t[5])
    raise ValueError(k)


def pcall(name, args, kws=()):
    return "C[" + name + " " + ",".join(args) + " " + ",".join(kws) + "]"


def mk_cmp(terms, ops):
    if any(o in (">", ">=") for o in ops) and not any(o in ("<", "<=") for o in ops):
        ops = [{">": "<", ">=": "<="}.get(o, o) for o in ops][::-1]
        terms = terms[::-1]
    return pcall("_".join(ops), terms)


def show_usig(u):
    f = lambda l: " ".join("%s^%d" % (n, z) for n, z in l)
    return f(u[0]) + "|" + f(u[1])


def dsg(t):
    k = t[0]
    if k == "num": return "N(%d)" % t[1]
    if k == "xnum": return "N(" + t[1] + ")"
    if k == "var": return "V(" + t[1] + ")"
    if k == "str": return "S(" + t[1] + ")"
    if k == "inst": return "T(" + t[1] + ")"
    if k == "paren": return dsg(t[1])
    if k == "sign": return pcall("-" if t[1] else "+", [dsg(t[2])])
    if k == "fact": return pcall("!", [dsg(t[1])])
    if k == "bin": return pcall(t[1], [dsg(t[2]), dsg(t[3])])
    if k in ("range", "interval"): return pcall(k, [dsg(t[1]), dsg(t[2])])
    if k == "call": return pcall(t[1], [dsg(x) for x in t[2]], [n + ":" + dsg(x) for n, x in t[3]])
    if k == "arr": return "L[" + ",".join(dsg(x) for x in t[1]) + "]"
    if k == "compr":
        return "M[" + dsg(t[1]) + " " + ",".join(n + "~" + dsg(x) for n, x in t[2] if n) + " " + ",".join(dsg(x) for n, x in t[2] if not n) + "]"
    if k == "qty": return "Q[" + dsg(t[1]) + " " + show_usig(t[2]) + "]"
    if k == "conv": return "K[" + dsg(t[1]) + " " + show_usig(t[2]) + "]"
    if k == "cmp1": return mk_cmp([dsg(t[2]), dsg(t[3])], [t[1]])
    if k == "cmp2": return mk_cmp([dsg(t[3]), dsg(t[4]), dsg(t[5])], [t[1], t[2]])
    raise ValueError(k)


def wf(t):
    if t[0] in ("qty", "conv") and not t[2][0]:
        return False
    if t[0] == "compr" and not t[2]:
        return False
    return all(wf(c) for c in children(t))


def port_case(p):
    """what Printer.v / Syntax.v give for the program p (checked against the Coq model by hash)"""
    def stmt(m, s):
        return guard("=", raw(m, s[1])) if s[0] == "expr" else ["v:" + s[1], "="] + raw(m, s[2])
    mn = " ".join(joinl(";", [stmt("min", s) for s in p]))
    fu = " ".join(joinl(";", [stmt("full", s) for s in p]))
    d = "P[" + ";".join(dsg(s[1]) if s[0] == "expr" else "A[" + s[1] + " " + dsg(s[2]) + "]" for s in p) + "]"
    ok = all(wf(t) for t in prog_trees(p))
    return dict(min=mn, full=fu, desugar=d, wf=ok, line=mn + "#" + fu + "#" + d + "#" + ("wf,roundtrip" if ok else "not-wf"))


# ------------------------------------------------------------------------------------ the check
def impl_block_hash(job):
    r = impl_block(job)
    items = r.split("~")
    return [khash(r), len(items), sum(1 for x in items if x.startswith("P["))]


def seq_defs(akey, lens):
    return SEQ_DEFS + "Definition al : list tok := %s.\nDefinition lens : list nat := [%s].\n" % (
        coq_alpha(ALPHAS[akey]), "; ".join("%d%%nat" % l for l in lens))


def run_sequences(ctx, rep, jobs, stats):
    """jobs: list of (alpha key, prefix index tuple, suffix lengths).  Compares every sequence prefix ++ suffix:
    first by a hash per job (computed by the model inside Coq and by the workers), then in detail where they differ."""
    if not jobs:
        return
    impl = C.run_impl(impl_block_hash, jobs, ctx["rundir"], limit=600.0, chunksize=4)
    groups = {}
    for j, (akey, prefix, lens) in enumerate(jobs):
        groups.setdefault((akey, tuple(lens)), []).append(j)
    differ = []
    for j, im in enumerate(impl):
        if isinstance(im, dict):
            rep.violation(dict(kind="hang", where="parse_tokens"), "parse_tokens did not return on the token sequences with prefix %r" % (jobs[j][1],),
                          dict(kind="seq", alpha=jobs[j][0], idx=list(jobs[j][1])), found_input=False)
        else:
            stats["seq"] += im[1]
            stats["seq_ok"] += im[2]
    if not ctx["model_ok"]:
        return
    for g, ((akey, lens), js) in enumerate(sorted(groups.items())):
        nseq = sum(len(ALPHAS[akey]) ** l for l in lens)
        outs = C.run_model(ctx["rundir"], "seq%d" % g, IMPORTS, "fun p => show_hash (block al lens p)",
                           ["[" + "; ".join(ALPHAS[akey][i][1] for i in jobs[j][1]) + "]" for j in js],
                           shard=max(1, 90000 // nseq), extra_defs=seq_defs(akey, lens), case_type="list tok")
        for j, o in zip(js, outs):
            if not isinstance(impl[j], dict) and str(impl[j][0]) != o:
                differ.append(j)
    stats["seq_blocks_differ"] = len(differ)
    if not differ:
        return
    # detail pass on (at most 40 of) the differing blocks
    differ = differ[:40]
    ims = C.run_impl(impl_block, [jobs[j] for j in differ], ctx["rundir"], limit=600.0, chunksize=1)
    mism = []
    for g, ((akey, lens), js) in enumerate(sorted(groups.items())):
        dj = [j for j in differ if j in set(js)]
        if not dj:
            continue
        outs = C.run_model(ctx["rundir"], "seqd%d" % g, IMPORTS, "block_detail al lens",
                           ["[" + "; ".join(ALPHAS[akey][i][1] for i in jobs[j][1]) + "]" for j in dj],
                           shard=1, extra_defs=seq_defs(akey, lens), case_type="list tok")
        alpha = ALPHAS[akey]
        for j, o in zip(dj, outs):
            mos, iml = o.split("~"), ims[differ.index(j)].split("~")
            k = 0
            for ln in lens:
                for suf in itertools.product(range(len(alpha)), repeat=ln):
                    mo = mos[k].split("@")
                    if mo[0] != iml[k]:
                        mism.append(dict(alpha=akey, idx=list(jobs[j][1]) + list(suf), model=mo[0], impl=iml[k],
                                         full=mo[1] if len(mo) > 1 else None, back=mo[2] if len(mo) > 2 else None))
                    k += 1
    stats["seq_mismatch"] += len(mism)
    if not mism:
        rep.violation(dict(kind="harness", what="hash"), "block hashes differ but no sequence does", dict(kind="none"), found_input=False)
        return
    # oracle for the property: the fully parenthesised text of the model's tree must give that same tree
    mism.sort(key=lambda m: (len(m["idx"]), m["idx"]))
    head_m = mism[:400]
    texts = [render(m["full"]) if m["full"] is not None and m["back"] == m["model"] else None for m in head_m]
    got = C.run_impl(parse_dump_text, [t for t in texts if t is not None], ctx["rundir"], limit=10.0)
    it = iter(got)
    seen = set()
    cls = lambda s: "tree" if s.startswith("P[") else ("error" if s.startswith("E") else s[:12])
    for m, t in zip(head_m, texts):
        alpha = ALPHAS[m["alpha"]]
        keys = [alpha[i][0] for i in m["idx"]]
        g = next(it) if t is not None else None
        if t is not None and g == m["model"] and m["impl"] != g:
            sig = dict(kind="grouping", model=cls(m["model"]), impl=cls(m["impl"]),
                       ops=sorted(set(k for k in keys if k not in ("n", "x", "a", "b", "s", "t", "(", ")"))))
            what = ("C02 fails on the implementation: the tokens %s parse to %s, but the fully parenthesised text %r of the tree the rules give "
                    "(%s) parses to that tree: minimal and full text disagree" % (" ".join(keys), m["impl"], t, m["model"]))
            fi = True
        else:
            sig = dict(kind="parser-correspondence", model=cls(m["model"]), impl=cls(m["impl"]))
            what = "model parser and parse_tokens disagree on tokens %s: model %s, implementation %s" % (" ".join(keys), m["model"], m["impl"])
            fi = False
        key = json.dumps(sig, sort_keys=True)
        if key in seen:
            continue
        seen.add(key)
        rep.violation(sig, what + " (%d disagreeing sequences in the %d blocks examined)" % (len(mism), len(differ)),
                      dict(kind="seq", alpha=m["alpha"], idx=m["idx"], tokens=keys, model=m["model"], impl=m["impl"], full_text=t, full_parse=g),
                      found_input=fi)


def model_lines(ctx, progs, tag, hashed):
    show = "fun p => show_hash (show_case p)" if hashed else "show_case"
    return C.run_model(ctx["rundir"], tag, IMPORTS, show, [coq_prog(p) for p in progs], shard=1500 if hashed else 40,
                       extra_defs=SEQ_DEFS, case_type="prog")


def run_trees(ctx, rep, progs, stats, rng, samples):
    if not progs:
        return
    ports = [port_case(p) for p in progs]
    # the port against the Coq model (printer, desugar, and the model's own round trip), on every case
    if ctx["model_ok"]:
        hs = model_lines(ctx, progs, "tree", True)
        wrong = [i for i, (m, h) in enumerate(zip(ports, hs)) if str(khash(m["line"])) != h]
        stats["model_port_mismatch"] = len(wrong)
        if wrong:
            det = model_lines(ctx, [progs[i] for i in wrong[:40]], "treed", False)
            seen = set()
            for i, d in zip(wrong, det):
                if d.endswith("NO-ROUNDTRIP"):
                    sig = dict(kind="model-roundtrip", node=head(prog_trees(progs[i])[0]) if progs[i] else "empty")
                    what = "the model's parser does not return desugar on its own printer's output: %s" % d
                else:
                    sig = dict(kind="port", node=head(prog_trees(progs[i])[0]) if progs[i] else "empty")
                    what = "harness port of the printer differs from Printer.v: port %s, model %s" % (ports[i]["line"], d)
                if json.dumps(sig, sort_keys=True) not in seen:
                    seen.add(json.dumps(sig, sort_keys=True))
                    rep.violation(sig, what, dict(kind="sst", prog=progs[i]), found_input=False)
    cases = []
    for p, m in zip(progs, ports):
        ev = m["wf"] and sum(heavy(t) for t in prog_trees(p)) <= 2 and len(m["min"]) < 400
        cases.append(dict(min=render(m["min"]), full=render(m["full"]),
                          ws=[render(m["min"], rng), render(m["full"], rng), render(m["min"], tight=True)], eval=ev))
    obs = C.run_impl(impl_tree, cases, ctx["rundir"], limit=20.0)
    bad = []
    for i, (p, m, c, o) in enumerate(zip(progs, ports, cases, obs)):
        stats["trees"] += 1
        if o.get("hung"):
            stats["hung"] += 1
            continue
        if not m["wf"]:
            # outside the printer's domain (empty unit list / clause list)
            stats["not_wf"] += 1
            continue
        if tsize_prog(p) >= 3:
            stats["nontrivial"].add(c["min"])
        for t in prog_trees(p):
            for s in subtrees(t):
                stats["heads"][head(s)] = stats["heads"].get(head(s), 0) + 1
        if len(samples) < 8 and i % 577 == 3:
            samples.append(dict(min=c["min"], full=c["full"], tree=m["desugar"], impl_min=o["min"]))
        exp = m["desugar"]
        if o["min"] != o["full"]:
            bad.append((i, "min-vs-full"))
        elif o["min"] != exp:
            bad.append((i, "tree"))
        elif any(w != exp for w in o["ws"]):
            bad.append((i, "whitespace"))
        elif c["eval"]:
            stats["evaluated"] += 1
            if o["vmin"][0] == 0:
                stats["eval_values"] += 1
            if o["vmin"] != o["vfull"]:
                bad.append((i, "value"))
    stats["tree_mismatch"] += len(bad)
    if not bad:
        return
    # shrink: the smallest failing sub-expression of each failing tree names the root cause
    bad.sort(key=lambda b: (tsize_prog(progs[b[0]]), b[0]))
    subs, owner = [], []
    for i, why in bad[:40]:
        for t in prog_trees(progs[i]):
            for s in subtrees(t):
                subs.append([("expr", s)])
                owner.append(i)
    smods = [port_case(sp) for sp in subs]
    sobs = C.run_impl(impl_tree, [dict(min=render(m["min"]), full=render(m["full"])) for m in smods], ctx["rundir"], limit=20.0)
    best = {}
    for sp, sm, so, i in zip(subs, smods, sobs, owner):
        if so.get("hung") or not sm["wf"]:
            continue
        if so["min"] != so["full"] or so["min"] != sm["desugar"]:
            t = sp[0][1]
            if i not in best or tsize(t) < tsize(best[i][0]):
                best[i] = (t, sm, so)
    seen = set()
    for i, why in bad[:40]:
        if len(seen) >= 8:
            break
        p, m, c, o = progs[i], ports[i], cases[i], obs[i]
        if i in best:
            t, sm, so = best[i]
            node = dict(node=head(t), children=[head(x) for x in children(t) if children(x)])
            ex = dict(min=render(sm["min"]), full=render(sm["full"]), impl_min=so["min"], impl_full=so["full"], expected=sm["desugar"])
        else:
            node = dict(node="program", children=[s[0] for s in p])
            ex = dict(min=c["min"], full=c["full"], impl_min=o["min"], impl_full=o["full"], expected=m["desugar"])
        if why == "min-vs-full" or (i in best and best[i][2]["min"] != best[i][2]["full"]):
            sig = dict(kind="min-vs-full", **node)
            what = ("C02 fails on the implementation: minimal text %r parses to %s but fully parenthesised text %r parses to %s (rules give %s)"
                    % (ex["min"], ex["impl_min"], ex["full"], ex["impl_full"], ex["expected"]))
            fi = True
        elif why == "whitespace":
            sig = dict(kind="whitespace", **node)
            what = "C02 fails on the implementation: whitespace between tokens changes the parse of %r: %r" % (c["min"], list(zip(c["ws"], o["ws"])))
            fi = True
        elif why == "value":
            sig = dict(kind="value", **node)
            what = "C02 fails on the implementation: %r evaluates to %r but %r evaluates to %r" % (c["min"], o["vmin"], c["full"], o["vfull"])
            fi = True
        else:
            sig = dict(kind="tree-correspondence", **node)
            what = ("the implementation parses both %r and %r to %s, the model's desugar gives %s" % (ex["min"], ex["full"], ex["impl_min"], ex["expected"]))
            fi = False
        key = json.dumps(sig, sort_keys=True)
        if key in seen:
            continue
        seen.add(key)
        rep.violation(sig, what + " (%d failing trees in all)" % len(bad), dict(kind="sst", prog=p, **ex), found_input=fi)


def tsize_prog(p):
    return sum(tsize(t) for t in prog_trees(p))


def run_corpus(ctx, rep, stats):
    texts = [t for t, _ in CORPUS]
    got = C.run_impl(parse_dump_text, texts, ctx["rundir"], limit=10.0)
    lexed = C.run_impl(impl_lex, texts, ctx["rundir"], limit=10.0)
    model = None
    if ctx["model_ok"]:
        model = C.run_model(ctx["rundir"], "corpus", IMPORTS, "show_parse",
                            ["[" + "; ".join(coq_tok_of_lexed(a, b) for a, b in l) + "]" for l in lexed], case_type="list tok")
    for k, ((text, exp), g) in enumerate(zip(CORPUS, got)):
        stats["corpus"] += 1
        if g != exp:
            rep.violation(dict(kind="corpus", text=text),
                          "C02 fails on the implementation: %r parses to %s, the documented rules give %s" % (text, g, exp),
                          dict(kind="text", text=text, impl=g, expected=exp), found_input=True)
        if model is not None and model[k] != exp:
            rep.violation(dict(kind="corpus-model", text=text), "the model parses %r to %s, the hand-written expectation is %s" % (text, model[k], exp),
                          dict(kind="text", text=text, model=model[k], expected=exp), found_input=False)


def totuple(x):
    return tuple(totuple(y) for y in x) if isinstance(x, (list, tuple)) else x


def fix_prog(p):
    """JSON round trip: restore tuples where the code expects them (lists stay lists for args/clauses)"""
    def T(t):
        k = t[0]
        if k in ("num", "xnum", "var", "str", "inst"): return (k, t[1])
        if k in ("paren", "fact"): return (k, T(t[1]))
        if k == "sign": return (k, t[1], T(t[2]))
        if k == "bin": return (k, t[1], T(t[2]), T(t[3]))
        if k in ("range", "interval"): return (k, T(t[1]), T(t[2]))
        if k == "call": return (k, t[1], [T(x) for x in t[2]], [(n, T(x)) for n, x in t[3]])
        if k == "arr": return (k, [T(x) for x in t[1]])
        if k == "compr": return (k, T(t[1]), [(n, T(x)) for n, x in t[2]])
        if k in ("qty", "conv"): return (k, T(t[1]), ([tuple(u) for u in t[2][0]], [tuple(u) for u in t[2][1]]))
        if k == "cmp1": return (k, t[1], T(t[2]), T(t[3]))
        if k == "cmp2": return (k, t[1], t[2], T(t[3]), T(t[4]), T(t[5]))
        raise ValueError(k)
    return [("expr", T(s[1])) if s[0] == "expr" else ("assign", s[1], T(s[2])) for s in p]


def value_pairs():
    """minimal text and fully parenthesised text evaluate to the same value, through execute(): where assignment meets
    `to`, with many parenthesised groups in one input (any number, at any depth the recursion allows), with other
    whitespace characters between the tokens"""
    prs = [("x = 5 m to cm; x", "x = ((5 m) to cm); (x)"), ("pi = 2 hours to minutes; pi", "pi = ((2 hours) to minutes); (pi)"),
           ("m = 2 kg to g; m + 1", "m = ((2 kg) to g); ((m) + (1))"), ("x = 1 + 2 m to cm", "(x = ((1) + (2 m))) to cm".replace("(x = ", "x = (").replace(") to cm", " to cm)")),
           ("a = 3 < 4; a", "a = ((3) < (4)); (a)"), ("-3..-1", "(-3)..(-1)"), ("2..+4", "(2)..(+4)"), ("{x*x : x in -2..-1}", "{((x)*(x)) : x in ((-2)..(-1))}"),
           ("1 ± 0.1 * 2", "(1) ± ((0.1) * (2))"), ("12 ± 6 / 3", "(12) ± ((6) / (3))"), ("2 ^ 3 ^ 2", "((2) ^ (3)) ^ (2)"), ("-2 ^ 2", "((-2)) ^ (2)"),
           ("2 * 3 !", "(2) * ((3)!)"), ("1 < 2 == 1", "((1) < (2)) == (1)".replace("((1) < (2)) == (1)", "1 < 2 == 1"))]
    n = 45
    groups = " + ".join("(%d)*(%d)" % (k, k + 1) for k in range(1, n + 1))
    prs.append((groups, str(sum(k * (k + 1) for k in range(1, n + 1)))))
    prs.append(("; ".join(["v1 = (1)"] + ["v%d = (v%d) + 1" % (k, k - 1) for k in range(2, 61)]) + "; v60", "60"))
    prs.append(("sum({%s})" % ", ".join("(%d)" % k for k in range(60)), str(sum(range(60)))))
    prs.append(("(" * 30 + "7" + ")" * 30, "7"))
    # a long run of one operator is still a left fold (floating-point addition shows the grouping)
    chain = "1.0e16" + " + 0.3" * 250
    left = 1.0e16
    for _ in range(250):
        left = left + 0.3
    prs.append(("s = %s; s - 1.0e16" % chain, repr(left - 1.0e16) if (left - 1.0e16) != int(left - 1.0e16) else str(int(left - 1.0e16))))
    prs.append(("1" + " - 1" * 300, str(1 - 300)))
    prs.append(("2" + " / 2" * 60 + " * 2^60", "2"))
    for t in ("3 m s", "{k : k in 1..3}", "250 cm to m", "h = 2; h m", "2 in {1, 2}", "f = 2; f (3)", "1 to m", "sin (1) + cos (1)"):
        for ws in ("\u00a0", "\u202f", "\t", "   ", "\u2009"):
            prs.append((t.replace(" ", ws), t))
    return prs


def run(ctx):
    C.seam_check(ctx["report"], ctx["rundir"], "C02", pairs=value_pairs())
    rep, tier, seed = ctx["report"], ctx["tier"], ctx["seed"]
    rng = random.Random(seed * 7919 + 2)
    stats = dict(seq=0, seq_ok=0, seq_mismatch=0, seq_blocks_differ=0, model_port_mismatch=0, trees=0, hung=0, not_wf=0, nontrivial=set(), heads={}, evaluated=0,
                 eval_values=0, tree_mismatch=0, corpus=0)
    samples = []
    jobs, progs = [], []
    if ctx.get("replay"):
        r = json.load(open(ctx["replay"]))
        for x in [r["replay"]] + r.get("more", []):
            if x.get("kind") == "seq" and "idx" in x:
                jobs.append((x["alpha"], tuple(x["idx"]), [0]))
            elif x.get("kind") == "sst":
                progs.append(fix_prog(x["prog"]))
    else:
        nf, nc = len(ALPHA_FULL), len(ALPHA_CORE)
        # all sequences of length <= 4 over the full alphabet
        jobs.append(("full", (), [0, 1]))
        jobs += [("full", (i, j), [0, 1, 2]) for i in range(nf) for j in range(nf)]
        if tier != "quick":
            # length 5 over the core alphabet
            jobs += [("core", (i, j), [3]) for i in range(nc) for j in range(nc)]
        progs = exhaustive(tier)
        n_rand = 3000 if tier == "quick" else 100000
        seen = set()
        while n_rand > 0:
            p = rand_prog(rng)
            if tsize_prog(p) > 60:
                continue
            key = repr(p)
            if key in seen:
                continue
            seen.add(key)
            progs.append(p)
            n_rand -= 1
    run_sequences(ctx, rep, jobs, stats)
    run_trees(ctx, rep, progs, stats, rng, samples)
    if not ctx.get("replay"):
        run_corpus(ctx, rep, stats)
    nontriv = len(stats.pop("nontrivial"))
    heads = stats.pop("heads")
    rep.coverage.update(dict(
        evaluations=stats["seq"] + stats["trees"] * 5 + stats["corpus"], distinct_nontrivial=nontriv + stats["seq_ok"],
        rule=("(i) every token-tag sequence of length <= 4 over all %d tags/payload representatives%s through parse_tokens and the model parser "
              "(tree dump or error index compared; %d sequences, %d of them parse); (ii) surface trees: exhaustive depth <= 1 over 6 leaves, "
              "depth 2 over one representative per construct shape, plus seeded random programs to depth 7, each printed minimal / full / "
              "3 whitespace layouts = 5 parses per tree; (iii) cheap trees evaluated in both forms. distinct_nontrivial = parsing sequences + "
              "distinct minimal texts of trees with >= 3 nodes")
             % (len(ALPHA_FULL), "" if tier == "quick" else " and length 5 over a %d-tag core" % len(ALPHA_CORE), stats["seq"], stats["seq_ok"]),
        exhaustive=False, samples=samples, construct_histogram=heads, traces_validated_against_impl=stats["seq"] + stats["trees"],
        **stats))
    rep.assumptions += [
        "token payloads are opaque to the parser (one representative per tag in (i)); instants are valid ISO dates (an invalid one makes parse_instant raise KaRuntimeError, outside C02)",
        "the lexer (tokenise) is C11's subject: (ii) uses it as is, with identifiers that are not keywords and non-negative literals",
        "evaluation is a function of the parse tree (C02_same_value is a corollary of the tree equality); (iii) samples it on cheap trees",
    ]
