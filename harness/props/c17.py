"""C17 — Instant arithmetic obeys calendar laws.
Theorems: coq/Properties/C17.v (all dates of all years, all spans, all pairs; by proof).
Tie: Ka expressions on instants are run through execute()/the raw stages of the implementation
and the same operations through Model/Instant.v inside the Coq VM (one model case per instant,
many operations), compared on ISO text / exact microsecond span.  A third, separately written
Python calendar (cumulative-month table, no datetime) is the oracle that decides who is wrong when
the two disagree.  The property's own relations ((I+q)-I, (I-q)+q, I+n, antisymmetry, comparisons
vs the sign of I-J, floor <= I < ceil, getters vs the text) are also evaluated directly on the
implementation, independent of the model."""
import random, json, re
from fractions import Fraction
import common as C

ID = "C17"
COQ_TARGETS = ["Properties/C17.vo", "GenFacts/InstantSrcFacts.vo"]
MODEL_TARGETS = ["Model/Instant.vo"]
IMPORTS = ("From Ka Require Import Model.Instant.\nOpen Scope string_scope.\nOpen Scope Z_scope.\n")
TRUSTED_EXTRA = ["CPython's datetime/timedelta (C module) — external; tied to Model/Calendar.v + Model/Instant.v "
                 "by the C17 correspondence only"]

YEARS = [1999, 2000, 2001, 2023, 2024, 2025, 1, 9999]
TIMES = ["00:00:00", "00:00:00.000001", "12:34:56.5", "23:59:59.999999"]
UNITS = ["s", "ms", "min", "h", "d", "week"]
UNIT_S = {"s": 1, "ms": Fraction(1, 1000), "min": 60, "h": 3600, "d": 86400, "week": 604800}
NON_TIME = ["1 m", "2 kg", "1 s^2", "1 Hz", "5 K", "3 N", "2 A", "1 mol", "4 m^2", "1 J"]
CMPS = ["==", "!=", "<", "<=", ">", ">="]
CMP_COQ = {"==": "CEq", "!=": "CNe", "<": "CLt", "<=": "CLe", ">": "CGt", ">=": "CGe"}
GETTERS = ["year", "month", "day", "hour", "minute", "second"]
GET_COQ = {"year": "OYear", "month": "OMonth", "day": "ODay", "hour": "OHour", "minute": "OMinute", "second": "OSecond"}

US_DAY = 86400 * 10 ** 6
MAX_US = 3652059 * US_DAY
TD_MAX_DAYS = 999999999

# regression inputs, run first on every tier: (expression, expected raw observable or None, must be diagnosed error)
REGRESSION = [
    ("ceil(#2024-01-31#)", "T:2024-02-01T00:00:00", None),
    ("#2024-01-01# + 1500 ms", "T:2024-01-01T00:00:01.500000", None),
    ("#2024-01-01# + (1/3) s", "T:2024-01-01T00:00:00.333333", None),
    ("#2024-01-01T10:00:00+02:00# - #2024-01-01T10:00:00#", None, "time zone"),
    ("ceil(#9999-12-31#)", None, "Overflow"),
]
# time-zone aware literals are outside the modelled forms: they must only never escape
AWARE = [
    "#2024-01-01T10:00:00+02:00# + 1 h", "#2024-01-01T10:00:00+02:00# - 1500 ms", "floor(#2024-01-01T10:00:00Z#)",
    "ceil(#2024-12-31T23:00:00-05:00#)", "year(#2024-01-01T10:00:00+02:00#)", "#2024-01-01T10:00:00+02:00# - #2024-01-01T10:00:00Z#",
    "#2024-01-01T10:00:00+02:00# < #2024-01-01T10:00:00Z#", "#2024-01-01T10:00:00+02:00# == #2024-01-01T10:00:00#",
    "#2024-01-01T10:00:00+02:00# != #2024-01-01T10:00:00#", "#2024-01-01T10:00:00+02:00# < #2024-01-01T10:00:00#",
    "#2024-01-01T10:00:00+02:00# <= #2024-01-01T10:00:00#", "#2024-01-01T10:00:00+02:00# > #2024-01-01T10:00:00#",
    "#2024-01-01T10:00:00+02:00# >= #2024-01-01T10:00:00#", "#2024-01-01T10:00:00# - #2024-01-01T10:00:00+02:00#",
    "#2024-01-01T10:00:00+02:00# + 3", "ceil(#9999-12-31T23:00:00+00:00#)", "#0001-01-01T00:00:00+14:00# - 1",
    "#9999-12-31T23:59:59-12:00# - #0001-01-01T00:00:00+12:00#",
]
INVALID_LITERALS = ["2023-02-29", "1900-02-29", "2024-02-30", "2024-13-01", "2024-00-10", "2024-04-31", "2024-01-00",
                    "0000-01-01", "2024-01-01T24:00", "2024-01-01T12:60", "2024-01-01T12:00:60", "2024-00", "2024-13",
                    "2100-02-29", "2024-06-31T00:00:00", "9999-11-31"]
VALID_EDGE_LITERALS = ["2000-02-29", "2400-02-29", "0004-02-29", "0001", "9999", "0001-01", "9999-12", "9999-12-31T23:59:59.999999",
                       "0001-01-01T00:00:00.000001", "2024-02-29T23:59", "2024-12-31T23:59:59.9", "2024-12-31T23:59:59.99",
                       "2024-12-31T23:59:59.999", "2024-12-31T23:59:59.9999", "2024-12-31T23:59:59.99999", "1600-02-29", "1700-03-01"]


# --------------------------------------------------------------------------- independent calendar oracle
# (cumulative month table and a search for the year: deliberately not the era algorithm of the model,
#  and not datetime)
CUM = [0, 31, 59, 90, 120, 151, 181, 212, 243, 273, 304, 334]


def leap(y):
    return y % 4 == 0 and (y % 100 != 0 or y % 400 == 0)


def dim(y, m):
    return 29 if (m == 2 and leap(y)) else [31, 28, 31, 30, 31, 30, 31, 31, 30, 31, 30, 31][m - 1]


def days_before_year(y):
    y -= 1
    return 365 * y + y // 4 - y // 100 + y // 400


def o_days(y, m, d):
    return days_before_year(y) + CUM[m - 1] + (1 if (m > 2 and leap(y)) else 0) + d - 1


def o_civil(n):
    lo, hi = 1, 10000            # largest y with days_before_year(y) <= n
    while hi - lo > 1:
        mid = (lo + hi) // 2
        if days_before_year(mid) <= n:
            lo = mid
        else:
            hi = mid
    y = lo
    r = n - days_before_year(y)
    m = 12
    while CUM[m - 1] + (1 if (m > 2 and leap(y)) else 0) > r:
        m -= 1
    return y, m, r - (CUM[m - 1] + (1 if (m > 2 and leap(y)) else 0)) + 1


ISO_RE = re.compile(r"^(\d{4})(?:-(\d{2})(?:-(\d{2})(?:T(\d{2}):(\d{2})(?::(\d{2})(?:\.(\d{1,6}))?)?)?)?)?$", re.A)


def o_parse(text):
    """microseconds | 'E:KaRuntimeError' | None (not a modelled spelling)"""
    m = ISO_RE.match(text)
    if not m or "\n" in text:
        return None
    y, mo, d, h, mi, s, f = m.groups()
    y = int(y); mo = int(mo or 1); d = int(d or 1); h = int(h or 0); mi = int(mi or 0); s = int(s or 0)
    us = int((f or "0").ljust(6, "0"))
    if not (1 <= y <= 9999 and 1 <= mo <= 12 and 1 <= d <= dim(y, mo) and h < 24 and mi < 60 and s < 60):
        return "E:KaRuntimeError"
    return o_days(y, mo, d) * US_DAY + ((h * 60 + mi) * 60 + s) * 10 ** 6 + us


def o_fields(i):
    n, t = divmod(i, US_DAY)
    y, m, d = o_civil(n)
    s, us = divmod(t, 10 ** 6)
    return y, m, d, s // 3600, s // 60 % 60, s % 60, us


def o_show(i):
    y, m, d, h, mi, s, us = o_fields(i)
    return "T:%04d-%02d-%02dT%02d:%02d:%02d" % (y, m, d, h, mi, s) + (".%06d" % us if us else "")


def o_td(us):
    return -TD_MAX_DAYS <= us // US_DAY <= TD_MAX_DAYS


def o_add(i, us):
    r = i + us
    return o_show(r) if 0 <= r < MAX_US else "E:OverflowError"


def q_info(enc):
    """enc_value of a quantity -> (kind, Fraction mag, dims tuple of Fraction) or None"""
    if not enc or not enc.startswith("Q:"):
        return None
    body, dims = enc[2:].rsplit("|", 1)
    try:
        dv = tuple(Fraction(x) for x in dims.split(","))
    except ValueError:
        return None
    if body.startswith("I:"):
        return ("int", Fraction(int(body[2:])), dv)
    if body.startswith("F:"):
        return ("frac", Fraction(body[2:]), dv)
    if body.startswith("X:"):
        x = float.fromhex(body[2:])
        if x != x or x in (float("inf"), float("-inf")):
            return None
        return ("float", Fraction(x), dv)
    return None


def is_seconds(dv):
    return len(dv) == len(SECONDS_DIMS) and all(a == b for a, b in zip(dv, SECONDS_DIMS))


SECONDS_DIMS = None  # read from the implementation (observing "1 s") at the start of run()


def o_span_us(kind, mag):
    """timedelta(seconds=mag) in microseconds, or None for OverflowError"""
    if kind == "frac":
        if not o_td(mag.numerator * 10 ** 6):
            return None
        return round(mag * 10 ** 6)            # Fraction.__round__ is half-even
    us = round(mag * 10 ** 6)
    return us if o_td(us) else None


def near_tie(mag):
    x = mag * 10 ** 6
    return abs((x - (x.numerator // x.denominator)) - Fraction(1, 2)) < Fraction(1, 10 ** 8)


def oracle(i, op, qobs):
    k = op["k"]
    if k == "show":
        return o_show(i)
    if k == "floor":
        return o_show(i - i % US_DAY)
    if k == "ceil":
        return o_add(i - i % US_DAY, US_DAY)
    if k == "get":
        y, m, d, h, mi, s, us = o_fields(i)
        return "I:%d" % dict(year=y, month=m, day=d, hour=h, minute=mi, second=s)[op["f"]]
    if k in ("addq", "subq", "qadd"):
        qi = q_info(qobs.get(op["q"]))
        if qi is None:
            return None
        kind, mag, dv = qi
        if not is_seconds(dv):
            return "E:KaRuntimeError"
        us = o_span_us(kind, mag)
        if us is None:
            return "E:OverflowError"
        return o_add(i, -us if k == "subq" else us)
    if k in ("addi", "subi", "iadd"):
        us = op["n"] * US_DAY
        if not o_td(us):
            return "E:OverflowError"
        return o_add(i, -us if k == "subi" else us)
    j = o_parse(op["j"])
    if j is None:
        return None
    if isinstance(j, str):
        return j
    if k == "diff":
        return "U:%d" % (i - j)
    c = op["c"]
    return "I:%d" % {"==": i == j, "!=": i != j, "<": i < j, "<=": i <= j, ">": i > j, ">=": i >= j}[c]


# --------------------------------------------------------------------------- expressions
def lit(text):
    return "#%s#" % text


def num_text(n):
    return str(n) if n >= 0 else "(-%d)" % -n


def op_expr(itext, op):
    I = lit(itext)
    k = op["k"]
    if k == "show": return I
    if k == "floor": return "floor(%s)" % I
    if k == "ceil": return "ceil(%s)" % I
    if k == "get": return "%s(%s)" % (op["f"], I)
    if k == "addq": return "%s + %s" % (I, op["q"])
    if k == "subq": return "%s - %s" % (I, op["q"])
    if k == "qadd": return "%s + %s" % (op["q"], I)
    if k == "addi": return "%s + %s" % (I, num_text(op["n"]))
    if k == "subi": return "%s - %s" % (I, num_text(op["n"]))
    if k == "iadd": return "%s + %s" % (num_text(op["n"]), I)
    if k == "diff": return "%s - %s" % (I, lit(op["j"]))
    if k == "cmp": return "%s %s %s" % (I, op["c"], lit(op["j"]))
    raise ValueError(k)


def coq_q(n):
    if n.denominator == 1:
        return "(%d # 1)" % n.numerator if n >= 0 else "((%d) # 1)" % n.numerator
    return ("(%d # %d)" if n >= 0 else "((%d) # %d)") % (n.numerator, n.denominator)


def coq_num(kind, mag):
    if kind == "int":
        return "NInt %s" % C.coq_Z(mag.numerator)
    if kind == "frac":
        return "NFrac %s" % coq_q(mag)
    return "NFlt %s" % coq_q(mag)


def coq_op(op, qobs, dimnames):
    k = op["k"]
    if k == "show": return "OShow"
    if k == "floor": return "OFloor"
    if k == "ceil": return "OCeil"
    if k == "get": return GET_COQ[op["f"]]
    if k in ("addq", "subq", "qadd"):
        qi = q_info(qobs.get(op["q"]))
        if qi is None:
            return None
        kind, mag, dv = qi
        if mag.numerator.bit_length() > 700 or mag.denominator.bit_length() > 700:
            return None
        name = dimnames.setdefault(dv, "dv%d" % len(dimnames))
        return "%s {| q_mag := %s; q_dims := %s |}" % ("OSubQ" if k == "subq" else "OAddQ", coq_num(kind, mag), name)
    if k in ("addi", "iadd"): return "OAddInt %s" % C.coq_Z(op["n"])
    if k == "subi": return "OSubInt %s" % C.coq_Z(op["n"])
    if k == "diff": return "ODiff %s" % C.coq_str(op["j"])
    if k == "cmp": return "OCmp %s %s" % (CMP_COQ[op["c"]], C.coq_str(op["j"]))
    raise ValueError(k)


# --------------------------------------------------------------------------- generation
def all_days():
    out = []
    for y in YEARS:
        for m in range(1, 13):
            for d in range(1, dim(y, m) + 1):
                out.append((y, m, d))
    return out


def spell(y, m, d, t, variant):
    """one of the modelled spellings of the same instant"""
    date = "%04d-%02d-%02d" % (y, m, d)
    if t == "00:00:00":
        forms = [date, date + "T00:00", date + "T00:00:00"]
        if d == 1:
            forms.append("%04d-%02d" % (y, m))
            if m == 1:
                forms.append("%04d" % y)
        return forms[variant % len(forms)]
    return date + "T" + t


def rand_mag(rng, unit, kind, idx):
    if kind == "int":
        pools = {"s": [1, 59, 60, 86399, 86400, 1500, 31536000], "ms": [1, 999, 1500, 86400000], "min": [1, 59, 1440],
                 "h": [1, 23, 24, 25], "d": [1, 28, 31, 365, 366], "week": [1, 2, 52]}
        hi = {"s": 10 ** 6, "ms": 10 ** 7, "min": 10 ** 4, "h": 1000, "d": 2000, "week": 300}[unit]
        p = pools[unit] + [rng.randrange(1, hi)] * 2
        return str(rng.choice(p))
    if kind == "frac":
        p = ["(1/3)", "(2/7)", "(5/2)", "(1500/7)", "(1/1000)", "(%d/%d)" % (rng.randrange(1, 10 ** 4), rng.choice([3, 6, 7, 9, 11, 13, 64, 997]))]
        if unit == "s":
            p += ["(%d/2000000)" % rng.choice([1, 3, 5, 7, 2000001, 2000003])] * 2      # exact half-microsecond ties
        if unit == "ms":
            p += ["(%d/2000)" % rng.choice([1, 3, 5, 2001, 2003])] * 2
        return rng.choice(p)
    p = ["0.1", "2.5", "1.37", "0.25", "1234.5678", "0.3333333", "%.*f" % (rng.randrange(1, 8), rng.uniform(0, 1000))]
    if unit == "s":
        p += ["0.0000015", "0.0000004", "0.0000026"]
    return rng.choice(p)


def make_case(idx, day, t, tier, rng, pool):
    y, m, d = day
    itext = spell(y, m, d, t, idx)
    ops = [dict(k="show"), dict(k="floor"), dict(k="ceil")] + [dict(k="get", f=f) for f in GETTERS]
    combos = [(u, kd, sg) for u in UNITS for kd in ("int", "frac", "float") for sg in ("addq", "subq")]
    if tier == "quick":
        combos = [c for n, c in enumerate(combos) if (n + idx) % 3 == 0]
    rels = []
    for n, (u, kd, sg) in enumerate(combos):
        q = "%s %s" % (rand_mag(rng, u, kd, idx), u)
        if rng.random() < 0.08:
            q = "-" + q
        ops.append(dict(k=sg, q=q, unit=u, mk=kd))
        if (n + idx) % 3 == 0:
            I = lit(itext)
            rels.append(dict(r="rt_add", q=q, e="(%s + %s) - %s" % (I, q, I), guard="%s + %s" % (I, q)))
            rels.append(dict(r="rt_sub", q=q, e="((%s - %s) + %s) == %s" % (I, q, q, I), guard="%s - %s" % (I, q)))
    q = "%s %s" % (rand_mag(rng, rng.choice(UNITS), rng.choice(["int", "frac", "float"]), idx), rng.choice(UNITS))
    ops.append(dict(k="qadd", q=q))
    ops.append(dict(k=rng.choice(["addq", "subq"]), q=NON_TIME[idx % len(NON_TIME)], nontime=True))
    if idx % 40 == 0:      # spans that leave years 1..9999 or the timedelta range
        for q in ["4000000 d", "(10^30/7) s", "315537897600 s", "0.5e15 s", "1e11 d"]:
            ops.append(dict(k=rng.choice(["addq", "subq"]), q=q))
        for n in [4000000, 10 ** 9, 10 ** 10, 10 ** 30, -10 ** 9]:
            ops.append(dict(k=rng.choice(["addi", "subi"]), n=n))
    days = [rng.choice([0, 1, 28, 29, 30, 31, 365, 366, 1461, 36524, 146097]), rng.randrange(-5000, 5000), rng.choice([-1, -31, -366, 7])]
    if tier == "quick":
        days = days[:2]
    for n in days:
        ops.append(dict(k="addi", n=n))
        ops.append(dict(k="subi", n=n))
        I = lit(itext)
        rels.append(dict(r="days", n=n, e="(%s + %s) == (%s + %d s)" % (I, num_text(n), I, n * 86400), guard="%s + %s" % (I, num_text(n))))
    ops.append(dict(k="iadd", n=days[0]))
    # other instants
    js = [itext, pool[rng.randrange(len(pool))], rng.choice(["0001-01-01", "9999-12-31T23:59:59.999999", "1970-01-01", "2024-02-29T12:00"])]
    y2, m2, d2 = o_civil(min(3652058, o_days(y, m, d) + 1))
    js.append("%04d-%02d-%02dT%s" % (y2, m2, d2, rng.choice(TIMES)))
    if tier == "quick":
        js = [js[idx % 2], js[2 + idx % 2]]
    for n, j in enumerate(js):
        ops.append(dict(k="diff", j=j))
        rels.append(dict(r="anti", j=j, e="%s - %s" % (lit(j), lit(itext))))
        for c in (CMPS if n == 0 or tier != "quick" else [CMPS[(idx + n) % 6], CMPS[(idx + n + 3) % 6]]):
            ops.append(dict(k="cmp", c=c, j=j))
    I = lit(itext)
    rels.append(dict(r="fl_le", e="floor(%s) <= %s" % (I, I)))
    rels.append(dict(r="lt_ce", e="%s < ceil(%s)" % (I, I)))
    rels.append(dict(r="ce_fl", e="ceil(%s) - floor(%s)" % (I, I)))
    if re.fullmatch(r"\d{4}", itext):
        rels.append(dict(r="short", e="%s == #%s-01-01#" % (I, itext)))
    if re.fullmatch(r"\d{4}-\d{2}", itext):
        rels.append(dict(r="short", e="%s == #%s-01#" % (I, itext)))
    return dict(i=itext, ops=ops, rels=rels)


# --------------------------------------------------------------------------- implementation side
_QCACHE = {}


def _trim(o):
    if o.get("hung"):
        return o
    return dict(status=o.get("status"), raw=o.get("raw"), value=o.get("value"), escaped=o.get("escaped"),
                out=(o.get("out") or "")[:80], err=(o.get("err") or "")[:120])


def impl_case(case):
    """worker: evaluate every expression of one case on the implementation"""
    res = dict(ops=[], rels=[], q={})
    for op in case["ops"]:
        res["ops"].append(_trim(C.observe(op_expr(case["i"], op))))
        q = op.get("q")
        if q is not None and q not in res["q"]:
            if q not in _QCACHE:
                _QCACHE[q] = C.observe(q).get("raw")
            res["q"][q] = _QCACHE[q]
    for rel in case["rels"]:
        q = rel.get("q")
        if q is not None and q not in res["q"]:
            if q not in _QCACHE:
                _QCACHE[q] = C.observe(q).get("raw")
            res["q"][q] = _QCACHE[q]
        res["rels"].append(_trim(C.observe(rel["e"])))
    return res


def impl_plain(text):
    return C.observe(text)


def diagnosed(o):
    ok, _ = C.well_formed_outcome(o) if "out" in o and "err" in o and not o.get("hung") else (False, "")
    return ok and o.get("status") == 1


def span_of(raw):
    """impl observable of I - J -> (float magnitude, dims) or None"""
    qi = q_info(raw)
    if qi is None:
        return None
    return qi


def span_matches(raw, us):
    """the Quantity returned for a span of `us` microseconds must carry the double nearest to us/10^6
    (timedelta.total_seconds()), in seconds^1"""
    qi = q_info(raw)
    if qi is None:
        return False
    kind, mag, dv = qi
    if not is_seconds(dv) or kind == "frac":
        return False
    return float(Fraction(us, 10 ** 6)) == float(mag)


# --------------------------------------------------------------------------- run
def run(ctx):
    C.config_matrix(ctx["report"], ctx["rundir"], "C17", ["start = #2024-01-01#; #2024-12-25# - start", "d = 1 d; #2024-03-30T12:00:00# + d - #2024-03-30T12:00:00#",
                    "#2024-04-01# - #2024-03-30#", "ceil(#2024-03-31T12:00#) - floor(#2024-03-31T12:00#)", "#2024-11-04# - #2024-11-02#", "(#2024-10-27T12:00# + 1) - #2024-10-27T12:00#",
                    "#2024-03-10T01:30# + 3600 s", "x = #2024#; #2025# > x; #2025# - x", "#2024-02-29# + 1", "ceil(#2024-02-29T10:00#) - floor(#2024-02-29T10:00#)", "#2024-02-29T10:00:00.5# - #2024-02-29T10:00:00#", "#2024-02-29T10:00:00.5# > #2024-02-29T10:00:00.25#", "(#2024-01-01# + (-3/2) s) - #2024-01-01#", "floor(#2024-01-01T23:00:00+00:00#); floor(#2024-01-02T01:00:00+02:00#)", "year(#2024-10#)", "#2024-01-01# + 5 Hz"])
    # --- coordinator: an instant held in a variable is unchanged by floor, ceil and arithmetic on it
    _items = []
    for _d in ("#2024-02-29#", "#2023-12-31#", "#2024-01-31T00:00:00#", "#2024-03-10T12:00#"):
        _items += [(["d = %s" % _d, "c = ceil(d)", "d == %s" % _d], "I:1", "ceil(d) leaves d unchanged"),
                   (["d = %s" % _d, "d < ceil(d)"], "I:1", "d < ceil(d) through a variable"),
                   (["d = %s" % _d, "(ceil(d) - floor(d)) to d"], "I:1", "ceil(d) - floor(d) is one day through a variable"),
                   (["d = %s" % _d, "f = floor(d)", "g = d + 1", "h = d - 3 h", "d == %s" % _d], "I:1", "floor/+/- leave d unchanged")]
    # --- instants written with a UTC offset are instants too: the same relations, within one offset and across offsets
    _aw = ["2024-01-01T10:00:00+02:00", "2024-02-29T23:59:59.999999-05:00", "2023-12-31T00:00:00+14:00", "2024-03-31T00:30:00Z",
           "1999-12-31T23:00:00-12:00", "2024-01-31T12:00:00+05:30", "0001-01-03T00:00:00+00:00", "9999-12-30T23:59:59+01:00",
           "2023-02-28T00:00:00-00:30", "2024-12-31T23:59:59.000001+09:00"]
    for _a in _aw:
        _items += [(["I = #%s#" % _a, "floor(I) <= I"], "I:1", "floor(I) <= I for an instant with an offset"),
                   (["I = #%s#" % _a, "I < ceil(I)"], "I:1", "I < ceil(I) for an instant with an offset"),
                   (["I = #%s#" % _a, "(ceil(I) - floor(I)) to d"], "I:1", "ceil(I) - floor(I) is one day for an instant with an offset"),
                   (["I = #%s#" % _a, "hour(floor(I)) + minute(floor(I)) + second(floor(I)) + hour(ceil(I))"], "I:0", "floor and ceil are at midnight"),
                   (["I = #%s#" % _a, "day(floor(I)) == day(I)"], "I:1", "floor keeps the calendar day of the written date"),
                   (["I = #%s#" % _a, "round(((I + 90 min) - I) to s) == 5400"], "I:1", "(I+q)-I = q with an offset"),
                   (["I = #%s#" % _a, "((I - 36 h) + 36 h) == I"], "I:1", "(I-q)+q = I with an offset"),
                   (["I = #%s#" % _a, "((I + 1) - I) to d"], "I:1", "I+1 is one day later with an offset")]
    for _a, _b in zip(_aw, _aw[1:] + _aw[:1]):
        _items += [(["I = #%s#" % _a, "J = #%s#" % _b, "(I - J) == (0 s) - (J - I)"], "I:1", "I-J = -(J-I) across offsets"),
                   (["I = #%s#" % _a, "J = #%s#" % _b, "(I < J) + (I == J) + (I > J)"], "I:1", "exactly one of <, ==, > across offsets"),
                   (["I = #%s#" % _a, "J = #%s#" % _b, "(I < J) == ((I - J) < (0 s))"], "I:1", "< agrees with the sign of I-J across offsets"),
                   (["I = #%s#" % _a, "J = #%s#" % _b, "(I >= J) == ((I - J) >= (0 s))"], "I:1", ">= agrees with the sign of I-J across offsets"),
                   (["I = #%s#" % _a, "J = #%s#" % _b, "(I != J) == (1 - (I == J))"], "I:1", "!= is the negation of == across offsets")]
    # --- instants inside aggregates and generators
    _items += [(["max({#2024-03-01#, #2024-01-01#, #2024-02-01#}) == #2024-03-01#"], "I:1", "max of instants is the latest"),
               (["min({#2024-03-01#, #2024-01-01#, #2024-02-01#}) == #2024-01-01#"], "I:1", "min of instants is the earliest"),
               (["zm = max({#2024-01-05#, #2024-03-01#, #2024-01-01#, #2024-02-01#})", "(#2024-03-01# <= zm) + (#2024-02-01# <= zm) + (#2024-01-05# <= zm)"], "I:3", "every element is <= the max"),
               (["d = #2024-02-27#", "{day(t) : t in {d, d+1, d+2, d+3}}"], "A:[I:27;I:28;I:29;I:1]", "I+n through a generator"),
               (["d = #2024-02-27#", "{day(d) : d in {d, d+1, d+2, d+3}}"], "A:[I:27;I:28;I:29;I:1]", "I+n through a generator that reuses the variable's name"),
               (["{(#2024-01-31# + k) - #2024-01-31# : k in 0..3}"], lambda o: o.get("status") == 0 and (o.get("out") or "").count("86400") >= 1, "I+k days inside a comprehension body"),
               (["{x km to m : x in 1..3}"], "A:[I:1000;I:2000;I:3000]", "a quantity node evaluated per element follows the element"),
               (["zs = #2024-01-01T00:00:00#", "zq = #2024-01-02T00:00:00.000001# - zs", "(zs + zq) == #2024-01-02T00:00:00.000001#"], "I:1", "(I+q) with q = J-I of a day and a microsecond"),
               (["#2024-01-01# + 86400.000001 s == #2024-01-02T00:00:00.000001#"], "I:1", "a float span of a day and a microsecond")]
    _items += [(["floor(#2024-01-01T23:00:00+00:00#)", "floor(#2024-01-02T01:00:00+02:00#) == #2024-01-02T00:00:00+02:00#"], "I:1", "floor of the same moment written with another offset"),
               (["ceil(#2024-01-01T23:00:00+00:00#)", "zi = #2024-01-02T01:00:00+02:00#", "(ceil(zi) - floor(zi)) to d"], "I:1", "ceil - floor is one day for the same moment written with another offset"),
               (["(#2024-01-01# + -1000000000000001e-15 s) - #2024-01-01#"], (lambda o: o.get("status") == 1 or ("-1" in (o.get("out") or ""))), "a negative span with a huge numerator is applied or refused, never shortened"),
               (["#2024-02-29T10:00:00.5# - #2024-02-29T10:00:00#"], lambda o: o.get("status") == 0 and (o.get("out") or "").startswith("0.5 s"), "a fraction of a second in the literal"),
               (["#2024-02-29T10:00:00.5# > #2024-02-29T10:00:00.25#"], "I:1", "fractions of a second compare by value")]
    _items += [(["#2020-01-01T01:00:00.000001# - #2020-01-01#"], lambda o: o.get("value") in ("Q:X:%s|0,0,1,0,0,0,0,0" % (3600.000001).hex(),), "microseconds survive a difference of an hour"),
               (["I = #2020-01-01#", "q = 1 year + 1 ms", "round(((I+q)-I) to ms) == 31536000001"], "I:1", "(I+q)-I = q (to the microsecond) for a year plus a millisecond"),
               (["I = #2020-01-01#", "J = I + 365 d + 1 ms", "K = I + 365 d + 2 ms", "(J-I) < (K-I)"], "I:1", "differences a millisecond apart at a year's distance are ordered")]
    C.expect_sessions(ctx["report"], ctx["rundir"], "C17", _items)
    global SECONDS_DIMS
    rep, tier, seed = ctx["report"], ctx["tier"], ctx["seed"]
    rng0 = random.Random(seed * 104729 + 17)
    days = all_days()
    pool = ["%04d-%02d-%02dT%s" % (y, m, d, t) for (y, m, d) in days[::37] for t in TIMES]

    # ---- 0. regression inputs, aware literals, literal edge cases (every tier, first)
    plain = [r[0] for r in REGRESSION] + AWARE + ["1 s"]
    pobs = C.run_impl(impl_plain, plain, ctx["rundir"], limit=10.0)
    sec = q_info(pobs[-1].get("raw"))
    if sec is None:
        raise RuntimeError("cannot read the seconds dimension vector from the implementation: %r" % (pobs[-1],))
    SECONDS_DIMS = sec[2]
    n_plain = 0
    for (text, want, diag), o in zip(REGRESSION, pobs):
        n_plain += 1
        if o.get("hung") or o.get("escaped"):
            rep.violation(dict(kind="escaped", op="regression", exc=o.get("escaped") or "hang"),
                          "C17 regression input %s escaped from execute(): %s" % (text, o.get("escaped") or "hang"),
                          dict(case=dict(i=None, plain=text), impl=o))
        elif want is not None and o.get("raw") != want:
            rep.violation(dict(kind="wrong-value", op="regression", got=(o.get("raw") or "")[:2], exp=want[:2]),
                          "C17 fails on the implementation: %s gives %s, the calendar gives %s" % (text, o.get("raw"), want),
                          dict(case=dict(i=None, plain=text), impl=o.get("raw"), expected=want))
        elif diag is not None and not (diagnosed(o) and diag in o.get("err", "")):
            rep.violation(dict(kind="not-diagnosed", op="regression"),
                          "C17 regression input %s must be a diagnosed error mentioning %r: status %r, err %r"
                          % (text, diag, o.get("status"), o.get("err")), dict(case=dict(i=None, plain=text), impl=o))
    for text, o in zip(AWARE, pobs[len(REGRESSION):-1]):
        n_plain += 1
        ok, why = (False, "hang") if o.get("hung") else C.well_formed_outcome(o)
        if not ok:
            rep.violation(dict(kind="escaped", op="aware-literal", exc=o.get("escaped") or why),
                          "time-zone aware instant expression %s does not end in a result or a diagnosed error: %s" % (text, why),
                          dict(case=dict(i=None, plain=text), impl=o))

    # ---- 1. cases
    cases = []
    if ctx.get("replay"):
        r = json.load(open(ctx["replay"]))
        for x in [r["replay"]] + r.get("more", []):
            c = x.get("case")
            if c and c.get("i") is not None:
                cases.append(dict(i=c["i"], ops=c["ops"], rels=c.get("rels", [])))
            elif c and c.get("plain"):
                o = C.run_impl(impl_plain, [c["plain"]], ctx["rundir"])[0]
                C.log("replay %s -> %r" % (c["plain"], o))
    else:
        idx = 0
        # literal edge cases: invalid dates are diagnosed, valid edge spellings are read
        for text in INVALID_LITERALS + VALID_EDGE_LITERALS:
            cases.append(dict(i=text, ops=[dict(k="show"), dict(k="floor"), dict(k="ceil")] + [dict(k="get", f=f) for f in GETTERS]
                              + [dict(k="addq", q="1500 ms"), dict(k="subi", n=1), dict(k="diff", j="2024-01-01"),
                                 dict(k="cmp", c="<", j="2024-01-01")], rels=[]))
        for dn, day in enumerate(days):
            if tier == "quick" and not (dn % 3 == 0 or day[2] == 1 or day[2] >= 28):
                continue        # quick: every third day plus every month start and every day from the 28th on
            ts = TIMES if tier != "quick" else [TIMES[dn % 4]]
            for t in ts:
                cases.append(make_case(idx, day, t, tier, random.Random(seed * 1000003 + idx), pool))
                idx += 1
        # seeded random dates over the whole range 1..9999 (all centuries, both leap rules)
        n_rand = 300 if tier == "quick" else 4000
        for _ in range(n_rand):
            y, m, d = o_civil(rng0.randrange(0, 3652059))
            if rng0.random() < 0.3:
                y = rng0.choice([4, 100, 400, 1600, 1700, 1800, 1900, 2000, 2100, 2400, 9996, 9999, 1]); m = rng0.choice([2, 2, 3, 12, 1])
                d = rng0.choice([1, dim(y, m), max(1, dim(y, m) - 1)])
            t = rng0.choice(TIMES + ["%02d:%02d:%02d.%06d" % (rng0.randrange(24), rng0.randrange(60), rng0.randrange(60), rng0.randrange(10 ** 6))])
            cases.append(make_case(idx, (y, m, d), t, tier, random.Random(seed * 1000003 + idx), pool))
            idx += 1

    # ---- 2. implementation, then the model on the quantities the implementation built
    import time as _t
    t0 = _t.time()
    obs = C.run_impl(impl_case, cases, ctx["rundir"], limit=60.0, chunksize=8)
    C.log("C17: implementation side %.1fs for %d instants" % (_t.time() - t0, len(cases)))
    t0 = _t.time()
    dimnames = {}
    terms, modelled = [], []
    for c, o in zip(cases, obs):
        if o.get("hung"):
            terms.append(None)
            continue
        cops = [coq_op(op, o["q"], dimnames) for op in c["ops"]]
        modelled.append([x is not None for x in cops])
        terms.append("(%s, [%s])" % (C.coq_str(c["i"]), "; ".join(x for x in cops if x is not None)))
    model = None
    if ctx["model_ok"]:
        extra = "".join("Definition %s : list Q := [%s]%%Q.\n" % (name, "; ".join(coq_q(x) for x in dv))
                        for dv, name in dimnames.items())
        live = [t for t in terms if t is not None]
        # one output string per shard is long (about 2-5 kB per instant): coqc needs a deep C stack to read it
        # back from the VM and print it; the limit is inherited by the coqc child processes only
        import resource
        soft, hard = resource.getrlimit(resource.RLIMIT_STACK)
        want = 1 << 30
        if hard != resource.RLIM_INFINITY:
            want = min(want, hard)
        if soft != resource.RLIM_INFINITY and soft < want:
            resource.setrlimit(resource.RLIMIT_STACK, (want, hard))
        mout = C.run_model(ctx["rundir"], "c17", IMPORTS, "run_case", live, shard=60 if tier != "quick" else 100,
                           extra_defs=extra, case_type="string * list op")
        C.log("C17: model side %.1fs" % (_t.time() - t0))
        it = iter(mout)
        model = [next(it) if t is not None else None for t in terms]

    # ---- 3. compare
    hist_op, hist_out, hist_kind = {}, {}, {}
    nontrivial, evaluations, disagreements, tolerated = set(), n_plain, 0, 0
    n_oracle = 0
    t0 = _t.time()
    boundary = dict(month_end=0, leap_day=0, year_end=0, first_day=0, last_day=0)
    samples = []
    mi = 0
    for ci, (c, o) in enumerate(zip(cases, obs)):
        itext = c["i"]
        if o.get("hung"):
            rep.violation(dict(kind="escaped", op="case", exc="hang"), "instant expressions on %s hang" % itext, dict(case=c))
            continue
        i_us = o_parse(itext)
        if isinstance(i_us, int):
            y, m, d = o_fields(i_us)[:3]
            boundary["month_end"] += d == dim(y, m)
            boundary["leap_day"] += (m, d) == (2, 29)
            boundary["year_end"] += (m, d) == (12, 31)
            boundary["first_day"] += (y, m, d) == (1, 1, 1)
            boundary["last_day"] += (y, m, d) == (9999, 12, 31)
        mline = model[ci] if model else None
        mvals = None
        if mline is not None:
            flags = modelled[mi]
            parts = mline.split("|")
            if len(parts) == sum(flags):
                it = iter(parts)
                mvals = [next(it) if f else None for f in flags]
            else:                       # the literal itself is an error in the model: one token for all
                mvals = [mline if f else None for f in flags]
        if terms[ci] is not None:
            mi += 1
        results = {}
        for oi, (op, g) in enumerate(zip(c["ops"], o["ops"])):
            expr = op_expr(itext, op)
            evaluations += 1
            k = op["k"] if op["k"] != "get" else "get:" + op["f"]
            hist_op[k] = hist_op.get(k, 0) + 1
            if op["k"] != "show":
                nontrivial.add(expr)
            got = g.get("raw")
            results[expr] = g
            if g.get("hung") or g.get("escaped"):
                rep.violation(dict(kind="escaped", op=op["k"], exc=g.get("escaped") or "hang"),
                              "%s escaped from execute() with %s" % (expr, g.get("escaped") or "hang"),
                              dict(case=dict(i=itext, ops=[op]), impl=g))
                continue
            exp_m = mvals[oi] if mvals else None
            if exp_m == "E:Unmodelled":
                exp_m = None
            # the independent oracle arbitrates: always when the model is silent or differs from the implementation
            # on the plain text, and on every fourth evaluation otherwise
            if exp_m is None or exp_m != got or (ci + oi) % 4 == 0:
                exp_o = oracle(i_us, op, o["q"]) if isinstance(i_us, int) else i_us
                n_oracle += 1
            else:
                exp_o = None
            qi = q_info(o["q"].get(op.get("q"))) if op.get("q") else None
            if qi:
                hist_kind[qi[0]] = hist_kind.get(qi[0], 0) + 1
            cls = (got or "?")[:2] if not (got or "").startswith("E:") else got
            hist_out[cls] = hist_out.get(cls, 0) + 1
            if len(samples) < 8 and (ci * 131 + oi) % 9973 == 7:
                samples.append(dict(input=expr, impl=got, model=exp_m, oracle=exp_o))
            # an error result must be a diagnosed error (status 1, clean message), a value must be delivered as is
            if (got or "").startswith("E:"):
                if not diagnosed(g):
                    rep.violation(dict(kind="not-diagnosed", op=op["k"], exc=got),
                                  "%s raises %s but execute() does not report a clean diagnosed error (status %r, err %r)"
                                  % (expr, got, g.get("status"), g.get("err")), dict(case=dict(i=itext, ops=[op]), impl=g))
                    continue
                if got == "E:OverflowError" and "Overflow" not in g.get("err", ""):
                    rep.violation(dict(kind="not-diagnosed", op=op["k"], exc="overflow-message"),
                                  "%s overflows but the diagnostic is %r" % (expr, g.get("err")), dict(case=dict(i=itext, ops=[op]), impl=g))
            elif g.get("status") != 0 or g.get("value") != got:
                rep.violation(dict(kind="delivery", op=op["k"]), "%s: raw stages give %s but execute() delivered status %r value %r"
                              % (expr, got, g.get("status"), g.get("value")), dict(case=dict(i=itext, ops=[op]), impl=g))
                continue
            elif got.startswith("T:") and g.get("out", "").strip() != got[2:]:
                rep.violation(dict(kind="printed-text", op=op["k"]), "%s prints %r for the instant %s" % (expr, g.get("out"), got),
                              dict(case=dict(i=itext, ops=[op]), impl=g))

            def same(exp):
                if exp is None:
                    return True
                if exp.startswith("U:"):
                    return span_matches(got, int(exp[2:]))
                if exp == got:
                    return True
                # float spans within 1e-8 us of a tie: CPython scales the fraction in double arithmetic
                if qi and qi[0] == "float" and near_tie(qi[1]) and exp.startswith("T:") and (got or "").startswith("T:"):
                    a, b = o_parse(exp[2:]), o_parse(got[2:])
                    return isinstance(a, int) and isinstance(b, int) and abs(a - b) <= 1
                return False
            ok_o, ok_m = same(exp_o), same(exp_m)
            if ok_o and ok_m:
                if exp_o is not None and exp_o != got and not exp_o.startswith("U:"):
                    tolerated += 1
                continue
            disagreements += 1
            replay = dict(case=dict(i=itext, ops=[op]), text=expr, impl=got, model=exp_m, oracle=exp_o,
                          quantity=o["q"].get(op.get("q")))
            if not ok_o:
                sig = dict(kind="wrong-value", op=op["k"], mag=(qi[0] if qi else None), got=cls[:16], exp=(exp_o or "")[:2] if not (exp_o or "").startswith("E:") else exp_o)
                rep.violation(sig, "C17 fails on the implementation: %s gives %s, the calendar gives %s (model: %s)" % (expr, got, exp_o, exp_m), replay)
            else:
                rep.violation(dict(kind="correspondence", op=op["k"], mag=(qi[0] if qi else None)),
                              "model and implementation disagree on %s: impl %s (= independent oracle), model %s" % (expr, got, exp_m),
                              replay, found_input=False)
        # ---- the property's own relations, on the implementation alone
        if not isinstance(i_us, int):
            continue
        for rel, g in zip(c["rels"], o["rels"]):
            evaluations += 1
            nontrivial.add(rel["e"])
            hist_op["rel:" + rel["r"]] = hist_op.get("rel:" + rel["r"], 0) + 1
            r = rel["r"]
            got = g.get("raw")
            bad = None
            if g.get("hung") or g.get("escaped"):
                rep.violation(dict(kind="escaped", op="rel:" + r, exc=g.get("escaped") or "hang"),
                              "%s escaped from execute() with %s" % (rel["e"], g.get("escaped") or "hang"),
                              dict(case=dict(i=itext, ops=[], rels=[rel]), impl=g))
                continue
            # does the inner operation overflow?  (decided by the independent oracle)
            inner = None
            if r in ("rt_add", "rt_sub"):
                inner = oracle(i_us, dict(k="addq" if r == "rt_add" else "subq", q=rel["q"]), o["q"])
            elif r == "days":
                inner = oracle(i_us, dict(k="addi", n=rel["n"]), o["q"])
            guard_err = inner is not None and inner.startswith("E:")
            if r == "rt_add":
                qi = q_info(o["q"].get(rel["q"]))
                if guard_err or qi is None:
                    if not (got or "").startswith("E:"):
                        bad = "I + q is an error but (I + q) - I gives %s" % got
                else:
                    want = round(qi[1] * 10 ** 6)
                    if not (span_matches(got, want) or (qi[0] == "float" and near_tie(qi[1]) and
                                                         (span_matches(got, want - 1) or span_matches(got, want + 1)))):
                        bad = "(I + q) - I gives %s, q to the microsecond is %d us" % (got, want)
            elif r in ("rt_sub", "days", "fl_le", "short"):
                if guard_err:
                    if not (got or "").startswith("E:"):
                        bad = "the inner operation is an error but the relation evaluates to %s" % got
                elif got != "I:1":
                    bad = "expected 1, got %s" % got
            elif r == "lt_ce":
                last = o_fields(i_us)[:3] == (9999, 12, 31)
                if last:
                    if got != "E:OverflowError":
                        bad = "ceil on 9999-12-31 must be the diagnosed overflow, got %s" % got
                elif got != "I:1":
                    bad = "expected 1, got %s" % got
            elif r == "ce_fl":
                last = o_fields(i_us)[:3] == (9999, 12, 31)
                if last:
                    if got != "E:OverflowError":
                        bad = "ceil on 9999-12-31 must be the diagnosed overflow, got %s" % got
                elif not span_matches(got, US_DAY):
                    bad = "ceil - floor is %s, not 86400 s" % got
            elif r == "anti":
                fwd = results.get("%s - %s" % (lit(itext), lit(rel["j"])))
                a, b = q_info(fwd.get("raw")) if fwd else None, q_info(got)
                if a is None or b is None or a[1] != -b[1] or not is_seconds(a[2]) or not is_seconds(b[2]):
                    bad = "I - J = %s but J - I = %s" % (fwd.get("raw") if fwd else None, got)
                else:
                    sgn = (a[1] > 0) - (a[1] < 0)
                    for cmp_, truth in (("==", sgn == 0), ("!=", sgn != 0), ("<", sgn < 0), ("<=", sgn <= 0), (">", sgn > 0), (">=", sgn >= 0)):
                        cg = results.get("%s %s %s" % (lit(itext), cmp_, lit(rel["j"])))
                        if cg is not None and cg.get("raw") != "I:%d" % truth:
                            rep.violation(dict(kind="relation", rel="cmp-vs-sign", c=cmp_),
                                          "%s %s %s gives %s but I - J = %s" % (lit(itext), cmp_, lit(rel["j"]), cg.get("raw"), fwd.get("raw")),
                                          dict(case=dict(i=itext, ops=[dict(k="diff", j=rel["j"]), dict(k="cmp", c=cmp_, j=rel["j"])], rels=[rel])))
            if bad:
                rep.violation(dict(kind="relation", rel=r), "C17 relation %s fails on the implementation: %s: %s" % (r, rel["e"], bad),
                              dict(case=dict(i=itext, ops=[dict(k="show")], rels=[rel]), impl=got))
        # getters against the fields written in the text (string slicing, no calendar at all)
        mt = re.fullmatch(r"(\d{4})-(\d{2})-(\d{2})T(\d{2}):(\d{2}):(\d{2})(\.\d+)?", itext)
        if mt:
            for f, want in zip(GETTERS, mt.groups()[:6]):
                g = results.get("%s(%s)" % (f, lit(itext)))
                if g is not None and g.get("raw") != "I:%d" % int(want):
                    rep.violation(dict(kind="relation", rel="getter", f=f), "%s(%s) gives %s, the text says %s" % (f, lit(itext), g.get("raw"), want),
                                  dict(case=dict(i=itext, ops=[dict(k="get", f=f)])))
            g = results.get("floor(%s)" % lit(itext))
            if g is not None and g.get("raw") != "T:%sT00:00:00" % itext[:10]:
                rep.violation(dict(kind="relation", rel="floor-midnight"), "floor(%s) gives %s, not midnight of the same date" % (lit(itext), g.get("raw")),
                              dict(case=dict(i=itext, ops=[dict(k="floor")])))

    C.log("C17: comparison %.1fs" % (_t.time() - t0))
    rep.coverage.update(dict(
        oracle_evaluations=n_oracle,
        evaluations=evaluations, distinct_nontrivial=len(nontrivial),
        rule="one case per instant (every day of years %s x %s; plus %d literal edge cases and seeded random dates over years 1..9999); "
             "per instant: floor, ceil, six getters, +/- spans in s/ms/min/h/d/week with integer, fraction (incl. exact half-microsecond ties) "
             "and float magnitudes, +/- whole-day counts, I-J, the six comparisons, overflow spans, one non-time quantity, and the "
             "property's relations as Ka expressions; non-trivial = applies at least one instant operation (bare literals excluded); "
             "distinct by expression text" % (YEARS, "all four times of day" if tier != "quick" else "one of four times (rotating)",
                                              len(INVALID_LITERALS) + len(VALID_EDGE_LITERALS)),
        exhaustive=False, samples=samples, instants=len(cases), operation_histogram=hist_op, outcome_histogram=hist_out,
        span_kind_histogram=hist_kind, boundary_instants=boundary, traces_validated_against_impl=evaluations,
        disagreements=disagreements, float_tie_tolerated=tolerated,
        kernel_lane_cases=len([t for t in terms if t is not None]) if model else 0))
    rep.assumptions += [
        "CPython datetime/timedelta are external: tied to Calendar.v/Instant.v by this correspondence only",
        "float spans are idealised as the exact rational the double denotes; CPython scales the fractional part by 1e6 in "
        "double arithmetic, so a float span within 1e-8 us of a half-microsecond tie may land on the neighbouring microsecond "
        "(accepted, counted in float_tie_tolerated)",
        "I - J is compared through timedelta.total_seconds(): the Quantity must carry the double nearest to the exact span",
        "time-zone aware literals and the other ISO-8601 spellings accepted by datetime.fromisoformat are outside the model: "
        "only checked never to escape",
    ]
