"""C19 — optional per-user files fail soft.
Theorems: coq/Properties/C19.v (every file-system state, every text, every float()).
Tie / fault enumeration: real `python -m ka.cli …` subprocesses with HOME pointing at prepared
directories — every state of each of the three files (missing, empty, directory, unreadable,
binary garbage) in every combination, line grammars for the three files, redirected paths —
observed four ways per scenario (a probe that imports ka.units and dumps the effective
configuration / table / registry, `1/3+0.5`, `1 usd to gbp`, and a non-interactive interpreter
session ending in %q) and compared with Model/Config.v evaluated in the Coq VM.
Oracle = C19 itself: the process starts, evaluates, exits with the expression's status, prints the
value the effective settings give, writes at most warnings (never a traceback); valid settings
take effect; saving history never prevents exit.

Fault construction (the sandbox runs as root, permission bits do nothing):
  unreadable = symlink to /proc/self/mem (exists, os.path.isfile, read -> OSError EIO);
  missing through ENOTDIR = a path whose parent is a regular file."""
import os, sys, json, random, re, subprocess, shutil, itertools
from fractions import Fraction
from concurrent.futures import ThreadPoolExecutor
import common as C

ID = "C19"
COQ_TARGETS = ["Properties/C19.vo", "GenFacts/ConfigSrcFacts.vo"]
MODEL_TARGETS = ["Model/Config.vo"]
IMPORTS = "From Ka Require Import Model.Config.\nFrom Coq Require Import Ascii.\nOpen Scope string_scope.\n"
PY = "/venv/bin/python"

EXTRA = r'''
Definition bs (l : list nat) : string := string_of_list_ascii (map ascii_of_nat l).
Definition show_bytes (s : string) : string :=
  String.concat "." (map (fun c => show_nat (nat_of_ascii c)) (list_ascii_of_string s)).
Definition show_written (w : written) : string :=
  match w with WNothing => "-" | WAppended t => "A" ++ show_bytes t | WCreated t => "W" ++ show_bytes t end.
Definition c19case (c : list (string * Q) * list (string * string) * filesys * write_env) : string :=
  let '(ft, nt, fs, we) := c in
  match startup (float_table ft) (name_norm nt) fs with
  | Crashed e => "C:" ++ e
  | Started s =>
      show_outcome (Started s)
      ++ "|conv=" ++ show_optQ (match st_reg s with Some r => convert r 1 "usd" "gbp" | None => None end)
      ++ "|session=" ++ show_pres (fun r => show_Z (fst r) ++ ":" ++ show_warnings (snd r))
                                  (interpreter_session (st_cfg s) fs we ["1+1"; "%q"])
      ++ "|written=" ++ show_pres (fun r => show_written (fst r)) (save_history (st_cfg s) fs we ["1+1"; "%q"])
  end.
'''
CASE_TYPE = "list (string * Q) * list (string * string) * filesys * write_env"

PROBE = r'''
import sys, json, io, traceback
res = {}
try:
    import ka.config as K
    import ka.units as U
    import ka.currency as Cu
    from pathlib import Path
    buf = io.StringIO()
    K.read_config(K.CONFIG_PATH, error_out=buf)
    po = K.ConfigProperties()
    cfg = {}
    for x in dir(po):
        if x.startswith("_"):
            continue
        p = getattr(po, x)
        v = K.get(p)
        cfg[p.name] = "<path>" if (p.name not in K.CONFIG and isinstance(p.default, Path)) else str(v)
    default = Cu.parse_currency_data(Cu.DEFAULT_CURRENCY_DATA)
    same = len(default) == len(U.CURRENCY_DATA) and all(
        a.symbol == b.symbol and a.dollar_rate == b.dollar_rate for a, b in zip(default, U.CURRENCY_DATA))
    res = dict(cfg=cfg, base=U.BASE_CURRENCY, ntable=len(U.CURRENCY_DATA), from_file=not same,
               cash=(sum(1 for u in U.UNITS if "cash" in u.quantities) if U.BASE_CURRENCY is not None else None),
               cfgwarn=buf.getvalue())
except BaseException as e:
    tb = traceback.extract_tb(e.__traceback__)
    res = dict(crash=dict(exn=type(e).__name__, file=tb[-1].filename.split("/")[-1], func=tb[-1].name, msg=str(e)[:200]))
print("\nPROBE:" + json.dumps(res))
'''

DECOY = "usd,usdollar,1.0\ngbp,britishpound,0.25\neur,euro,0.5\n"
SESSION_INPUT = "1+1\n%q\n"
SESSION_HISTORY = "1+1\n%q"


# ------------------------------------------------------------------ scenarios
def scn(tag, config=("missing",), cur=("missing",), hist=("missing",), layout="normal",
        cur_at="default", hist_at="default", runs=("probe", "cli_a", "cli_b", "session")):
    return dict(tag=tag, config=list(config), cur=list(cur), hist=list(hist), layout=layout,
                cur_at=cur_at, hist_at=hist_at, runs=list(runs))


def garbage(seed, n=200):
    r = random.Random(seed)
    return b"\xff\xfe" + bytes(r.randrange(256) for _ in range(n - 4)) + b"\xc3\x28"


def file_bytes(spec):
    """bytes of a Bytes state, or None"""
    k = spec[0]
    if k == "empty":
        return b""
    if k == "text":
        return spec[1].encode("utf-8")
    if k == "garbage":
        return garbage(spec[1])
    return None


def paths(s, home):
    """real path of each file and the strings the configuration must contain"""
    kd = os.path.join(home, ".config", "ka")
    cur_at, hist_at = s["cur_at"], s["hist_at"]
    cur_path = {"default": os.path.join(kd, "currency"), "redirect": os.path.join(home, "alt", "currency"),
                "under-file": os.path.join(home, "afile", "currency"), "empty": ""}[cur_at]
    hist_path = {"default": os.path.join(kd, "history"), "redirect": os.path.join(home, "alt", "history"),
                 "deep": os.path.join(home, "new1", "new2", "history"),
                 "under-file": os.path.join(home, "afile", "history"),
                 "deep-under-file": os.path.join(home, "afile", "sub", "history"),
                 "proc": "/proc/ka_no_such_dir/sub/history", "empty": "", "relative": "relhist"}[hist_at]
    return os.path.join(kd, "config"), cur_path, hist_path


def config_text(s, home):
    """the configuration text with the redirect lines appended (None if the config is not text)"""
    if s["config"][0] not in ("text", "empty"):
        return None
    t = s["config"][1] if s["config"][0] == "text" else ""
    _, cp, hp = paths(s, home)
    extra = []
    if s["cur_at"] != "default":
        extra.append("currency-path = %s" % cp)
    if s["hist_at"] != "default":
        extra.append("history-path = %s" % hp)
    if extra:
        if t and not t.endswith(("\n", "\r")):
            t += "\n"
        t += "\n".join(extra) + "\n"
    return t


def place(path, spec, data=None):
    k = spec[0]
    if k == "missing" or path == "":
        return
    os.makedirs(os.path.dirname(path) or ".", exist_ok=True)
    if k == "dir":
        os.makedirs(path)
    elif k == "unreadable":
        os.symlink("/proc/self/mem", path)
    else:
        with open(path, "wb") as f:
            f.write(data if data is not None else file_bytes(spec))


def build_home(s, home):
    os.makedirs(home)
    if s["layout"] == "no-config-dir":
        return
    if s["layout"] == "dotconfig-file":
        open(os.path.join(home, ".config"), "w").write("x")
        return
    if s["layout"] == "kadir-file":
        os.makedirs(os.path.join(home, ".config"))
        open(os.path.join(home, ".config", "ka"), "w").write("x")
        return
    cfgp, cp, hp = paths(s, home)
    os.makedirs(os.path.dirname(cfgp))
    if "afile" in cp or "afile" in hp:
        open(os.path.join(home, "afile"), "w").write("x")
    ct = config_text(s, home)
    if ct is not None:
        place(cfgp, ["text", ct], ct.encode("utf-8"))
    else:
        place(cfgp, s["config"])
    if s["cur_at"] == "redirect":
        place(os.path.join(os.path.dirname(cfgp), "currency"), ["text", DECOY])
    if s["cur_at"] in ("default", "redirect"):
        place(cp, s["cur"])
    if s["hist_at"] in ("default", "redirect"):
        place(hp, s["hist"])
    elif s["hist_at"] == "relative":
        place(os.path.join(home, hp), s["hist"])


def effective(s):
    """states the implementation will actually see (forced Missing where the path cannot exist)"""
    cfg, cur, hist = s["config"], s["cur"], s["hist"]
    if s["layout"] != "normal":
        return ["missing"], ["missing"], ["missing"]
    if s["cur_at"] in ("under-file", "empty"):
        cur = ["missing"]
    if s["hist_at"] in ("deep", "under-file", "deep-under-file", "proc", "empty"):
        hist = ["missing"]
    return cfg, cur, hist


# ------------------------------------------------------------------ Coq terms
def coq_bytes(b):
    return "(bs [%s]%%nat)" % ";".join(str(x) for x in b)


def coq_q(fr):
    n, d = fr.numerator, fr.denominator
    return "(%s # %d)" % (("(%d)" % n) if n < 0 else str(n), d)


def coq_fstate(spec, data=None):
    k = spec[0]
    if k == "missing":
        return "Missing"
    if k == "dir":
        return "Directory"
    if k == "unreadable":
        return "(Unreadable EOSError)"
    if k == "garbage":
        return '(Bytes false "")'
    b = data if data is not None else file_bytes(spec)
    try:
        b.decode("utf-8")
    except UnicodeDecodeError:
        return '(Bytes false "")'
    return "(Bytes true %s)" % coq_bytes(b)


def currency_fields(text):
    """third fields of the non-blank lines, as parse_currency_data sees them"""
    t = text.replace("\r\n", "\n").replace("\r", "\n")
    out = []
    for line in t.split("\n"):
        if not line.strip():
            continue
        f = line.split(",")
        if len(f) >= 3:
            out.append((f[1], f[2]))
    return out


def norm_name(n):
    import unicodedata
    return "".join(ch for ch in unicodedata.normalize("NFKD", n) if ch.isascii() and ch.isalnum())


def model_term(s, home):
    """(coq term, reason the model declines | None)"""
    cfg, cur, hist = effective(s)
    skip = None
    ft, nt = {}, {}
    texts = [DECOY]
    if cur[0] == "text":
        texts.append(cur[1])
    for t in texts:
        for name, f2 in currency_fields(t):
            try:
                v = float(f2)
            except ValueError:
                continue
            if v != v or v in (float("inf"), float("-inf")):
                skip = "non-finite rate text %r (outside the modelled class)" % f2
                continue
            if v < 0:
                skip = "negative rate %r (the repaired reader may reject or keep it; only the fail-soft oracle applies)" % f2
            ft[f2] = Fraction(v)
            if not name.isascii():
                nt[name] = norm_name(name)
    ct = config_text(s, home) if s["layout"] == "normal" else None
    cfg_state = coq_fstate(cfg, ct.encode("utf-8") if ct is not None else None)
    _, cp, hp = paths(s, home)
    cur_state, hist_state = coq_fstate(cur), coq_fstate(hist)
    default_cur = coq_fstate(["text", DECOY]) if s["cur_at"] == "redirect" else (cur_state if s["cur_at"] == "default" else "Missing")
    default_hist = hist_state if s["hist_at"] == "default" else "Missing"
    users = []
    if s["cur_at"] != "default":
        users.append((cp, cur_state))
    if s["hist_at"] != "default":
        users.append((hp, hist_state))
    u = "Missing"
    for p, st in reversed(users):
        u = "if String.eqb u %s then %s else %s" % (coq_bytes(p.encode("utf-8")), st, u)
    fs = ('(fun k => match k with PConfig => %s | PDefault p => if String.eqb p "currency-path" then %s '
          'else if String.eqb p "history-path" then %s else Missing | PUser u => %s end)'
          % (cfg_state, default_cur, default_hist, u))
    we = write_env(s)
    term = "([%s], [%s], %s, %s)" % (
        ";".join("(%s, %s)" % (coq_bytes(k.encode("utf-8")), coq_q(v)) for k, v in ft.items()),
        ";".join("(%s, %s)" % (coq_bytes(k.encode("utf-8")), coq_bytes(v.encode("utf-8"))) for k, v in nt.items()),
        fs, we)
    return term, skip


def write_env(s):
    pe, mk, op = "true", "None", "None"
    if s["layout"] == "no-config-dir":
        pe = "false"
    elif s["layout"] in ("kadir-file", "dotconfig-file"):
        if s["layout"] == "kadir-file":
            pe, op = "true", "Some ENotADirectory"
        else:
            pe, mk = "false", "Some ENotADirectory"
    else:
        h = s["hist_at"]
        if h == "deep":
            pe = "false"
        elif h == "under-file":
            op = "Some ENotADirectory"
        elif h == "deep-under-file":
            pe, mk = "false", "Some ENotADirectory"
        elif h in ("proc", "empty"):
            pe, mk = "false", "Some EFileNotFound"
        elif h == "relative":
            # os.path.split("relhist") gives base "" which never exists; makedirs("") fails
            pe, mk = "false", "Some EFileNotFound"
    return "{| we_parent_exists := %s; we_makedirs := %s; we_open := %s; we_write := None |}" % (pe, mk, op)


# ------------------------------------------------------------------ running the implementation
def env_for(home):
    e = {k: v for k, v in os.environ.items() if not k.startswith(("XDG_", "PYTHON"))}
    e.update(HOME=home, PYTHONPATH=C.SRC, PYTHONHASHSEED="0", LC_ALL="C.UTF-8", PYTHONDONTWRITEBYTECODE="1")
    return e


def run_one(job):
    kind, home, probe_path = job
    env = env_for(home)
    if kind == "probe":
        cmd, inp = [PY, probe_path], None
    elif kind == "cli_a":
        cmd, inp = [PY, "-m", "ka.cli", "1/3+0.5"], None
    elif kind == "cli_b":
        cmd, inp = [PY, "-m", "ka.cli", "1 usd to gbp"], None
    else:
        cmd, inp = [PY, "-m", "ka.cli"], SESSION_INPUT.encode()
    try:
        p = subprocess.run(cmd, input=inp, stdin=(subprocess.DEVNULL if inp is None else None), env=env, cwd=home,
                           stdout=subprocess.PIPE, stderr=subprocess.PIPE, timeout=60)
        return dict(rc=p.returncode, out=p.stdout.decode("utf-8", "replace"), err=p.stderr.decode("utf-8", "replace"))
    except subprocess.TimeoutExpired:
        return dict(rc=None, out="", err="", hung=True)


def crash_of(err):
    """(exception class, file:function of the innermost frame) from a traceback on stderr"""
    if "Traceback" not in err:
        return None
    frames = re.findall(r'File "([^"]+)", line \d+, in (\S+)', err)
    last = [l for l in err.strip().splitlines() if l and not l.startswith(" ")][-1]
    exn = last.split(":")[0].strip()
    where = "%s:%s" % (frames[-1][0].split("/")[-1], frames[-1][1]) if frames else "?"
    return exn, where


WARN_RX = re.compile(r"WARNING: (.*?) for config variable '(.*)'\.$")


def warn_tags(text):
    tags = []
    for l in text.splitlines():
        l = l.rstrip("\n")
        if not l:
            continue
        m = WARN_RX.match(l)
        if m:
            what = m.group(1)
            k = {"expecting integer value": "int", "expecting non-negative value": "neg",
                 "expecting boolean value (true/false)": "bool"}.get(what, "range")
            tags.append("%s:%s" % (k, m.group(2)))
        elif l.startswith("WARNING: unknown config variable '") and l.endswith("'."):
            tags.append("unknown:" + l[len("WARNING: unknown config variable '"):-2])
        elif l.startswith("WARNING: couldn't read config file"):
            tags.append("config-unreadable")
        elif l.startswith("Failed to parse currency data"):
            tags.append("currency-fallback")
        elif l.startswith("Failed to load history"):
            tags.append("history-load")
        elif l.startswith("Failed to save history"):
            tags.append("history-save")
        else:
            tags.append("other:" + l[:60])
    return tags


def parse_model(m):
    if m.startswith("C:"):
        return dict(crash=m[2:])
    parts = m.split("|")
    d = dict(cfg={})
    for kv in parts[1].split(";"):
        k, _, v = kv.partition("=")
        d["cfg"][k] = v
    for p in parts[2:]:
        k, _, v = p.partition("=")
        d[k] = v
    return d


def fmt_prec(p, v):
    return ("{:.%dg}" % p).format(v)


# ------------------------------------------------------------------ generators
STATES5 = [("missing",), ("empty",), ("dir",), ("unreadable",), ("garbage", 1)]
GOOD_TABLE = "usd,usdollar,1.0\neur,euro,0.9\ngbp,britishpound,0.8\nxyz,xyzcoin,2.5\n"

NUM_VALUES = ["3", "0", "12", "-1", "-0", "abc", "", "1_0", "1__0", "_1", "+5", "+-5", "2147483647", "2147483648",
              "99999999999999999999", "1.5", "0x10", "1e3", "  7  ", "3 4", "true",
              # spellings float() accepts but int() does not, incl. the non-finite ones
              "inf", "-Infinity", "nan", "1e999", "8.0", "1e-999", "0.0"]
BOOL_VALUES = ["true", "false", "True", "FALSE", "yes", "1", "", "true false"]
TEXT_VALUES = ["a", "a=b", "=", "==x=", "x  y", "gbp", "usd", "zzz", ">>", "ka>", "café"]
KEYS = [("precision", "num"), ("font-size", "num"), ("save-history", "bool"), ("prompt", "text"),
        ("base-currency", "text"), ("nosuchkey", "text"), ("", "text"), ("Precision", "num"), ("shortcut-up", "text")]
ODD_LINES = ["", "   ", "=", " = ", "= 5", "   = 5", "# comment", "precision", "[section]", "precision: 3",
             "precision = 4 # four", "\tprecision\t=\t5\t", "precision=2=", "prompt ="]


def config_line_pool():
    pool = []
    for key, kind in KEYS:
        vals = {"num": NUM_VALUES + ["true"], "bool": BOOL_VALUES + ["3"], "text": TEXT_VALUES + ["7"]}[kind]
        for v in vals:
            pool += ["%s %s" % (key, v), "%s = %s" % (key, v), "%s=%s" % (key, v),
                     "%s = %s = %s" % (key, v, v), "%s==%s" % (key, v), "%s=%s=%s=%s" % (key, v, v, v)]
    pool += ODD_LINES
    seen, out = set(), []
    for l in pool:
        if l not in seen and ";" not in l and "|" not in l:
            seen.add(l)
            out.append(l)
    return out


CUR_LINES_OK = ["usd,usdollar,1.0", "eur,euro,0.9", "gbp,britishpound,0.8", "xyz,xyzcoin,2.5", "jpy,japaneseyen,150,extra",
                "abc,alphacoin,1e-3", "chf,swissfranc,0.9", "btc,bitcoin,1.1e-05", "ves,venezuelanbolívar,51.5",
                "top,tonganpa'anga,2.4"]
CUR_LINES_BAD = ["abc,def", "abc", ",", "abc,def,xyz", "abc,def,", "abc,def, ", "zzz,zed,0", "zzz,zed,0.0", "zzz,zed,-0",
                 "zzz,zed,1e-400", "neg,negcoin,-2", "nnn,nancoin,nan", "iii,infcoin,inf", "usd;usdollar;1.0",
                 "usd usdollar 1.0", "abc,def,1,5", "abc,def,1 000"]
CUR_LINES_BLANK = ["", "   ", "\t"]
CUR_LINES_CLASH = ["second,metre,2.0", "m,s,2", "xx,inche,2", "cup,cubanpeso,24", "m,foo,3", "abc,metre,4",
                   "day,daycoin,5", "abc,yen,1", "jpy,foo,150", "usd,usd,1", "eur,euro,0.95", "eur,euro2,0.96",
                   "gbp,€,0.7", "foo,$,2", " eur , euro , 0.9 ", ",,3", "EUR,Euro,0.9", "kg,kilo,2", "x,y,1_0"]


def gen_config_scenarios(rng, n_single, n_multi, exhaustive_single):
    pool = config_line_pool()
    singles = pool if exhaustive_single else rng.sample(pool, min(n_single, len(pool)))
    out = []
    for l in singles:
        runs = ["probe", "cli_a"]
        if l.startswith(("prompt", "save-history")):
            runs.append("session")
        if l.startswith("base-currency"):
            runs.append("cli_b")
        out.append(scn("config-line", config=("text", l + rng.choice(["\n", "", "\r\n"])), runs=runs))
    for _ in range(n_multi):
        k = rng.choice([2, 3, 4, 6])
        ls = [rng.choice(pool) for _ in range(k)]
        if rng.random() < 0.6:
            ls.insert(rng.randrange(len(ls) + 1), rng.choice(["precision = 3", "precision = 9", "prompt = a=b", "save-history = false",
                                                            "base-currency = gbp", "font-size = 11"]))
        sep = rng.choice(["\n", "\n", "\r\n", "\r"])
        text = sep.join(ls) + rng.choice([sep, ""])
        out.append(scn("config-lines", config=("text", text), runs=["probe", "cli_a", "session"]))
    return out


def gen_currency_scenarios(rng, n):
    out = []
    singles = CUR_LINES_BAD + CUR_LINES_CLASH + CUR_LINES_BLANK
    for l in singles:
        # one faulty line inside an otherwise good table, and alone
        rows = GOOD_TABLE.strip().split("\n")
        pos = rng.randrange(len(rows) + 1)
        rows.insert(pos, l)
        out.append(scn("currency-line", cur=("text", "\n".join(rows) + "\n"), runs=["probe", "cli_b"]))
        out.append(scn("currency-line-alone", cur=("text", l + "\n"), runs=["probe", "cli_b"]))
    bases = [None, "gbp", "usd", "zzz", "xyz", ""]
    for _ in range(n):
        k = rng.choice([1, 2, 3, 5, 8])
        rows = []
        for _ in range(k):
            r = rng.random()
            rows.append(rng.choice(CUR_LINES_OK if r < 0.6 else CUR_LINES_CLASH if r < 0.78 else
                                   CUR_LINES_BLANK if r < 0.86 else CUR_LINES_BAD))
        if rng.random() < 0.7:
            rows = ["usd,usdollar,1.0", "gbp,britishpound,0.8"] + rows
        if rng.random() < 0.6:
            rows.insert(rng.randrange(len(rows) + 1), "eur,euro,0.9")
        sep = rng.choice(["\n", "\n", "\r\n"])
        text = sep.join(rows) + rng.choice([sep, ""])
        b = rng.choice(bases)
        cfg = ("missing",) if b is None else ("text", "base-currency = %s\n" % b)
        at = rng.choice(["default", "default", "redirect"]) if cfg[0] == "text" else "default"
        out.append(scn("currency-lines", config=cfg, cur=("text", text), cur_at=at, runs=["probe", "cli_b"]))
    for at in ("under-file", "empty", "redirect"):
        for st in STATES5:
            out.append(scn("currency-path-" + at, config=("text", ""), cur=st, cur_at=at, runs=["probe", "cli_b"]))
    return out


HIST_TEXTS = ["", "1+1\n2+2\n", "  \n\nx = 5\n", "abc\x00def\n2+2\n", "a\r\nb\r\n", "y" * 600 + "\n", "café\n", "no newline at end"]


def gen_history_scenarios(rng):
    out = []
    for t in HIST_TEXTS:
        out.append(scn("history-text", hist=("text", t), runs=["session"]))
        out.append(scn("history-text-disabled", config=("text", "save-history = false\n"), hist=("text", t), runs=["session"]))
    for at in ("redirect", "deep", "under-file", "deep-under-file", "proc", "empty", "relative"):
        for st in STATES5 + [("text", "1+1\n")]:
            out.append(scn("history-path-" + at, config=("text", "prompt = ka>\n"), hist=st, hist_at=at, runs=["session"]))
    for st in STATES5:
        out.append(scn("history-disabled", config=("text", "save-history = false\n"), hist=st, runs=["session"]))
        out.append(scn("history-bad-flag", config=("text", "save-history = maybe\n"), hist=st, runs=["session"]))
    return out


def regression_corpus():
    return [
        scn("regression:config 'prompt = a=b'", config=("text", "prompt = a=b\n")),
        scn("regression:config of 200 random bytes", config=("garbage", 7)),
        scn("regression:config -> /proc/self/mem", config=("unreadable",)),
        scn("regression:precision = -1 keeps 0.833333", config=("text", "precision = -1\n")),
        scn("regression:currency path is a directory", cur=("dir",)),
        scn("regression:currency file with a bad float", cur=("text", "usd,usdollar,1.0\ngbp,britishpound,zero\n")),
        scn("regression:binary currency file", cur=("garbage", 9)),
        scn("regression:history path is a directory on exit", hist=("dir",)),
        scn("regression:exported table with trailing newline is used", cur=("text", GOOD_TABLE)),
        # sizes: valid settings after kilobytes of junk, very long lines, very long values
        scn("size:valid settings after 300 junk lines", config=("text", "".join("# note %d\nunknown-key-%d = %d\nprecision = nine%d\n" % (i, i, i, i) for i in range(100)) + "precision = 3\nprompt = ka=>\n")),
        scn("size:valid settings after a 20000-character line", config=("text", "# " + "x" * 20000 + "\nprecision = 3\n")),
        scn("size:valid settings before and after 64 KB of junk", config=("text", "precision = 3\n" + "junk line without separator\n" * 2500 + "prompt = ka=>\n")),
        scn("size:a 5000-character prompt", config=("text", "prompt = " + "p" * 5000 + "\nprecision = 3\n")),
        scn("size:paths with a tilde", config=("text", "history-path = ~nosuchuser_ka/history\ncurrency-path = ~~/currency\nprecision = 3\n"), runs=("probe", "cli_a", "cli_b")),
        scn("size:paths with a tilde and a user", config=("text", "currency-path = ~root/nosuch/currency\nhistory-path = ~\nprecision = 3\n"), runs=("probe", "cli_a", "cli_b")),
    ]


def fs_product():
    out = []
    for a, b, c in itertools.product(STATES5, repeat=3):
        out.append(scn("fs-state", config=a, cur=b, hist=c))
    for lay in ("no-config-dir", "dotconfig-file", "kadir-file"):
        out.append(scn("fs-layout:" + lay, layout=lay))
    return out


def gen_combos(rng, n):
    pool = config_line_pool()
    out = []
    for _ in range(n):
        cl = [rng.choice(pool) for _ in range(rng.choice([0, 1, 3]))]
        cfg = rng.choice([("text", "\n".join(cl) + "\n"), ("text", "\n".join(cl) + "\n"), ("garbage", rng.randrange(99)), ("dir",), ("unreadable",), ("missing",)])
        rows = [rng.choice(CUR_LINES_OK + CUR_LINES_CLASH + CUR_LINES_BAD[:8]) for _ in range(rng.choice([1, 3, 5]))]
        cur = rng.choice([("text", "usd,usdollar,1.0\ngbp,britishpound,0.8\neur,euro,0.9\n" + "\n".join(rows) + "\n"),
                          ("text", "\n".join(rows) + "\n"), ("garbage", rng.randrange(99)), ("dir",), ("unreadable",), ("missing",), ("empty",)])
        hist = rng.choice([("text", rng.choice(HIST_TEXTS)), ("garbage", rng.randrange(99)), ("dir",), ("unreadable",), ("missing",), ("empty",)])
        textual = cfg[0] == "text"
        out.append(scn("combination", config=cfg, cur=cur, hist=hist,
                       cur_at=rng.choice(["default", "redirect"]) if textual else "default",
                       hist_at=rng.choice(["default", "redirect", "deep", "under-file"]) if textual else "default"))
    return out


R1_SIG = dict(kind="crash", exception="ZeroDivisionError", where="units.py:<module>")
R4_SIG = dict(kind="crash", exception="ValueError", where="interpret.py:precisionify_float")


def has_zero_rate(s):
    if s["cur"][0] != "text":
        return False
    for _, f2 in currency_fields(s["cur"][1]):
        try:
            if float(f2) == 0:
                return True
        except ValueError:
            pass
    return False


def root_cause(s, m, sig):
    """collapse the different symptoms of one defect onto the signature of its failing input"""
    if sig["kind"] in ("table-choice", "table-not-effective", "cash-units", "base-currency", "conversion-differs",
                       "currency-message") and has_zero_rate(s):
        return R1_SIG          # a zero rate is accepted by parse_currency_data
    if sig["kind"] in ("setting-not-effective", "config-warnings") and m and "range:" in m.get("cfgwarn", ""):
        return R4_SIG          # a numeric option above 2^31-1 is stored
    return sig


# ------------------------------------------------------------------ the check
def run(ctx):
    # --- coordinator: every accepted precision value must be able to display every kind of result, including the
    #     decimal approximation of a fraction beyond the float range (display_result's Decimal fallback)
    import subprocess as _sp, tempfile as _tf, shutil as _sh
    for _prec in ("0", "1", "6", "40"):
        _home = _tf.mkdtemp(prefix="c19prec-", dir=ctx["rundir"])
        os.makedirs(os.path.join(_home, ".config", "ka"))
        open(os.path.join(_home, ".config", "ka", "config"), "w").write("junk\nprecision = %s\n" % _prec)
        for _expr in ("10^400/3", "(10^400/3) m", "1/3+0.5", "{10^400/7}"):
            _p = _sp.run(["/venv/bin/python", "-m", "ka.cli", _expr], env=dict(os.environ, HOME=_home, PYTHONPATH=C.SRC), stdout=_sp.PIPE, stderr=_sp.PIPE, text=True, timeout=120)
            if _p.returncode != 0 or "Traceback" in _p.stderr or not _p.stdout.strip():
                ctx["report"].violation(dict(kind="option-breaks-display", option="precision"),
                                        "C19 fails: with config 'precision = %s', `ka %r` exits %r: %s" % (_prec, _expr, _p.returncode, _p.stderr.strip()[-160:]),
                                        dict(config="precision = %s" % _prec, text=_expr, exit=_p.returncode, stderr=_p.stderr[-400:]))
        _sh.rmtree(_home, ignore_errors=True)
    rep, tier, seed = ctx["report"], ctx["tier"], ctx["seed"]
    rng = random.Random(seed * 104729 + 19)
    quick = tier == "quick"
    if ctx.get("replay"):
        r = json.load(open(ctx["replay"]))
        scenarios = [x["scenario"] for x in [r["replay"]] + r.get("more", []) if "scenario" in x]
    else:
        scenarios = regression_corpus() + fs_product()
        scenarios += gen_config_scenarios(rng, 110, 50 if quick else 2500, exhaustive_single=not quick)
        scenarios += gen_currency_scenarios(rng, 60 if quick else 2000)
        scenarios += gen_history_scenarios(rng)
        scenarios += gen_combos(rng, 30 if quick else 1500)
    root = os.path.join(ctx["rundir"], "homes")
    os.makedirs(root)
    probe_path = os.path.join(ctx["rundir"], "probe.py")
    open(probe_path, "w").write(PROBE)
    homes, jobs, index = [], [], []
    for i, s in enumerate(scenarios):
        home = os.path.join(root, "h%d" % i)
        build_home(s, home)
        homes.append(home)
        for k in s["runs"]:
            jobs.append((k, home, probe_path))
            index.append((i, k))
    import time
    t0 = time.time()
    with ThreadPoolExecutor(C.NCPU) as ex:
        results = list(ex.map(run_one, jobs))
    C.log("C19: %d subprocesses for %d scenarios in %.1fs" % (len(jobs), len(scenarios), time.time() - t0))
    obs = [dict() for _ in scenarios]
    for (i, k), r in zip(index, results):
        obs[i][k] = r
    # the history file after the session
    for i, s in enumerate(scenarios):
        if "session" in s["runs"] and s["layout"] == "normal":
            _, _, hp = paths(s, homes[i])
            p = os.path.join(homes[i], hp) if hp and not os.path.isabs(hp) else hp
            try:
                obs[i]["history_after"] = open(p, "rb").read() if p and os.path.isfile(p) and not os.path.islink(p) else None
            except OSError:
                obs[i]["history_after"] = None
    terms, skips = [], []
    for s, home in zip(scenarios, homes):
        t, sk = model_term(s, home)
        terms.append(t)
        skips.append(sk)
    model = None
    if ctx["model_ok"]:
        t0 = time.time()
        model = C.run_model(ctx["rundir"], "c19", IMPORTS, "c19case", terms, shard=25, extra_defs=EXTRA, case_type=CASE_TYPE)
        C.log("C19: model on %d cases in %.1fs" % (len(terms), time.time() - t0))

    hist_outcome, tags_count = {}, {}
    all_viol = []
    disagreements = nontrivial = 0
    samples = []
    for i, (s, home) in enumerate(zip(scenarios, homes)):
        o = obs[i]
        m = parse_model(model[i]) if model else None
        sk = skips[i]
        tags_count[s["tag"].split(":")[0]] = tags_count.get(s["tag"].split(":")[0], 0) + 1
        if any(x[0] != "missing" for x in (s["config"], s["cur"], s["hist"])) or s["layout"] != "normal":
            nontrivial += 1
        replay = dict(scenario=s, how="HOME=<dir built by harness/props/c19.py:build_home> PYTHONPATH=%s %s -m ka.cli <expr>" % (C.SRC, PY))
        viol = []          # (signature, text, found_input)

        # ---- the property's own oracle on every run of this scenario
        crashed = None
        for k in s["runs"]:
            r = o[k]
            if r.get("hung"):
                viol.append((dict(kind="hang", run=k), "the process did not finish within 60 s (%s)" % k, True))
                continue
            cr = crash_of(r["err"])
            if k == "probe":
                pj = None
                for l in r["out"].splitlines():
                    if l.startswith("PROBE:"):
                        pj = json.loads(l[6:])
                o["probe_json"] = pj
                if pj and pj.get("crash"):
                    cr = (pj["crash"]["exn"], "%s:%s" % (pj["crash"]["file"], pj["crash"]["func"]))
            if cr and not crashed:
                crashed = (k, cr, r)
        if crashed:
            k, (exn, where), r = crashed
            viol.append((dict(kind="crash", exception=exn, where=where),
                         "C19 fails on the implementation: %s escapes at %s (%s; scenario %s: config=%r currency=%r history=%r)"
                         % (exn, where, {"probe": "import of ka.units", "cli_a": "python -m ka.cli '1/3+0.5'",
                                         "cli_b": "python -m ka.cli '1 usd to gbp'", "session": "interpreter session"}[k],
                            s["tag"], s["config"], s["cur"], s["hist"]), True))
        else:
            prec = int(m["cfg"].get("precision", "6")) if (m and "cfg" in m and re.fullmatch(r"\d+", m["cfg"].get("precision", ""))) else None
            if "cli_a" in s["runs"]:
                r = o["cli_a"]
                if r["rc"] != 0 or [t for t in warn_tags(r["err"]) if t.startswith("other:")]:
                    viol.append((dict(kind="evaluation-status", run="cli_a"),
                                 "'1/3+0.5' exits with %r, stderr %r (scenario %s)" % (r["rc"], r["err"][:200], s["tag"]), True))
                elif prec is not None and not sk and r["out"].strip() != fmt_prec(prec, 1 / 3 + 0.5):
                    viol.append((dict(kind="setting-not-effective", option="precision"),
                                 "C19 fails: '1/3+0.5' prints %r, the valid settings give precision %d -> %r (config %r)"
                                 % (r["out"].strip(), prec, fmt_prec(prec, 1 / 3 + 0.5), s["config"]), True))
            if "cli_b" in s["runs"]:
                r = o["cli_b"]
                exp = m.get("conv") if (m and not sk and "conv" in m) else None
                if r["rc"] not in (0, 1) or (r["rc"] == 1 and not r["err"].strip()) or [t for t in warn_tags(r["err"]) if t.startswith("other:") and r["rc"] == 0]:
                    viol.append((dict(kind="evaluation-status", run="cli_b"),
                                 "'1 usd to gbp' exits with %r, stderr %r" % (r["rc"], r["err"][:200]), True))
                elif exp is not None:
                    if exp == "-":
                        if r["rc"] != 1:
                            viol.append((dict(kind="conversion-differs", model="no such cash unit"),
                                         "'1 usd to gbp' printed %r but the table in use has no such pair (currency %r)" % (r["out"].strip(), s["cur"]), False))
                    else:
                        n, d = exp.split("/")
                        q = Fraction(int(n), int(d))
                        try:
                            got = float(r["out"].strip())
                        except ValueError:
                            got = None
                        tol = max(1e-9, 0.6 * 10.0 ** (-(max(prec if prec is not None else 6, 1) - 1)))
                        if r["rc"] != 0 or got is None or abs(got - float(q)) > tol * abs(float(q)):
                            viol.append((dict(kind="table-not-effective"),
                                         "C19 fails: '1 usd to gbp' gives %r (status %r), the table that should be in use gives %s (currency %r, config %r)"
                                         % (r["out"].strip(), r["rc"], float(q), s["cur"], s["config"]), True))
            if "session" in s["runs"]:
                r = o["session"]
                if r["rc"] != 0:
                    viol.append((dict(kind="session-exit", rc=r["rc"]), "the interpreter session exits with %r: %r" % (r["rc"], r["err"][:200]), True))
                elif m and "session" in m and not sk:
                    tags = sorted(t for t in warn_tags(r["err"]) if t.startswith("history"))
                    mt = sorted(t for t in m["session"].split(":", 1)[1].split(";") if t)
                    prompt = m["cfg"].get("prompt", ">>>")
                    if tags != mt:
                        viol.append((dict(kind="history-messages"), "session messages %r, model %r (history %r at %s)" % (tags, mt, s["hist"], s["hist_at"]), False))
                    if ("%s 2\n%s " % (prompt, prompt)) not in r["out"]:
                        viol.append((dict(kind="setting-not-effective", option="prompt"),
                                     "C19 fails: the session shows %r, the valid settings give the prompt %r" % (r["out"][-60:], prompt), True))
                    ha = o.get("history_after")
                    w = m.get("written", "-")
                    if s["layout"] == "normal" and ha is not None and w[:1] in ("A", "W") and s["hist"][0] in ("text", "empty", "garbage", "missing"):
                        mb = bytes(int(x) for x in w[1:].split(".") if x)
                        before = file_bytes(effective(s)[2]) or b""
                        want = before + mb if w[0] == "A" else mb
                        if ha != want:
                            viol.append((dict(kind="history-content"), "history file after the session is %r, model %r" % (ha[-40:], want[-40:]), False))
                    if w == "-" and ha is not None and s["hist"][0] in ("text", "empty") and ha != (file_bytes(s["hist"]) or b""):
                        viol.append((dict(kind="history-content"), "history was written although the model says nothing is written", False))
            # ---- state comparison with the model (probe)
            pj = o.get("probe_json")
            if pj and m and not sk and "cfg" in m:
                diffs = [k for k in m["cfg"] if pj["cfg"].get(k) != m["cfg"][k]]
                for k in diffs:
                    viol.append((dict(kind="setting-not-effective", option=k),
                                 "C19 fails: option %s is %r, the configuration file gives %r (config %r)" % (k, pj["cfg"].get(k), m["cfg"][k], s["config"]), True))
                mb = None if m["base"] == "-" else m["base"]
                mt_from, mt_n = m["table"].split(":")
                if (pj["from_file"], pj["ntable"]) != (mt_from == "file", int(mt_n)):
                    viol.append((dict(kind="table-choice"), "C19 fails: the table in use has %d rows (from file: %s), expected %s (currency %r)"
                                 % (pj["ntable"], pj["from_file"], m["table"], s["cur"]), True))
                elif pj["base"] != mb:
                    viol.append((dict(kind="base-currency"), "base currency %r, model %r" % (pj["base"], mb), False))
                elif (pj["cash"] if pj["cash"] is not None else "-") != (int(m["cash"]) if m["cash"] != "-" else "-"):
                    viol.append((dict(kind="cash-units"), "%r cash units registered, model %s (currency %r)" % (pj["cash"], m["cash"], s["cur"]), False))
                iw = [t for t in warn_tags(pj["cfgwarn"])]
                mw = [t for t in m["cfgwarn"].split(";") if t]
                if iw != mw:
                    viol.append((dict(kind="config-warnings"), "read_config warnings %r, model %r (config %r)" % (iw, mw, s["config"]), False))
                ip = sorted(set(t for t in warn_tags(o["probe"]["err"]) if t == "currency-fallback"))
                mp = sorted(set(t for t in m["printed"].split(";") if t))
                if ip != mp:
                    viol.append((dict(kind="currency-message"), "stderr at import %r, model %r (currency %r)" % (ip, mp, s["cur"]), False))
        if m and "crash" in m and not (crashed and crashed[1][0] == m["crash"]):
            viol.append((dict(kind="model-crash", exception=m["crash"]), "the model predicts a crash (%s) — contradicts C19_starts" % m["crash"], False))
        key = "crash" if crashed else ("ok" if not viol else "differs")
        hist_outcome[key] = hist_outcome.get(key, 0) + 1
        if viol:
            disagreements += 1
        for sig, text, found in viol:
            all_viol.append((root_cause(s, m, sig), text, replay, found))
        if len(samples) < 8 and i % 97 == 3:
            samples.append(dict(scenario=dict(tag=s["tag"], config=s["config"], cur=[s["cur"][0]], hist=[s["hist"][0]]),
                                model=(model[i][:160] if model else None),
                                impl={k: (o[k]["rc"], o[k]["out"][-40:]) for k in s["runs"] if k != "probe"}))
    # failing inputs first, so that a signature's headline is the failing input
    all_viol.sort(key=lambda v: (not v[3], "escapes at" not in v[1]))
    for sig, text, replay, found in all_viol:
        rep.violation(sig, text, replay, found_input=found)
    rep.coverage.update(dict(
        evaluations=len(jobs), distinct_nontrivial=nontrivial, scenarios=len(scenarios),
        rule="scenarios = regression corpus; every state {missing, empty, directory, unreadable, binary garbage}^3 of (config, currency, history) "
             "+ 3 layouts of ~/.config; config line grammar (known/unknown/empty keys x 0-3 separators x typed/ill-typed/negative/over-large values, "
             "%s single lines + random multi-line files with LF/CRLF/CR); currency line grammar (short, bad float, zero/negative/nan/inf, blank, unit clashes, "
             "duplicates, redirected / impossible currency-path, base-currency present/absent); history (texts incl. NUL and CRLF, 7 redirected path kinds x states, "
             "disabled / ill-typed save-history); random combinations.  Each scenario is observed through up to 4 real subprocesses; "
             "non-trivial = at least one of the three files is not simply missing" % ("all" if not quick else "a 110-line sample of the"),
        exhaustive=False, exhaustive_slices=["5^3 file states", "all single config lines of the pool (thorough tier)"],
        samples=samples, outcome_histogram=hist_outcome, scenario_kinds=tags_count,
        traces_validated_against_impl=len(scenarios) if model else 0, disagreements=disagreements,
        kernel_lane_cases=len(model) if model else 0,
        model_declined=sum(1 for x in skips if x),
        fault_constructions=["unreadable: symlink to /proc/self/mem (read raises OSError EIO)",
                             "ENOTDIR: path below a regular file", "non-creatable directory: /proc/ka_no_such_dir/sub",
                             "undecodable: 200 bytes starting ff fe"]))
    rep.assumptions += [
        "file states beyond {missing, directory, unreadable, bytes} (FIFOs, devices, races, disk full) are not constructed; the model covers arbitrary OSError answers on writing",
        "ASCII white space / digits only in the model (Python also strips Unicode spaces and reads Unicode digits)",
        "float() and the NFKD/ASCII name reduction are supplied to the model by CPython per scenario",
        "'nan'/'inf'/negative rate texts: only the fail-soft oracle is applied (the model does not predict the table)",
        "cli passes no error_out to read_config, so configuration warnings are observed through a direct call in the probe",
    ]
