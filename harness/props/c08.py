"""C08 — event probabilities equal the distribution's mass on the condition as written.
Theorems: coq/Properties/C08.v (generic over discrete laws with cdf = running sum of pmf, all
rational thresholds, 8 single + 8 double written forms; instantiation for the five discrete laws;
continuous laws over an abstract cdf; bounds, complements, means, parameter validation).
Tie: execute("P(...)") / "E(...)" / "mean(...)" on a grid of laws x parameters x thresholds x
written forms, against Model/Prob.v evaluated in the Coq VM and against an independent
textbook oracle (Python Fractions; exp/erf from decimal series at 60 digits — validation, not
proof); plus the property's own relations measured on the implementation alone."""
import json, math, random, itertools
from fractions import Fraction
from decimal import Decimal, getcontext
import common as C

ID = "C08"
COQ_TARGETS = ["Properties/C08.vo", "GenFacts/ProbSrcFacts.vo"]
MODEL_TARGETS = ["Model/Prob.vo"]
IMPORTS = "From Ka Require Import Model.Prob.\nOpen Scope string_scope.\nOpen Scope Q_scope.\n"

TRUSTED_EXTRA = ["libm's exp and erf (math.exp, math.erf): Poisson/Exponential/Gaussian values are proved only relative to "
                 "abstract functions with the stated monotonicity/range facts and validated numerically to 1e-12"]

TOL = Fraction(1, 10 ** 12)
FAR = 50

# ------------------------------------------------------------------ numbers
# a number is ["i", n] | ["f", a, b] (the Fraction a/b written "(a/b)") | ["x", "2.5"] (float literal)
def I(n): return ["i", int(n)]
def F(a, b): return ["f", int(a), int(b)]
def X(s): return ["x", str(s)]


def val(n):
    if n[0] == "i":
        return Fraction(n[1])
    if n[0] == "f":
        return Fraction(n[1], n[2])
    s = n[1]
    return Fraction(float(s))          # the float the lexer produces: float(raw)


def is_float(n):
    return n[0] == "x"


def ka_num(n):
    if n[0] == "i":
        return str(n[1]) if n[1] >= 0 else "(%d)" % n[1]
    if n[0] == "f":
        return "(%d/%d)" % (n[1], n[2])
    return n[1] if not n[1].startswith("-") else "(%s)" % n[1]


def coq_Q(q):
    q = Fraction(q)
    return "(Qmake %s %d%%positive)" % (C.coq_Z(q.numerator), q.denominator)


def num_kind(n):
    v = val(n)
    if is_float(n):
        return "float"
    return "int" if v.denominator == 1 else "frac"


# ------------------------------------------------------------------ reference exp / erf (validation only)
getcontext().prec = 70
_exp_cache, _erf_cache = {}, {}


def _to_frac(d, digits=50):
    return Fraction(d.quantize(Decimal(1).scaleb(-digits))) if abs(d) < Decimal(10) ** 15 else Fraction(d)


def ref_expneg(y):
    """exp(-y) for a rational y, to ~50 digits"""
    y = Fraction(y)
    if y not in _exp_cache:
        d = Decimal(y.numerator) / Decimal(y.denominator)
        if d > 400:
            _exp_cache[y] = Fraction(0)
        else:
            _exp_cache[y] = _to_frac((-d).exp())
    return _exp_cache[y]


def ref_erfs(z):
    """erf(z / sqrt 2) for a rational z, to ~45 digits (Taylor series in decimal, 70 digits)"""
    z = Fraction(z)
    if z not in _erf_cache:
        u = (Decimal(z.numerator) / Decimal(z.denominator)) / Decimal(2).sqrt()
        if abs(u) > 8:
            r = Fraction(1 if u > 0 else -1)
        else:
            getcontext().prec = 120
            term = u
            total = u
            n = 0
            u2 = u * u
            while abs(term) > Decimal(10) ** -70 or n < 5:
                n += 1
                term = -term * u2 / n
                total += term / (2 * n + 1)
                if n > 2000:
                    break
            pi = _pi()
            r = _to_frac(total * 2 / pi.sqrt())
            getcontext().prec = 70
        _erf_cache[z] = r
    return _erf_cache[z]


_PI = []


def _pi():
    if not _PI:
        # Machin: pi = 16 atan(1/5) - 4 atan(1/239)
        def atan_inv(x):
            x = Decimal(x)
            t = 1 / x
            s = t
            n = 1
            x2 = x * x
            while abs(t) > Decimal(10) ** -115:
                t = -t / x2
                n += 2
                s += t / n
            return s
        _PI.append(16 * atan_inv(5) - 4 * atan_inv(239))
    return _PI[0]


# ------------------------------------------------------------------ laws
DISCRETE = ("Binomial", "Poisson", "Geometric", "Bernoulli", "UniformInt")
CONTINUOUS = ("Exponential", "Uniform", "Gaussian")


def valid(law, ps):
    v = [val(p) for p in ps]
    if law == "Binomial":
        return v[0] > 0 and 0 <= v[1] <= 1
    if law == "Poisson":
        return v[0] > 0
    if law in ("Geometric", "Bernoulli"):
        return 0 <= v[0] <= 1
    if law in ("UniformInt", "Uniform"):
        return v[0] <= v[1]
    if law == "Exponential":
        return v[0] > 0
    if law == "Gaussian":
        return v[1] > 0


def support(law, ps):
    v = [val(p) for p in ps]
    if law == "Binomial":
        return 0, int(v[0])
    if law == "Poisson":
        return 0, 8
    if law == "Geometric":
        return 1, 8
    if law == "Bernoulli":
        return 0, 1
    if law == "UniformInt":
        return int(v[0]), int(v[1])
    if law == "Uniform":
        return math.floor(v[0]), math.ceil(v[1])
    if law == "Exponential":
        return 0, 4
    if law == "Gaussian":
        return math.floor(v[0] - 2 * v[1]), math.ceil(v[0] + 2 * v[1])


def ka_law(law, ps):
    return "%s(%s)" % (law, ", ".join(ka_num(p) for p in ps))


def coq_law(law, ps):
    v = [val(p) for p in ps]
    if law == "Binomial":
        return "(Binomial %s %s)" % (C.coq_Z(int(v[0])), coq_Q(v[1]))
    if law == "UniformInt":
        return "(UniformInt %s %s)" % (C.coq_Z(int(v[0])), C.coq_Z(int(v[1])))
    return "(%s %s)" % (law, " ".join(coq_Q(x) for x in v))


# textbook mass functions / distribution functions (the oracle; independent of the model)
def spec_pmf(law, v, k):
    if law == "Binomial":
        n, p = int(v[0]), v[1]
        return Fraction(math.comb(n, k)) * p ** k * (1 - p) ** (n - k) if 0 <= k <= n else Fraction(0)
    if law == "Poisson":
        return v[0] ** k / math.factorial(k) * ref_expneg(v[0]) if k >= 0 else Fraction(0)
    if law == "Geometric":
        return (1 - v[0]) ** (k - 1) * v[0] if k >= 1 else Fraction(0)
    if law == "Bernoulli":
        return v[0] if k == 1 else (1 - v[0] if k == 0 else Fraction(0))
    if law == "UniformInt":
        return Fraction(1, int(v[1] - v[0]) + 1) if v[0] <= k <= v[1] else Fraction(0)


def spec_cdf(law, v, x):
    if law == "Uniform":
        lo, hi = v
        if x < lo:
            return Fraction(0)
        if x >= hi:
            return Fraction(1)
        return (x - lo) / (hi - lo)
    if law == "Exponential":
        return Fraction(0) if x <= 0 else 1 - ref_expneg(v[0] * x)
    if law == "Gaussian":
        return (1 + ref_erfs((x - v[0]) / v[1])) / 2


REL = {"<": lambda a, b: a < b, "<=": lambda a, b: a <= b, ">": lambda a, b: a > b, ">=": lambda a, b: a >= b}
FWD, BACK = ("<", "<="), (">", ">=")
NEG = {"<": ">=", "<=": ">", ">": "<=", ">=": "<"}
COQ_REL = {"<": "Rlt", "<=": "Rle", ">": "Rgt", ">=": "Rge", "=": "Req"}


def spec(case):
    """Expected observable by the property's text: Fraction | 'E:<class>'."""
    law, ps, form = case["law"], case["params"], case["form"]
    if not valid(law, ps):
        return "E:InvalidParameterException"
    v = [val(p) for p in ps]
    kind = form[0]
    if kind == "mean":
        if law == "Binomial": return v[0] * v[1]
        if law == "Poisson": return v[0]
        if law == "Geometric": return "E:ZeroDivisionError" if v[0] == 0 else 1 / v[0]
        if law == "Bernoulli": return v[0]
        if law in ("UniformInt", "Uniform"): return (v[0] + v[1]) / 2
        if law == "Exponential": return 1 / v[0]
        if law == "Gaussian": return v[0]
    if kind == "point":
        if law in CONTINUOUS:
            return "E:NoMatchingFunctionSignatureError"
        return spec_pmf(law, v, int(val(form[1])))
    L = support(law, ps)[0]
    if kind == "single":
        _, side, r, tn = form
        t = val(tn)
        cond = (lambda k: REL[r](k, t)) if side == "L" else (lambda k: REL[r](t, k))
        bounded = (side == "L") == (r in FWD)
        if law in CONTINUOUS:
            Ft = spec_cdf(law, v, t)
            return Ft if bounded else 1 - Ft
        top = max(math.ceil(t), L) + 2
        if bounded:
            return sum((spec_pmf(law, v, k) for k in range(L, top + 1) if cond(k)), Fraction(0))
        return 1 - sum((spec_pmf(law, v, k) for k in range(L, top + 1) if not cond(k)), Fraction(0))
    if kind == "double":
        _, an, r1, r2, bn = form
        a, b = val(an), val(bn)
        if not ((r1 in FWD and r2 in FWD) or (r1 in BACK and r2 in BACK)):
            return "E:UnknownFunctionError"
        if law in CONTINUOUS:
            lo, hi = (a, b) if r1 in FWD else (b, a)
            return max(spec_cdf(law, v, hi) - spec_cdf(law, v, lo), Fraction(0))
        top = max(math.ceil(a), math.ceil(b), L) + 2
        return sum((spec_pmf(law, v, k) for k in range(L, top + 1) if REL[r1](a, k) and REL[r2](k, b)), Fraction(0))
    raise ValueError(kind)


def ka_text(case):
    law, ps, form = case["law"], case["params"], case["form"]
    Xs = ka_law(law, ps)
    k = form[0]
    if k == "mean":
        return "%s(%s)" % (form[1], Xs)
    if k == "point":
        return "P(%s = %s)" % (Xs, ka_num(form[1]))
    if k == "single":
        _, side, r, t = form
        return "P(%s %s %s)" % ((Xs, r, ka_num(t)) if side == "L" else (ka_num(t), r, Xs))
    _, a, r1, r2, b = form
    return "P(%s %s %s %s %s)" % (ka_num(a), r1, Xs, r2, ka_num(b))


def thresholds_of(case):
    f = case["form"]
    if f[0] == "single":
        return [val(f[3])]
    if f[0] == "double":
        return [val(f[1]), val(f[4])]
    return []


def coq_case(case):
    law, ps, form = case["law"], case["params"], case["form"]
    v = [val(p) for p in ps]
    et, ft = [], []
    if valid(law, ps):
        if law == "Poisson":
            et.append((v[0], ref_expneg(v[0])))
        if law == "Exponential":
            for t in thresholds_of(case):
                if t >= 0:
                    et.append((v[0] * t, ref_expneg(v[0] * t)))
        if law == "Gaussian":
            for t in thresholds_of(case):
                z = (t - v[0]) / v[1]
                ft.append((z, ref_erfs(z)))
    tbl = lambda l: "[" + "; ".join("(%s, %s)" % (coq_Q(a), coq_Q(b)) for a, b in l) + "]"
    fo = "(flops_of %s %s)" % (tbl(et), tbl(ft))
    cl = coq_law(law, ps)
    k = form[0]
    if k == "mean":
        return "(mean_of %s)" % cl
    if k == "point":
        return "(P_law %s %s (fun X => W1 (TRv X) Req (TNum %s)))" % (fo, cl, coq_Q(val(form[1])))
    if k == "single":
        _, side, r, t = form
        return "(P_law %s %s (fun X => wsingle X %s %s %s))" % (fo, cl, "XLeft" if side == "L" else "XRight", COQ_REL[r], coq_Q(val(t)))
    _, a, r1, r2, b = form
    return "(P_law %s %s (fun X => wdouble X %s %s %s %s))" % (fo, cl, coq_Q(val(a)), COQ_REL[r1], COQ_REL[r2], coq_Q(val(b)))


# ------------------------------------------------------------------ generation
QUICK_INSTANCES = [
    ("Binomial", [I(10), F(3, 10)]), ("Binomial", [I(3), X("0.5")]), ("Binomial", [I(2), I(0)]),
    ("Poisson", [I(3)]),
    ("Geometric", [F(1, 3)]), ("Geometric", [I(0)]),
    ("Bernoulli", [F(1, 3)]), ("Bernoulli", [X("0.3")]),
    ("UniformInt", [I(1), I(10)]), ("UniformInt", [I(3), I(3)]),
    ("Uniform", [I(0), I(10)]), ("Uniform", [I(1), I(1)]),
    ("Exponential", [F(1, 2)]),
    ("Gaussian", [I(0), I(1)]),
]
MORE_INSTANCES = [
    ("Binomial", [I(1), F(1, 2)]), ("Binomial", [I(3), F(1, 2)]), ("Binomial", [I(5), I(1)]),
    ("Binomial", [I(7), F(2, 3)]), ("Binomial", [I(4), X("0.3")]),
    ("Poisson", [I(1)]), ("Poisson", [I(10)]),
    ("Geometric", [F(1, 2)]), ("Geometric", [I(1)]), ("Geometric", [X("0.25")]),
    ("Bernoulli", [I(0)]), ("Bernoulli", [I(1)]),
    ("UniformInt", [I(-2), I(2)]), ("UniformInt", [I(0), I(1)]), ("UniformInt", [I(-5), I(-1)]),
    ("Uniform", [F(-1, 2), F(3, 2)]), ("Uniform", [X("0.5"), X("2.5")]), ("Uniform", [I(-3), I(-1)]),
    ("Exponential", [I(1)]), ("Exponential", [X("2.5")]), ("Exponential", [F(1, 3)]),
    ("Gaussian", [F(1, 2), F(1, 3)]), ("Gaussian", [I(-1), X("2.5")]), ("Gaussian", [I(3), I(2)]),
]
INVALID_INSTANCES = [
    ("Binomial", [I(0), F(1, 2)]), ("Binomial", [I(-1), F(1, 2)]), ("Binomial", [I(3), F(3, 2)]),
    ("Binomial", [I(3), F(-1, 2)]), ("Binomial", [I(3), X("1.5")]), ("Binomial", [I(0), I(2)]),
    ("Poisson", [I(0)]), ("Poisson", [I(-2)]),
    ("Geometric", [F(-1, 2)]), ("Geometric", [I(2)]), ("Geometric", [X("1.25")]),
    ("Bernoulli", [X("-0.1")]), ("Bernoulli", [F(3, 2)]),
    ("UniformInt", [I(3), I(2)]), ("UniformInt", [I(0), I(-1)]),
    ("Exponential", [I(0)]), ("Exponential", [I(-1)]), ("Exponential", [F(-1, 3)]),
    ("Uniform", [I(3), I(2)]), ("Uniform", [X("2.5"), I(1)]),
    ("Gaussian", [I(0), I(0)]), ("Gaussian", [I(1), F(-1, 2)]),
]
SINGLE_SHAPES = [(s, r) for s in "LR" for r in ("<", "<=", ">", ">=")]
DOUBLE_SHAPES = [(r1, r2) for r1 in FWD for r2 in FWD] + [(r1, r2) for r1 in BACK for r2 in BACK]
MIXED_SHAPES = [(r1, r2) for r1 in FWD for r2 in BACK] + [(r1, r2) for r1 in BACK for r2 in FWD]


def half(k):
    return F(2 * k + 1, 2)


def dedup(nums):
    seen, out = set(), []
    for n in nums:
        key = json.dumps(n)
        if key not in seen:
            seen.add(key)
            out.append(n)
    return out


def instance_cases(law, ps, tier):
    L, U = support(law, ps)
    mid = (L + U) // 2
    if tier == "quick":
        ints = sorted(set(list(range(L - 2, L + 2)) + [mid] + list(range(U - 1, U + 3))))
        halves = [half(k) for k in (L - 2, L - 1, L, mid, U - 1, U, U + 1)]
        floats = [X("%d.5" % L if L >= 0 else "-%d.5" % (-L - 1)), X("%d.25" % (U if U >= 0 else 0))]
        odd = [F(3 * L + 1, 3)]
        dbl = [I(L - 1), I(L), half(L), I(mid + 1), half(U), I(U + FAR)]
    else:
        span = list(range(L - 2, U + 3))
        if len(span) > 17:
            span = list(range(L - 2, L + 4)) + [mid - 1, mid, mid + 1] + list(range(U - 3, U + 3))
        ints = sorted(set(span))
        halves = [half(k) for k in ints[:-1]]
        floats = [X("%d.5" % k) if k >= 0 else X("-%d.5" % (-k - 1)) for k in (L - 1, L, mid, U)] + [X("%d.3" % max(L, 0))]
        odd = [F(3 * L + 1, 3), F(3 * U - 1, 3), F(7 * mid + 3, 7)]
        dbl = [I(L - 1), I(L), half(L), I(L + 1), I(mid + 1), half(mid), I(U), half(U), I(U + 1), I(U + FAR),
               I(L - FAR), X("%d.5" % max(mid, 0))]
    far = [I(L - FAR), I(U + FAR)]
    ths = dedup([I(k) for k in ints] + far + halves + floats + odd)
    dbl = dedup(dbl)
    cases = []
    mk = lambda form: dict(law=law, params=ps, form=form)
    for t in ths:
        for s, r in SINGLE_SHAPES:
            cases.append(mk(["single", s, r, t]))
    for a in dbl:
        for b in dbl:
            for r1, r2 in DOUBLE_SHAPES:
                cases.append(mk(["double", a, r1, r2, b]))
    for r1, r2 in MIXED_SHAPES:
        cases.append(mk(["double", I(L), r1, r2, I(U + 1)]))
    pts = list(range(L - 3, U + FAR + 2)) + [L - FAR]
    if law in CONTINUOUS:
        pts = [L, U]
    for k in pts:
        cases.append(mk(["point", I(k)]))
    for fn in ("E", "mean"):
        cases.append(mk(["mean", fn]))
    return cases


def invalid_cases(law, ps):
    mk = lambda form: dict(law=law, params=ps, form=form)
    out = [mk(["single", "L", "<=", I(1)]), mk(["single", "R", "<", F(1, 2)]), mk(["single", "L", ">", I(1)]),
           mk(["double", I(0), "<", "<=", I(2)]), mk(["double", I(2), ">=", ">", I(0)]),
           mk(["double", I(0), "<", ">", I(2)]), mk(["mean", "E"]), mk(["mean", "mean"])]
    if law in DISCRETE:
        out.append(mk(["point", I(1)]))
    return out


# regression corpus: inputs that were wrong before the recorded fixes; all must hold
CORPUS = [
    ("P(Bernoulli(0.3) <= 2)", Fraction(1)),
    ("P(Poisson(3) = -1)", Fraction(0)),
    ("P(UniformInt(1,10) <= 2.5)", Fraction(1, 5)),
    ("P(UniformInt(1,10) < 2.5)", Fraction(1, 5)),
    ("P(Binomial(3,0.5) <= 5/2)", Fraction(7, 8)),
    ("P(2.5 <= UniformInt(1,10))", Fraction(4, 5)),
]
# probes beyond the grid: thresholds far beyond any support, counts deep in a tail, thresholds that
# are lazy combinatorics.  (text, expected value, root cause if it fails)
PROBES = [
    ("P(Binomial(3,1/2) <= 10^30)", Fraction(1), "Binomial.cdf iterates range(x+1)"),
    ("P(10^30 < Binomial(3,1/2))", Fraction(0), "Binomial.cdf iterates range(x+1)"),
    ("P(1 <= Binomial(3,1/2) <= 10^30)", Fraction(7, 8), "Binomial.cdf iterates range(x+1)"),
    ("P(Binomial(3,1/2) <= -(10^30))", Fraction(0), "Binomial.cdf iterates range(x+1)"),
    ("P(Binomial(3,1/2) = 10^30)", Fraction(0), "Binomial.pmf"),
    ("P(Poisson(3) <= 10^30)", Fraction(1), "Poisson.cdf sums range(x+1) terms with exact big integers"),
    ("P(Poisson(3) <= 30000)", Fraction(1), "Poisson.cdf sums range(x+1) terms with exact big integers"),
    ("P(Poisson(3) <= -(10^30))", Fraction(0), "Poisson.cdf"),
    ("P(Poisson(3) = 700)", Fraction(0), "Poisson.pmf multiplies the exact integer mu**x by a float"),
    ("P(Poisson(3) = 10^30)", Fraction(0), "Poisson.pmf multiplies the exact integer mu**x by a float"),
    ("P(Geometric(0.5) <= 10^30)", Fraction(1), "Geometric.cdf"),
    ("P(Geometric(1) <= 10^30)", Fraction(1), "Geometric.cdf"),
    ("P(Geometric(0) <= 10^30)", Fraction(0), "Geometric.cdf"),
    ("P(Bernoulli(1/2) <= 10^30)", Fraction(1), "Bernoulli.cdf"),
    ("P(UniformInt(1,10) <= 10^30)", Fraction(1), "UniformInt.cdf"),
    ("P(UniformInt(1,10) > -(10^30))", Fraction(1), "UniformInt.cdf"),
    ("P(Uniform(0,1) <= 10^30)", Fraction(1), "Uniform.cdf"),
    ("P(Exponential(1) <= 10^30)", Fraction(1), "Exponential.cdf"),
    ("P(Gaussian(0,1) <= 10^30)", Fraction(1), "Gaussian.cdf"),
    ("P(Gaussian(0,1) <= -(10^30))", Fraction(0), "Gaussian.cdf"),
    ("P(Binomial(3,1/2) <= 2!)", Fraction(7, 8), "lazy threshold"),
    ("P(2! <= Binomial(3,1/2))", Fraction(1, 2), "lazy threshold"),
    ("P(1! < Binomial(3,1/2) <= 3!/3)", Fraction(3, 8), "lazy threshold"),
    ("P(Uniform(0,10) <= 3!)", Fraction(3, 5), "lazy threshold"),
    ("P(Geometric(1/2) < C(3,1))", Fraction(3, 4), "lazy threshold"),
    ("E(Uniform(1!,3!))", Fraction(7, 2), "lazy parameter"),
]


# ------------------------------------------------------------------ implementation side
def impl_case(text):
    return C.observe(text)


def parse_value(enc):
    """-> (Fraction, exact?) or None"""
    if enc is None:
        return None
    tag, body = enc[:2], enc[2:]
    if tag == "I:":
        return Fraction(int(body)), True
    if tag == "F:":
        a, b = body.split("/")
        return Fraction(int(a), int(b)), True
    if tag == "X:":
        f = float.fromhex(body)
        if f != f or f in (float("inf"), float("-inf")):
            return None
        return Fraction(f), False
    return None


def outcome(o):
    """normalised observable of one execute(): ('val', Fraction, exact) | ('err', class, diagnosed?) | ('hung',) | ('escaped', class)"""
    if o.get("hung"):
        return ("hung",)
    if o.get("escaped"):
        return ("escaped", o["escaped"])
    if o.get("status") == 0:
        pv = parse_value(o.get("value"))
        if pv is None:
            return ("other", o.get("value"))
        return ("val", pv[0], pv[1])
    cls = (o.get("raw") or "E:?")[2:]
    diagnosed = o.get("status") == 1 and o.get("out") == "" and (o.get("err") or "").strip() != ""
    return ("err", cls, diagnosed)


def show_outcome(oc):
    if oc[0] == "val":
        v = oc[1]
        return ("%s" % v) + ("" if oc[2] else " (float %r)" % float(v))
    if oc[0] == "err":
        return "error %s%s" % (oc[1], "" if oc[2] else " (not cleanly diagnosed)")
    if oc[0] == "hung":
        return "no result within the time limit"
    return "%s %s" % (oc[0], oc[1])


def close(a, b, tol=TOL):
    return abs(a - b) <= tol * max(1, abs(a), abs(b))


EXACT_LAWS = ("Binomial", "Geometric", "Bernoulli", "UniformInt", "Uniform")


def strict_case(case):
    """Is the expected value an exact rational that an exact (int/Fraction) result must equal?  Only when
    the law is computed by rational arithmetic and no float literal enters; otherwise an integral float is
    delivered as an int by simplify_number and only closeness can be asked."""
    if case["law"] not in EXACT_LAWS or any(is_float(p) for p in case["params"]):
        return False
    f = case["form"]
    nums = [f[3]] if f[0] == "single" else [f[1], f[4]] if f[0] == "double" else []
    return not any(is_float(n) for n in nums)


def agrees(oc, exp, strict=False):
    """does the implementation's outcome equal the expected observable?"""
    if isinstance(exp, str):
        return oc[0] == "err" and oc[1] == exp[2:] and oc[2]
    if oc[0] != "val":
        return False
    if oc[2] and strict:
        return oc[1] == exp
    return close(oc[1], exp)


def parse_model(s):
    if s.startswith("E:"):
        return s
    a, b = s.split("/")
    return Fraction(int(a), int(b))


def tkind(case):
    ks = [num_kind(n) for n in ([case["form"][3]] if case["form"][0] == "single" else
                                [case["form"][1], case["form"][4]] if case["form"][0] == "double" else [])]
    L, U = support(case["law"], case["params"])
    far = any(abs(t) > abs(U) + 20 or abs(t) > abs(L) + 20 for t in thresholds_of(case))
    return ("far-" if far else "") + ("float" if "float" in ks else "frac" if "frac" in ks else "int")


def shape(case):
    f = case["form"]
    if f[0] == "single":
        return "X %s t" % f[2] if f[1] == "L" else "t %s X" % f[2]
    if f[0] == "double":
        return "a %s X %s b" % (f[2], f[3])
    if f[0] == "point":
        return "X = k"
    return f[1] + "(X)"


def describe_expected(case, exp):
    if isinstance(exp, str):
        return "the expected outcome is a diagnosed %s" % exp[2:]
    if case["form"][0] == "mean":
        return "the distribution's mean is %s" % exp
    if case["law"] in CONTINUOUS:
        return "the corresponding difference of the true cdf is %s" % (exp if exp.denominator < 10 ** 12 else "%.15g" % float(exp))
    return "the mass on the integers satisfying the condition as written is %s" % (exp if exp.denominator < 10 ** 12 else "%.15g" % float(exp))


def run(ctx):
    C.seam_check(ctx["report"], ctx["rundir"], "C08", wrappers=[],
                 pairs=[("X = Binomial(10, 0.3); A = 3 <= X <= 7; P(A); P(A)", "P(3 <= Binomial(10, 0.3) <= 7)"),
                        ("X = Binomial(10, 0.3); A = 3 <= X <= 7; P(A); P(A); P(A)", "P(3 <= Binomial(10, 0.3) <= 7)"),
                        ("B = 5 >= UniformInt(1, 6) >= 2; {P(B) : i in 1..3}", "{P(5 >= UniformInt(1, 6) >= 2) : i in 1..3}".replace("P(5", "0 + P(5")),
                        ("X = Poisson(3); P(X > 1000); P(X <= 2)", "P(Poisson(3) <= 2)"), ("X = Poisson(3); P(X > 1000); P(X >= 4)", "P(Poisson(3) >= 4)"),
                        ("Y = Poisson(2); P(Y < 10^6) * P(Y <= 1)", "P(Poisson(2) <= 1)"), ("X = Poisson(3); P(X <= 2); P(X <= 2)", "P(Poisson(3) <= 2)"),
                        ("X = Geometric(1/3); E = X <= 2; P(E) + P(E)", "2 * P(Geometric(1/3) <= 2)")])
    C.expect_sessions(ctx["report"], ctx["rundir"], "C08",
                      [(["X = Binomial(10, 0.3)", "pi = 5", "P(X <= pi) > 0.95"], "I:1", "a threshold stored under the name pi in an earlier input"),
                       (["e = Poisson(3)", "P(e < 2) < 0.2"], "I:1", "a distribution stored under the name e in an earlier input"),
                       (["X = Poisson(3)", "P(X > 1000)", "P(X <= 2) < 0.5"], "I:1", "a far query on a stored Poisson, then an ordinary one")])
    C.config_matrix(ctx["report"], ctx["rundir"], "C08", ["P(Binomial(10,0.3) <= 5)", "P(3 <= Binomial(10,0.3) <= 7)", "P(Poisson(3) <= 2)", "P(Gaussian(0,1) < 1)", "E(UniformInt(1,10))", "P(Binomial(0,1/2) <= 1)", "X = Poisson(3); P(X > 1000); P(X <= 2)", "X = Binomial(10, 0.3); A = 3 <= X <= 7; P(A); P(A)", "pi = 5; P(Binomial(10,0.3) <= pi)"])
    rep, tier, seed = ctx["report"], ctx["tier"], ctx["seed"]
    rng = random.Random(seed * 104729 + 8)
    # ---------------- 0. regression corpus and probes (run first)
    fixed_texts = [t for t, _ in CORPUS] + [t for t, _, _ in PROBES]
    fixed_obs = C.run_impl(impl_case, fixed_texts, ctx["rundir"], limit=6.0, chunksize=1)
    fixed_oc = [outcome(o) for o in fixed_obs]
    n_corpus_ok = 0
    for (text, exp), oc in zip(CORPUS, fixed_oc):
        if agrees(oc, exp) or (oc[0] == "val" and close(oc[1], exp)):
            n_corpus_ok += 1
        else:
            rep.violation(dict(kind="regression", input=text),
                          "C08 regression: %s gives %s, the mass on the condition is %s" % (text, show_outcome(oc), exp),
                          dict(text=text, impl=show_outcome(oc), expected=str(exp)))
    probe_hist = {}
    for (text, exp, cause), oc in zip(PROBES, fixed_oc[len(CORPUS):]):
        ok = oc[0] == "val" and close(oc[1], exp)
        cls = "ok" if ok else oc[0] if oc[0] != "err" else "err:" + oc[1]
        probe_hist[cls] = probe_hist.get(cls, 0) + 1
        if not ok:
            rep.violation(dict(kind="no-value" if oc[0] != "val" else "wrong-value", cause=cause, outcome=cls),
                          "C08 fails on the implementation: %s gives %s; the mass on the condition as written is %s (%s)"
                          % (text, show_outcome(oc), exp, cause),
                          dict(text=text, impl=show_outcome(oc), expected=str(exp), cause=cause))
    # ---------------- 0a'. parameters that are not of the law's kind at all (a non-integer number of trials, mean or
    # bound): "invalid parameters are rejected" — a diagnosed error, never a probability, a mean or an escaped exception
    REJECT = ["Binomial(5/2, 1/2)", "Binomial(2.5, 0.5)", "Binomial(7/2, 0.5)", "Poisson(5/2)", "Poisson(2.5)",
              "UniformInt(1/2, 3)", "UniformInt(1, 2.5)", "Binomial(3!/4, 1/2)"]
    rej_texts = []
    for rv in REJECT:
        rej_texts += ["P(%s <= 1)" % rv, "P(%s <= 5)" % rv, "P(1 < %s < 3)" % rv, "P(%s = 1)" % rv, "E(%s)" % rv, "mean(%s)" % rv]
    for text, oc in zip(rej_texts, [outcome(o) for o in C.run_impl(impl_case, rej_texts, ctx["rundir"], limit=10.0)]):
        if not (oc[0] == "err" and oc[2]):
            rep.violation(dict(kind="invalid-parameter-accepted", law=text.split("(")[1], outcome=oc[0]),
                          "C08 fails on the implementation: %s gives %s; a law with such a parameter must be rejected with a diagnosed error"
                          % (text, show_outcome(oc)), dict(text=text, impl=show_outcome(oc), expected="a diagnosed error"))
    # ---------------- 0a''. thresholds beyond the float range on the continuous laws: either a diagnosed error (the
    # threshold cannot be converted) or the true cdf value there, never the value of the opposite tail
    FAR_T = [("P(Gaussian(0,1) <= -(10^400))", 0), ("P(Gaussian(0,1) > -(10^400))", 1), ("P(Gaussian(0,1) <= 10^400)", 1),
             ("P(-(10^400) < Gaussian(0,1) < 0)", Fraction(1, 2)), ("P(0 < Gaussian(0,1) < 10^400)", Fraction(1, 2)),
             ("P(Exponential(1) <= -(10^400))", 0), ("P(Exponential(1) <= 10^400)", 1), ("P(Exponential(1) > 10^400)", 0),
             ("P(Uniform(0,1) <= -(10^400))", 0), ("P(Uniform(0,1) <= 10^400)", 1), ("P(Gaussian(0,1) <= -1e308)", 0),
             ("P(Gaussian(5,2) >= -(10^400))", 1), ("P(Gaussian(5,2) < -(10^400))", 0)]
    for (text, exp), oc in zip(FAR_T, [outcome(o) for o in C.run_impl(impl_case, [t for t, _ in FAR_T], ctx["rundir"], limit=10.0)]):
        ok = (oc[0] == "err" and oc[2]) or (oc[0] == "val" and close(oc[1], Fraction(exp)))
        if not ok:
            rep.violation(dict(kind="wrong-value" if oc[0] == "val" else "no-value", cause="threshold beyond the float range", outcome=oc[0]),
                          "C08 fails on the implementation: %s gives %s; the cumulative distribution function there is %s (a diagnosed error would also do)"
                          % (text, show_outcome(oc), exp), dict(text=text, impl=show_outcome(oc), expected=str(exp)))
    # ---------------- 0a-seams. the same events reached through arrays, comprehensions (body and condition), variables:
    # the same probability, and an invalid parameter is refused there too (never swallowed into "condition false")
    C.seam_check(rep, ctx["rundir"], "C08",
                 texts=["P(Binomial(3,1/2) <= 1)", "P(Binomial(0,1/2) <= 1)", "P(Poisson(0) <= 1)", "P(Geometric(2) <= 1)", "P(UniformInt(3,2) <= 2)",
                        "P(Gaussian(0,0) <= 1)", "P(Exponential(0) <= 1)", "P(Uniform(3,2) <= 1)", "P(Bernoulli(3/2) <= 0)", "E(Binomial(0,1/2))",
                        "P(1 < UniformInt(1,6) <= 4)", "P(Poisson(30) = 0)", "P(2 < Poisson(40) < 9)", "P(Gaussian(0,1) < -7)", "E(UniformInt(1,10))"],
                 wrappers=C.SEAM_WRAPPERS + [C.SEAM_CONDITION],
                 templates=[("P(Binomial(%s, 1/2) >= 2)", ["3", "4", "6"]), ("P(Binomial(%s, 0.5) >= 2) > 0.5", ["0", "4", "6"]), ("P(UniformInt(1, 6) < %s)", ["2", "3", "7/2"]),
                            ("P(UniformInt(1, 6) > %s)", ["2", "3", "7/2"]), ("P(%s < Poisson(3))", ["1", "2", "3"]), ("E(Binomial(%s, 1/3))", ["3", "6"])],
                 pairs=[("X = UniformInt(1, 6); (P(X < 2) < 0.2) + (P(X > 2) > 0.6)", "2"),
                        ("P(Binomial(10,0.5) < 3); P(Binomial(10,0.5) > 3) > 0.8", "1"), ("P(UniformInt(1,6) <= 2); P(UniformInt(1,6) >= 2) > 0.8", "1"),
                        ("P(Poisson(3) < 2); P(2 < Poisson(3)) > 0.5", "1"), ("P(Geometric(1/3) <= 2); P(2 <= Geometric(1/3)) > 0.6", "1"),
                        ("P(Binomial(10,0.5) > 3); P(Binomial(10,0.5) < 3) < 0.1", "1")])
    # ---------------- 0b. deep-tail consistency of a discrete law with a large mean: the point mass must be the
    # difference of the cumulative values (P(X=k) = P(X<=k) - P(X<k)) and satisfy pmf(k+1)/pmf(k) = mu/(k+1),
    # across the place where Poisson.pmf switches to its logarithmic formula (k > 100)
    tail_ks = [98, 99, 100, 101, 102, 103, 120, 150]
    tail_texts = []
    for k in tail_ks:
        tail_texts += ["P(Poisson(100) = %d)" % k, "P(Poisson(100) <= %d)" % k, "P(Poisson(100) < %d)" % k]
    tobs = [outcome(o) for o in C.run_impl(impl_case, tail_texts, ctx["rundir"], limit=10.0, chunksize=1)]
    pm = {}
    for i, k in enumerate(tail_ks):
        eq, le, lt = tobs[3 * i: 3 * i + 3]
        if not all(x[0] == "val" for x in (eq, le, lt)):
            rep.violation(dict(kind="no-value", cause="Poisson tail", outcome="tail"), "C08 fails: P(Poisson(100) ? %d) gives %s / %s / %s" % (k, show_outcome(eq), show_outcome(le), show_outcome(lt)),
                          dict(text="P(Poisson(100) = %d)" % k, impl=[show_outcome(x) for x in (eq, le, lt)]))
            continue
        pm[k] = float(eq[1])
        d = float(le[1]) - float(lt[1])
        if abs(pm[k] - d) > 1e-12 + 1e-9 * abs(d) or not (0 <= pm[k] <= 1):
            rep.violation(dict(kind="wrong-value", cause="Poisson.pmf in the tail", outcome="point-vs-cdf"),
                          "C08 fails on the implementation: P(Poisson(100) = %d) is %r but P(X<=%d) - P(X<%d) is %r" % (k, pm[k], k, k, d),
                          dict(text="P(Poisson(100) = %d)" % k, impl=pm[k], expected=d, spec="mass on {k} = cdf(k) - cdf(k-1)"))
    for k in tail_ks:
        if k in pm and k + 1 in pm and pm[k] > 0 and abs(pm[k + 1] / pm[k] - 100.0 / (k + 1)) > 1e-9:
            rep.violation(dict(kind="wrong-value", cause="Poisson.pmf in the tail", outcome="ratio"),
                          "C08 fails on the implementation: P(Poisson(100) = %d) / P(Poisson(100) = %d) is %r, the law gives %r" % (k + 1, k, pm[k + 1] / pm[k], 100.0 / (k + 1)),
                          dict(text="P(Poisson(100) = %d)" % (k + 1), impl=pm[k + 1], expected=pm[k] * 100.0 / (k + 1)))
    # ---------------- 1. the grid
    if ctx.get("replay"):
        r = json.load(open(ctx["replay"]))
        cases = [x["case"] for x in [r["replay"]] + r.get("more", []) if isinstance(x, dict) and "case" in x]
        insts = []
    else:
        insts = list(QUICK_INSTANCES) + (MORE_INSTANCES if tier != "quick" else [])
        cases = []
        for law, ps in insts:
            cases += instance_cases(law, ps, tier)
        for law, ps in INVALID_INSTANCES:
            cases += invalid_cases(law, ps)
        # seeded random extras: random rational thresholds / pairs on random instances
        n_rand = 300 if tier == "quick" else 3000
        for _ in range(n_rand):
            law, ps = rng.choice(insts)
            L, U = support(law, ps)
            def rnum():
                r = rng.random()
                k = rng.randint(L - 4, U + 4)
                if r < 0.35:
                    return I(k)
                if r < 0.75:
                    d = rng.choice([2, 3, 4, 5, 7, 10])
                    n = F(k * d + rng.randint(1, d - 1), d)
                    return n if val(n).denominator > 1 else I(k)
                return X("%d.%s" % (abs(k), rng.choice(["5", "25", "75", "1", "9"]))) if k >= 0 else X("-%d.5" % (-k))
            if rng.random() < 0.4:
                s, rr = rng.choice(SINGLE_SHAPES)
                cases.append(dict(law=law, params=ps, form=["single", s, rr, rnum()]))
            else:
                r1, r2 = rng.choice(DOUBLE_SHAPES)
                cases.append(dict(law=law, params=ps, form=["double", rnum(), r1, r2, rnum()]))
    # distinct by rendered text
    seen, uniq = set(), []
    for c in cases:
        t = ka_text(c)
        if t not in seen:
            seen.add(t)
            uniq.append(c)
    cases = uniq
    texts = [ka_text(c) for c in cases]
    obs = C.run_impl(impl_case, texts, ctx["rundir"], limit=10.0)
    ocs = [outcome(o) for o in obs]
    model = None
    if ctx["model_ok"]:
        model = C.run_model(ctx["rundir"], "c08", IMPORTS, "show_res show_Qr", [coq_case(c) for c in cases],
                            shard=250, case_type="res Q")
    hist, shapes_hist, law_hist = {}, {}, {}
    exact_n = float_n = 0
    disagreements = 0
    nontrivial = 0
    samples = []
    by_text = {}
    for i, (c, t, oc) in enumerate(zip(cases, texts, ocs)):
        exp = spec(c)
        by_text[t] = (c, oc, exp)
        ek = exp if isinstance(exp, str) else ("0" if exp == 0 else "1" if exp == 1 else "in(0,1)" if 0 < exp < 1 else "other")
        hist[ek] = hist.get(ek, 0) + 1
        shapes_hist[shape(c)] = shapes_hist.get(shape(c), 0) + 1
        law_hist[c["law"]] = law_hist.get(c["law"], 0) + 1
        if not isinstance(exp, str) and (0 < exp < 1 or c["form"][0] == "mean"):
            nontrivial += 1
        if oc[0] == "val":
            exact_n += oc[2]
            float_n += not oc[2]
        m = parse_model(model[i]) if model else None
        if len(samples) < 8 and i % 1237 == 11:
            samples.append(dict(input=t, impl=show_outcome(oc), model=model[i] if model else None, oracle=str(exp)))
        if m is not None:
            m_ok = (m == exp) if isinstance(exp, str) or isinstance(m, str) else (m == exp)
            if not m_ok:
                rep.violation(dict(kind="model-vs-oracle", law=c["law"], form=c["form"][0]),
                              "Gallina model disagrees with the textbook oracle on %s: model %s, oracle %s" % (t, m, exp),
                              dict(case=c, text=t, model=str(m), oracle=str(exp)), found_input=False)
        strict = strict_case(c)
        ok_spec = agrees(oc, exp, strict)
        ok_model = True if m is None else agrees(oc, m, strict)
        if ok_spec and ok_model:
            continue
        disagreements += 1
        if not ok_spec:
            kind = ("hang" if oc[0] == "hung" else "escaped" if oc[0] == "escaped" else
                    "error-instead-of-value" if oc[0] == "err" and not isinstance(exp, str) else
                    "value-instead-of-error" if oc[0] == "val" and isinstance(exp, str) else
                    "wrong-error" if oc[0] == "err" else "wrong-value")
            sig = dict(kind=kind, law=c["law"], form=c["form"][0])
            if oc[0] == "err":
                sig["error"] = oc[1]
            rep.violation(sig, "C08 fails on the implementation: %s gives %s; %s"
                          % (t, show_outcome(oc), describe_expected(c, exp)),
                          dict(case=c, text=t, shape=shape(c), thresholds=tkind(c), impl=show_outcome(oc),
                               expected=str(exp), model=str(m)))
        else:
            rep.violation(dict(kind="correspondence", law=c["law"], form=c["form"][0]),
                          "model and implementation disagree on %s: impl %s, model %s (oracle %s agrees with the implementation)"
                          % (t, show_outcome(oc), m, exp),
                          dict(case=c, text=t, impl=show_outcome(oc), model=str(m), oracle=str(exp)), found_input=False)
    # ---------------- 2. the property's own relations, on the implementation alone
    rel_counts = dict(bounds=0, complement=0, brute_force=0)
    pts = {}          # (law text) -> {k: value}
    for t, (c, oc, exp) in by_text.items():
        if c["form"][0] == "point" and oc[0] == "val":
            pts.setdefault(ka_law(c["law"], c["params"]), {})[int(val(c["form"][1]))] = oc[1]
    for t, (c, oc, exp) in by_text.items():
        f = c["form"]
        if f[0] == "mean" or oc[0] != "val":
            continue
        p = oc[1]
        rel_counts["bounds"] += 1
        if not (-TOL <= p <= 1 + TOL):
            rep.violation(dict(kind="out-of-[0,1]", law=c["law"], form=c["form"][0]),
                          "%s = %s is not a probability" % (t, show_outcome(oc)), dict(case=c, text=t, impl=show_outcome(oc)))
        if f[0] == "single":
            c2 = dict(law=c["law"], params=c["params"], form=["single", f[1], NEG[f[2]], f[3]])
            t2 = ka_text(c2)
            if t < t2 and t2 in by_text and by_text[t2][1][0] == "val":
                rel_counts["complement"] += 1
                q = by_text[t2][1][1]
                if not close(p + q, Fraction(1)):
                    rep.violation(dict(kind="complement", law=c["law"]),
                                  "%s = %s and %s = %s do not sum to 1" % (t, p, t2, q),
                                  dict(case=c, text=t, other=t2, p=str(p), q=str(q)))
        if c["law"] in DISCRETE and f[0] in ("single", "double"):
            table = pts.get(ka_law(c["law"], c["params"]), {})
            L, U = support(c["law"], c["params"])
            ths = thresholds_of(c)
            top = max([math.ceil(x) for x in ths] + [L]) + 1
            if not table or top > max(table) or min(table) > L - 3:
                continue
            if f[0] == "single":
                tt = ths[0]
                cond = (lambda k: REL[f[2]](k, tt)) if f[1] == "L" else (lambda k: REL[f[2]](tt, k))
                bounded = (f[1] == "L") == (f[2] in FWD)
            else:
                if (f[2] in FWD) != (f[3] in FWD):
                    continue
                a, b = ths
                cond = lambda k: REL[f[2]](a, k) and REL[f[3]](k, b)
                bounded = True
            ks = [k for k in range(L - 3, top + 1) if k in table]
            s = sum((table[k] for k in ks if cond(k) == bounded), Fraction(0))
            want = s if bounded else 1 - s
            rel_counts["brute_force"] += 1
            if not close(p, want, Fraction(1, 10 ** 9)):
                rep.violation(dict(kind="not-the-sum-of-point-masses", law=c["law"], form=c["form"][0]),
                              "%s = %s but the implementation's own P(X=k) over the integers %s the condition sum to %s"
                              % (t, show_outcome(oc), "satisfying" if bounded else "violating (complement of)", want),
                              dict(case=c, text=t, impl=show_outcome(oc), brute_force=str(want)))
    rep.coverage.update(dict(
        evaluations=len(cases) + len(fixed_texts), distinct_nontrivial=nontrivial,
        rule="grid: %d valid law instances x thresholds (support-2..support+2, +-%d beyond, k+1/2 as Fractions and as floats, thirds) x 8 single forms; "
             "8 double forms over all ordered pairs of a reduced threshold list (incl. a>b, a=b); 8 mixed-direction chains; X=k for every k in support-3..support+%d; "
             "E() and mean(); %d invalid-parameter instances; %d seeded random rational thresholds/pairs; %d regression inputs; %d probes (huge thresholds, tail counts, lazy thresholds). "
             "distinct by rendered Ka text; non-trivial = expected value strictly inside (0,1), or a mean"
             % (len(insts), FAR, FAR + 1, len(INVALID_INSTANCES), 300 if tier == "quick" else 3000, len(CORPUS), len(PROBES)),
        exhaustive=True, exhaustive_over="the stated grid (not over all thresholds; all thresholds are covered by the theorems)",
        samples=samples, expected_histogram=hist, shape_histogram=shapes_hist, law_histogram=law_hist,
        impl_exact_results=exact_n, impl_float_results=float_n,
        traces_validated_against_impl=len(cases), disagreements=disagreements,
        kernel_lane_cases=len(model) if model else 0,
        relations_on_impl=rel_counts, regression_corpus_ok="%d/%d" % (n_corpus_ok, len(CORPUS)), probe_outcomes=probe_hist))
    rep.assumptions += [
        "math.exp / math.erf are external: Poisson, Exponential and Gaussian values are compared (1e-12) against decimal series at 60+ digits — validation, not proof",
        "float results are compared within 1e-12 (relative to max(1,|v|)); exact (int/Fraction) results must be equal",
        "total mass 1 of Poisson and Geometric is a property of the law, not proved (only finite complements are used)",
        "parser/dispatch are modelled only for comparison chains of one or two operators over numbers and one random variable",
    ]
