"""C20 — currency conversion is table-consistent and independent of the configured base.
Theorems: coq/Properties/C20.v (every table with positive rates, every base, every amount, over Q).
Tie: real start-ups (one subprocess per prepared HOME: .config/ka/currency written by the
implementation's own export writer, .config/ka/config with `base-currency = …`) under many bases of
the built-in table and of generated tables; `x A to B` for all pairs (generated tables) / a fixed
subset + every currency against usd (built-in), chained round trips and triangles; the value
delivered by execute() is compared with x*rate(B)/rate(A) in exact rationals (tolerance 1e-9
relative), across bases (1e-9), and the Gallina model confirms the same rational in the Coq VM.
Which identifier denotes which row comes from the model's registration (clash rules) and is
compared with the live registry of every start-up."""
import os, sys, json, random, subprocess, shutil
from fractions import Fraction
from concurrent.futures import ThreadPoolExecutor
import common as C

ID = "C20"
COQ_TARGETS = ["Properties/C20.vo", "GenFacts/CurrencySrcFacts.vo"]
MODEL_TARGETS = ["Model/Currency.vo"]
IMPORTS = "From Ka Require Import Model.Currency.\nFrom Coq Require Import Ascii.\nOpen Scope string_scope.\n"
PY = "/venv/bin/python"
TOL = 1e-9

EXTRA = r'''
Definition bs (l : list nat) : string := string_of_list_ascii (map ascii_of_nat l).
Definition show_unit (u : cunit) : string :=
  cu_sym u ++ "," ++ cu_name u ++ "," ++ cu_plural u ++ "," ++ c_sym (cu_row u) ++ "," ++ show_Q (c_rate (cu_row u)).
Definition c20case (st : pres regstate) (c : nat * Q * string * string * Q) : string :=
  let '(k, x, a, b, e) := c in
  match st with
  | PRaise ex => "C:" ++ ex
  | POk s =>
      match k with
      | O => String.concat ";" (map show_unit (rs_cash s))
      | _ => match convert s x a b with
             | Some r => if Qeq_bool r e then "1" else "0:" ++ show_Q r
             | None => "-"
             end
      end
  end.
'''
CASE_TYPE = "nat * Q * string * string * Q"

DRIVER = r'''
import sys, json, io, traceback
spec = json.load(open(sys.argv[1]))
res = {}
try:
    import ka.units as U
    import ka.currency as Cu
    from ka.interpret import execute
    from ka.eval import EvalEnvironment
    from fractions import Fraction
    class Box:
        value = None
    def enc(v):
        if isinstance(v, bool): return ["o", repr(v)]
        if isinstance(v, int): return ["i", str(v)]
        if isinstance(v, Fraction): return ["f", str(v.numerator), str(v.denominator)]
        if isinstance(v, float): return ["x", v.hex()]
        return ["o", repr(v)[:80]]
    outs = []
    for e in spec["exprs"]:
        o, er, b = io.StringIO(), io.StringIO(), Box()
        try:
            st = execute(e, EvalEnvironment(), out=o, errout=er, result_box=b)
            outs.append([st, enc(b.value) if st == 0 else None, (o.getvalue() if st == 0 else er.getvalue()).strip()[:160]])
        except BaseException as x:
            outs.append([None, None, "escaped " + type(x).__name__])
    res["results"] = outs
    res["table"] = [[c.symbol, c.name, float(c.dollar_rate).hex()] for c in U.CURRENCY_DATA]
    res["base"] = U.BASE_CURRENCY
    res["cash"] = [[u.symbol, u.singular_name, u.plural_name, float(u.multiple).hex()] for u in U.UNITS if "cash" in u.quantities]
    if spec.get("parse_text") is not None:
        p = Cu.parse_currency_data(spec["parse_text"])
        res["parsed"] = None if p is None else [[c.symbol, c.name, float(c.dollar_rate).hex()] for c in p]
except BaseException as e:
    tb = traceback.extract_tb(e.__traceback__)
    res = dict(crash=dict(exn=type(e).__name__, where="%s:%s" % (tb[-1].filename.split("/")[-1], tb[-1].name), msg=str(e)[:160]))
print("\nDRIVER:" + json.dumps(res))
'''

WRITER = r'''
import sys, json
import ka.currency as Cu
spec = json.load(open(sys.argv[1]))
for path, rows in spec:
    data = [Cu.CurrencyData(s, n, float.fromhex(r)) for s, n, r in rows]
    Cu.scrape_exchange_rates = lambda data=data: data
    Cu.scrape_and_store_rates_to(path)      # the implementation's own export writer
print("WRITTEN")
'''


def coq_bytes(s):
    return "(bs [%s]%%nat)" % ";".join(str(x) for x in s.encode("utf-8"))


def coq_q(fr):
    n, d = fr.numerator, fr.denominator
    return "(%s # %d)" % (("(%d)" % n) if n < 0 else str(n), d)


def norm_name(n):
    import unicodedata
    return "".join(ch for ch in unicodedata.normalize("NFKD", n) if ch.isascii() and ch.isalnum())


def env_for(home):
    e = {k: v for k, v in os.environ.items() if not k.startswith(("XDG_", "PYTHON"))}
    e.update(HOME=home, PYTHONPATH=C.SRC, PYTHONHASHSEED="0", LC_ALL="C.UTF-8", PYTHONDONTWRITEBYTECODE="1")
    return e


def run_driver(job):
    home, script, specpath = job
    try:
        p = subprocess.run([PY, script, specpath], env=env_for(home), cwd=home, stdin=subprocess.DEVNULL,
                           stdout=subprocess.PIPE, stderr=subprocess.PIPE, timeout=600)
    except subprocess.TimeoutExpired:
        return dict(crash=dict(exn="Timeout", where="driver", msg=""))
    for l in p.stdout.decode("utf-8", "replace").splitlines():
        if l.startswith("DRIVER:"):
            r = json.loads(l[7:])
            r["stderr"] = p.stderr.decode("utf-8", "replace")[-400:]
            return r
    return dict(crash=dict(exn="NoOutput", where="driver", msg=p.stderr.decode("utf-8", "replace")[-300:]))


def dec(v):
    """value delivered by execute() as a Fraction (exact value of the float) or None"""
    if v is None:
        return None
    if v[0] == "i":
        return Fraction(int(v[1]))
    if v[0] == "f":
        return Fraction(int(v[1]), int(v[2]))
    if v[0] == "x":
        f = float.fromhex(v[1])
        if f != f or f in (float("inf"), float("-inf")):
            return None
        return Fraction(f)
    return None


def close(a, b, tol=TOL):
    if a is None or b is None:
        return False
    return abs(a - b) <= tol * max(abs(a), abs(b)) or a == b


# ------------------------------------------------------------------ tables
LETTERS = "abcdefghijklmnopqrstuvwxyz"


def gen_table(rng, idx):
    """rows (symbol, name, float rate); most symbols fresh, some deliberate benign clashes"""
    n = rng.choice([3, 4, 6, 8, 12])
    rows, seen = [], set()
    def fresh():
        while True:
            s = rng.choice("qwxz") + "".join(rng.choice(LETTERS) for _ in range(3))
            if s not in seen:
                seen.add(s)
                return s
    def rate():
        r = rng.random()
        if r < 0.15:
            return float(rng.choice([1, 2, 5, 10, 100, 0.5, 0.25]))
        if r < 0.25:        # repr in exponent notation: mantissa with a fraction, exponents ending in 0 and not
            return float(rng.choice(["2.5e+20", "1.25e-10", "7.5e+30", "3.125e-20", "1e+20", "2.5e+17", "1.5e-07", "9.75e+100"]))
        if r < 0.30:        # a rate within a millionth of another row's (a peg that is not exact)
            return float(repr(rng.choice([1.00000025, 0.99999975, 1.0000005])))
        return float(repr(10 ** rng.uniform(-6, 6)))
    for _ in range(n):
        s = fresh()
        rows.append([s, s + rng.choice(["coin", "mark", "dollar", "peso"]), rate()])
    kind = idx % 5
    if kind == 1:      # the special currencies with their special names and symbols
        rows.insert(rng.randrange(len(rows) + 1), ["usd", "usdollar", 1.0])
        rows.insert(rng.randrange(len(rows) + 1), ["eur", "euro", rate()])
        rows.insert(rng.randrange(len(rows) + 1), ["jpy", "japaneseyen", rate()])
        rows.insert(rng.randrange(len(rows) + 1), ["gbp", "britishpound", rate()])
    elif kind == 2:    # a symbol owned by a unit (registered under its name), a name owned by a unit (named by its symbol)
        rows.insert(rng.randrange(len(rows) + 1), ["cup", fresh() + "peso", rate()])
        rows.insert(rng.randrange(len(rows) + 1), [fresh(), "metre", rate()])
    elif kind == 3:    # duplicate name (second goes by its symbol), duplicate symbol (second goes by its name), exact duplicate (skipped)
        a = rows[0]
        rows.append([fresh(), a[1], rate()])
        rows.append([a[0], fresh() + "mark", rate()])
        rows.append([a[0], a[1], rate()])
    elif kind == 4:    # names that need reduction to identifiers
        for odd in ("pa'anga", "bolívar", "-vatu"):      # every kind, every time (a non-ASCII name is in each real export)
            rows.append([fresh(), "tongan" + odd + fresh(), rate()])
    return rows


def table_text(rows):
    return "".join("%s,%s,%s\n" % (s, n, repr(r)) for s, n, r in rows)


# ------------------------------------------------------------------ the check
def run(ctx):
    C.config_matrix(ctx["report"], ctx["rundir"], "C20", ["1 eur to usd", "1 usd to eur", "100 eur to gbp", "(1 eur to jpy) jpy to eur", "((1 eur to usd) usd to gbp) - (1 eur to gbp) < 1e-9", "1 pab to usd", "1000000 usd to eur", "1 btc to vnd", "1 $ to eur", "1 keur to usd"])
    C.seam_check(ctx["report"], ctx["rundir"], "C20",
                 texts=["1 usd to gbp", "100 jpy to eur", "1 vnd to btc", "0.001 jpy to btc", "(1 vnd to btc) btc to vnd", "1 zwg to usd", "1 usd to zwg", "3 eur to usd + 1 usd",
                        "1 btc to vnd", "1 usd to kg", "2.5 gbp to gbp"],
                 templates=[("%s usd to gbp", ["1", "2", "3"]), ("(%s usd to gbp) > 1.5", ["1", "2", "3", "4"]), ("%s vnd to btc", ["1", "1000", "10^6"]),
                            ("(%s eur to jpy) jpy to eur", ["1", "2.5", "1/3"])],
                 pairs=[("((1 vnd to btc) btc to vnd) > 0.999999", "1"), ("(1 vnd to btc) > 0", "1"), ("(1 usd to zwg) > 0", "1")])
    rep, tier, seed = ctx["report"], ctx["tier"], ctx["seed"]
    rng = random.Random(seed * 15485863 + 20)
    quick = tier == "quick"
    d = json.load(open(C.BUILD + "/dump.json"))
    builtin = [[s, n, float(Fraction(int(r["n"]), int(r["d"])))] for s, n, r in d["currency_data"]]
    root = os.path.join(ctx["rundir"], "c20")
    os.makedirs(root)
    driver = os.path.join(root, "driver.py")
    open(driver, "w").write(DRIVER)
    writer = os.path.join(root, "writer.py")
    open(writer, "w").write(WRITER)

    # ---- tables: index 0 = built-in (no file), others generated and written by the export writer
    n_gen = 20 if quick else 200
    tables = [dict(rows=builtin, file=None, name="built-in")]
    wspec = []
    for i in range(n_gen):
        rows = gen_table(rng, i)
        path = os.path.join(root, "table%d" % i)
        tables.append(dict(rows=rows, file=path, name="generated-%d" % i))
        wspec.append([path, [[s, n, float(r).hex()] for s, n, r in rows]])
    if ctx.get("replay"):
        r = json.load(open(ctx["replay"]))
        rr = r["replay"]
        if rr.get("rows"):
            path = os.path.join(root, "table_replay")
            tables = [tables[0], dict(rows=rr["rows"], file=path, name="replay")]
            wspec = [[path, [[s, n, float(x).hex()] for s, n, x in rr["rows"]]]]
    # an export replaces what was at its path: half of the paths already hold an older, longer table
    for k, (wpath, _rows) in enumerate(wspec):
        if k % 2 == 0:
            with open(wpath, "w") as f:
                f.write("".join("zz%d,stale currency %d,%d.5\n" % (j, j, j + 1) for j in range(400)))
    whome = os.path.join(root, "whome")
    os.makedirs(whome)
    json.dump(wspec, open(os.path.join(root, "wspec.json"), "w"))
    wp = subprocess.run([PY, writer, os.path.join(root, "wspec.json")], env=env_for(whome), stdout=subprocess.PIPE,
                        stderr=subprocess.PIPE, timeout=120)
    if b"WRITTEN" not in wp.stdout:
        rep.violation(dict(kind="export-writer-failed"), "scrape_and_store_rates_to raised: %s" % wp.stderr.decode()[-300:],
                      dict(stderr=wp.stderr.decode()[-600:]), found_input=True)
        return
    for t in tables[1:]:
        t["text"] = open(t["file"], encoding="utf-8").read()
        if t["text"] != table_text(t["rows"]):
            rep.violation(dict(kind="export-format"), "the export writer wrote %r, expected symbol,name,str(rate) lines" % t["text"][:80],
                          dict(rows=t["rows"], text=t["text"]), found_input=True)

    # ---- model lane 1: the registry of each table (identifier -> row), shape is base independent (theorem)
    def model_cases(t, base, cases, tag):
        nt = {n: norm_name(n) for _, n, _ in t["rows"] if not n.isascii()}
        tbl = "[%s]" % ";".join("(%s, %s, %s)" % (coq_bytes(s), coq_bytes(n), coq_q(Fraction(r))) for s, n, r in t["rows"]) \
            if t["file"] else "currency_data"
        st = "(register_currencies (name_norm [%s]) pre_names pre_syms %s %s)" % (
            ";".join("(%s, %s)" % (coq_bytes(k), coq_bytes(v)) for k, v in nt.items()), tbl, coq_bytes(base))
        show = "(let st := %s in fun c => c20case st c)" % st
        return C.run_model(ctx["rundir"], tag, IMPORTS, show, cases, shard=4000, extra_defs=EXTRA, case_type=CASE_TYPE)

    def case(k, x, a, b, e):
        return "(%d%%nat, %s, %s, %s, %s)" % (k, coq_q(x), coq_bytes(a), coq_bytes(b), coq_q(e))

    bases_builtin = [r[0] for r in builtin[:17]] + ["cup", "btc", "vef", "xau"]
    if not quick:
        bases_builtin = [r[0] for r in builtin]
    for i, t in enumerate(tables):
        syms = []
        for s, _, _ in t["rows"]:
            if s not in syms:
                syms.append(s)
        if i == 0:
            t["bases"] = [b for b in bases_builtin if b in syms]
        else:
            t["bases"] = rng.sample(syms, 2) if len(syms) >= 2 else syms
    import time
    t0 = time.time()
    if ctx["model_ok"]:
        with ThreadPoolExecutor(C.NCPU) as ex:
            regs = list(ex.map(lambda it: model_cases(it[1], it[1]["bases"][0], [case(0, Fraction(0), "", "", Fraction(0))], "c20reg%d" % it[0]),
                               list(enumerate(tables))))
    else:
        regs = [None] * len(tables)
    C.log("C20: registries from the model in %.1fs" % (time.time() - t0))
    for t, rg in zip(tables, regs):
        t["units"] = None
        if rg and not rg[0].startswith("C:"):
            us = []
            for item in rg[0].split(";"):
                if not item:
                    continue
                sym, name, plural, rowsym, rate = item.rsplit(",", 4)
                n, dd = rate.split("/")
                us.append(dict(sym=sym, name=name, plural=plural, rowsym=rowsym, rate=Fraction(int(n), int(dd))))
            t["units"] = us
        elif rg:
            rep.violation(dict(kind="model-registration-raises", exn=rg[0]), "the model's registration raises %s on table %s" % (rg[0], t["name"]),
                          dict(rows=t["rows"]), found_input=False)
    if not ctx["model_ok"]:
        # without the model: only rows whose own symbol is fresh can be named (spec-level reading)
        for t in tables:
            seen, us = set(), []
            for s, n, r in t["rows"]:
                if s not in seen:
                    seen.add(s)
                    us.append(dict(sym=s, name=None, plural=None, rowsym=s, rate=Fraction(r)))
            t["units"] = us

    # ---- expressions per table
    AMOUNTS = [("1", Fraction(1)), ("100", Fraction(100)), ("2.5", Fraction(5, 2)), ("0.001", Fraction(1, 1000))]
    subset_builtin = ["usd", "eur", "gbp", "jpy", "inr", "btc", "vef", "xau", "cubanpeso", "all", "top", "try", "$", "€", "£", "¥",
                      "dollar", "yen", "euros", "ves", "venezuelanbolivar", "tonganpaanga"]
    jobs, jobmeta = [], []
    total_exprs = 0
    for ti, t in enumerate(tables):
        if not t["units"]:
            continue
        ident = {}
        for u in t["units"]:
            for k in (u["name"], u["plural"]):
                if k and k not in ident:
                    ident[k] = u
        for u in t["units"]:
            if u["sym"] not in ident:
                ident[u["sym"]] = u
        # identifiers that resolve to a non-cash unit first (a unit's name) are not usable; the model's
        # lookup order (names before symbols) is what `ident` mirrors for cash units only
        t["ident"] = ident
        exprs = []          # (text, kind, data)
        if ti == 0:
            sub = [x for x in subset_builtin if x in ident]
            pairs = [(a, b) for a in sub for b in sub]
            allsyms = [u["sym"] for u in t["units"]]
            pairs += [(a, "usd") for a in allsyms] + [("usd", a) for a in allsyms]
            if not quick:
                pairs += [(a, b) for a in allsyms[::3] for b in allsyms[1::4]]
            ams = AMOUNTS[:2]
        else:
            ids = [u["sym"] for u in t["units"]] + [u["name"] for u in t["units"][:3]] + [u["plural"] for u in t["units"][:2]]
            pairs = [(a, b) for a in ids for b in ids]
            ams = AMOUNTS
        for a, b in pairs:
            for xt, x in ams:
                exprs.append(("%s %s to %s" % (xt, a, b), "rate", (x, a, b)))
        syms = [u["sym"] for u in t["units"]]
        ntri = 60 if quick else 400
        for _ in range(ntri):
            a, b, c = (rng.choice(syms) for _ in range(3))
            xt, x = rng.choice(AMOUNTS)
            exprs.append(("(%s %s to %s) %s to %s" % (xt, a, b, b, a), "roundtrip", (x, a, b)))
            exprs.append(("(%s %s to %s) %s to %s" % (xt, a, b, b, c), "triangle", (x, a, b, c)))
        t["exprs"] = exprs
        for b in t["bases"]:
            home = os.path.join(root, "home_%d_%s" % (ti, "".join(ch if ch.isalnum() else "_" for ch in b)))
            os.makedirs(os.path.join(home, ".config", "ka"))
            if t["file"] and ti % 2 == 0:
                odd = os.path.join(home, "fx#2024 rates", "my=table")
                os.makedirs(os.path.dirname(odd))
                shutil.copy(t["file"], odd)
                open(os.path.join(home, ".config", "ka", "config"), "w").write("base-currency = %s\ncurrency-path = %s\n" % (b, odd))
            else:
                open(os.path.join(home, ".config", "ka", "config"), "w").write("base-currency = %s\n" % b)
                if t["file"]:
                    shutil.copy(t["file"], os.path.join(home, ".config", "ka", "currency"))
            if t["file"]:       # whatever the file's age: written years ago, last summer, in the future
                cur = odd if ti % 2 == 0 else os.path.join(home, ".config", "ka", "currency")
                age = (None, 946684800, 1717200000, 4102444800)[(ti // 2 + len(b)) % 4]
                if age is not None:
                    os.utime(cur, (age, age))
            sp = os.path.join(home, "spec.json")
            json.dump(dict(exprs=[e[0] for e in exprs], parse_text=t.get("text")), open(sp, "w"))
            jobs.append((home, driver, sp))
            jobmeta.append((ti, b))
            total_exprs += len(exprs)
    t0 = time.time()
    with ThreadPoolExecutor(C.NCPU) as ex:
        results = list(ex.map(run_driver, jobs))
    C.log("C20: %d start-ups, %d expressions in %.1fs" % (len(jobs), total_exprs, time.time() - t0))

    # ---- judge
    viol = []
    per_table = {}
    n_rate = n_chain = n_base_cmp = 0
    for (ti, b), r in zip(jobmeta, results):
        t = tables[ti]
        replay = dict(table=t["name"], rows=(t["rows"] if t["file"] else None), base=b,
                      how="HOME with .config/ka/currency = the rows in export format, .config/ka/config = 'base-currency = %s'" % b)
        if r.get("crash"):
            viol.append((dict(kind="startup-crash", exception=r["crash"]["exn"], where=r["crash"]["where"]),
                         "start-up under table %s, base %s raises %s at %s" % (t["name"], b, r["crash"]["exn"], r["crash"]["where"]), replay, True))
            continue
        per_table.setdefault(ti, {})[b] = r
        # the table in use is the one written (export/import), read back identically
        want = [[s, n, float(x).hex()] for s, n, x in t["rows"]]
        if r["table"] != want:
            viol.append((dict(kind="table-not-used"),
                         "C20 fails: CURRENCY_DATA under table %s is not the table written (got %d rows starting %r)" % (t["name"], len(r["table"]), r["table"][:2]),
                         replay, True))
            continue
        if t["file"] and r.get("parsed") != want:
            viol.append((dict(kind="export-import"), "C20 fails: parse_currency_data(export) != table for %s: %r" % (t["name"], (r.get("parsed") or [])[:2]), replay, True))
        if r["base"] != b:
            viol.append((dict(kind="base-not-honoured"), "configured base %r present in the table, BASE_CURRENCY is %r" % (b, r["base"]), replay, True))
            continue
        # live registry vs the model's registration (names, symbols, plurals, multiple = rate(base)/rate(row))
        rb = next(Fraction(x) for s, _, x in t["rows"] if s == b)
        live = [(s, n, p) for s, n, p, _ in r["cash"]]
        mod = [(u["sym"], u["name"], u["plural"]) for u in t["units"]] if ctx["model_ok"] else None
        if mod is not None and live != mod:
            diff = [x for x in zip(live, mod) if x[0] != x[1]][:2] or [(len(live), len(mod))]
            viol.append((dict(kind="registry-differs"), "cash units of the live registry differ from the model's registration on table %s base %s: %r" % (t["name"], b, diff), replay, False))
            # no `continue`: the conversions below decide whether the difference makes the property fail
        if mod is not None and live == mod:
            for (s, n, p, mh), u in zip(r["cash"], t["units"]):
                if not close(Fraction(float.fromhex(mh)), rb / u["rate"], 1e-12):
                    viol.append((dict(kind="multiple"), "C20 fails: unit %s has multiple %r, rate(base)/rate(row) = %r (table %s base %s)"
                                 % (s, float.fromhex(mh), float(rb / u["rate"]), t["name"], b), replay, True))
                    break
        ident = t["ident"]
        for (text, kind, data), (st, val, txt) in zip(t["exprs"], r["results"]):
            got = dec(val)
            if kind == "rate":
                x, a, bb = data
                exp = x * ident[bb]["rate"] / ident[a]["rate"]
                n_rate += 1
            elif kind == "roundtrip":
                exp = data[0]
                n_chain += 1
            else:
                x, a, bb, c = data
                exp = x * ident[c]["rate"] / ident[a]["rate"]
                n_chain += 1
            if st != 0 or not close(got, exp):
                viol.append((dict(kind="conversion-value"),
                             "C20 fails: %s under table %s, base %s gives %s (status %r), the table gives %r"
                             % (text, t["name"], b, (float(got) if got is not None else txt), st, float(exp)),
                             dict(replay, expr=text, impl=(str(got) if got is not None else txt), expected=str(exp)), True))
    # base independence: the same expression under every base of the same table
    for ti, by_base in per_table.items():
        t = tables[ti]
        bs_ = list(by_base)
        if len(bs_) < 2:
            continue
        ref = by_base[bs_[0]]["results"]
        for b in bs_[1:]:
            for (text, kind, data), r0, r1 in zip(t["exprs"], ref, by_base[b]["results"]):
                n_base_cmp += 1
                if r0[0] != r1[0] or (r0[0] == 0 and not close(dec(r0[1]), dec(r1[1]))):
                    viol.append((dict(kind="base-dependent"),
                                 "C20 fails: %s gives %s under base %s and %s under base %s (table %s)"
                                 % (text, r0[2], bs_[0], r1[2], b, t["name"]),
                                 dict(table=t["name"], rows=(t["rows"] if t["file"] else None), bases=[bs_[0], b], expr=text), True))
                    break
    # ---- model lane 2: the Gallina convert gives exactly the rational the oracle used
    n_model = 0
    if ctx["model_ok"]:
        mjobs = []
        t0 = time.time()
        for ti, t in enumerate(tables):
            if not t.get("exprs") or not t["units"]:
                continue
            rates = [e for e in t["exprs"] if e[1] == "rate"]
            if ti == 0:
                rates = rates[:: max(1, len(rates) // 400)]
            for b in (t["bases"][:3] if ti == 0 else t["bases"][:1]):
                cs = [case(1, x, a, bb, x * t["ident"][bb]["rate"] / t["ident"][a]["rate"]) for _, _, (x, a, bb) in rates]
                mjobs.append((ti, b, cs, rates))
        with ThreadPoolExecutor(C.NCPU) as ex:
            mres = list(ex.map(lambda j: model_cases(tables[j[0]], j[1], j[2], "c20cv%d_%s" % (j[0], "".join(ch if ch.isalnum() else "_" for ch in j[1]))), mjobs))
        C.log("C20: model conversions in %.1fs" % (time.time() - t0))
        for (ti, b, cs, rates), outs in zip(mjobs, mres):
            for (text, _, _), o in zip(rates, outs):
                n_model += 1
                if o != "1":
                    viol.append((dict(kind="model-vs-oracle"), "Gallina convert on %s (table %s, base %s) gives %s, not the oracle's x*rate(B)/rate(A)" % (text, tables[ti]["name"], b, o),
                                 dict(table=tables[ti]["name"], rows=(tables[ti]["rows"] if tables[ti]["file"] else None), base=b, expr=text), False))
                    break
    viol.sort(key=lambda v: not v[3])
    for sig, text, replay, found in viol:
        rep.violation(sig, text, replay, found_input=found)
    gen_used = sum(1 for ti in per_table if ti > 0)
    rep.coverage.update(dict(
        evaluations=total_exprs, distinct_nontrivial=n_rate + n_chain,
        rule="tables: the built-in one under %d bases and %d generated tables (3-16 rows, log-uniform rates 1e-6..1e6, special currencies, unit-owned symbols/names, "
             "duplicate names/symbols, names needing reduction) written by scrape_and_store_rates_to and loaded by a real start-up under 2 bases each; "
             "expressions: `x A to B` for all pairs of registered identifiers (generated) / a 22-identifier subset squared plus every currency against usd (built-in), "
             "amounts 1, 100, 2.5, 0.001; chained round trips and triangles; value from execute()'s result box against exact rationals, 1e-9 relative; "
             "non-trivial = every evaluated conversion (A = B included in the pair sweep)" % (len(tables[0]["bases"]), n_gen),
        exhaustive=False, exhaustive_slices=["all identifier pairs of every generated table", "every built-in currency against usd under every chosen base"],
        samples=[dict(table=tables[ti]["name"], base=b, expr=tables[ti]["exprs"][7][0], impl=r["results"][7]) for (ti, b), r in list(zip(jobmeta, results))[:6] if not r.get("crash")],
        startups=len(jobs), tables_used=len(per_table), generated_tables_loaded=gen_used, rate_checks=n_rate, chain_checks=n_chain,
        base_comparisons=n_base_cmp, kernel_lane_cases=n_model + len(tables), traces_validated_against_impl=n_rate + n_chain,
        disagreements=len(viol)))
    rep.assumptions += [
        "floats: the implementation computes the conversion in binary64; agreement with the exact rational is checked to 1e-9 relative, not proved (C20_float_partial)",
        "str()/float() of a rate round-trip (CPython shortest repr): hypothesis of C20_export_import, exercised by writing and re-reading every generated table",
        "identifiers reached through a prefix (kiloeuro) are outside the model",
        "generated tables avoid rows that trip register_unit's assertions or have a zero rate: those are C19's findings (the model carries the repaired behaviour)",
    ]
